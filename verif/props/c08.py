"""C08 — client-side trial caches never serve a view that differs from the backend.

prove:      Props/C08Gen.lean — the method bodies of both caches regenerated from the source as a statement IR (T-cache), the
            interpreter proved equal to the hand model method by method, the theorems below restated for it;
            Props/C08.lean — invariant `cache_covers` of `_CachedStorage` / `GrpcClientCache` preserved by every
            backend step of any client and by every critical section; `sync_then_equal`, `finished_never_stale`,
            `order_by_number`, number/name/directions memo, `servicer_filter_eq_rdb_filter`, every critical section
            keeps the invariant (thread interleavings at lock granularity), the system theorem
            `all_clients_see_backend_partial`; `decide`d witnesses of F6 (on the pre-repair variant), of the
            foreign-delete limit and of the create-snapshot race (the latter two replayed on the real classes).
correspond: 2-4 real clients (raw RDBStorage, _CachedStorage(RDBStorage), GrpcStorageProxy whose servicer sits on the
            storage or on one of the _CachedStorage clients) on ONE SQLite file — or proxies + the object itself on one
            InMemoryStorage — execute a seeded interleaving; the compiled Lean model `driver cache` executes the same
            calls; every answer, and the private unfinished set / watermark / cached numbers / memo fields, are
            compared.  The two fetch filters are probed directly (`RDBStorage._get_trials`, servicer `GetTrials`).
observe:    the property itself, independent of the model: every read through a client is repeated AT THAT MOMENT
            on a cache-less reference object of the same database and must be equal.
"""
from __future__ import annotations

import json
import os
import random
from collections import deque
from concurrent.futures import ThreadPoolExecutor
from typing import Any

os.environ.setdefault("GRPC_VERBOSITY", "NONE")  # transport chatter ("Got goaway") when a case's server is stopped

from verif import core, fleet  # noqa: E402
from verif import storage_k as K  # noqa: E402
from verif.props import c08_gen  # noqa: E402

RULE = (
    "a case = (database kind, 2-4 clients of kinds raw/_CachedStorage/GrpcStorageProxy[servicer on the storage | on one "
    "of the cached clients], seeded history): storage calls of the C01 generator (<=3 studies sharing the id space, "
    "<=10 trials, templates in every state, trials finishing out of creation order, unknown ids, writes after finish) "
    "issued through a random client each, followed by reads through caching clients (get_all_trials with state filters, "
    "get_trial, number lookup, name, directions, n_trials, number/param of a trial), full sweeps of every client over "
    "every study/trial, comparisons of the private cache fields and direct probes of the two fetch filters; "
    "non-trivial = >=2 different clients wrote AND a caching client served >=1 read from a non-empty cache AND >=1 "
    "trial finished after a younger trial of its study was created; distinct by SHA-1 of (database, clients, ops)"
)
READS = {"getAllTrials", "getNTrials", "getTrial", "getTrialNumberFromId", "getTrialParam", "getTrialIdFromNumber",
         "getStudyNameFromId", "getStudyDirections"}
STUDY_READS = {"getAllTrials", "getNTrials", "getTrialIdFromNumber", "getStudyNameFromId", "getStudyDirections"}
TRIAL_READS = {"getTrial", "getTrialNumberFromId", "getTrialParam"}
STATE_FILTERS = [None, None, None, [4], [1, 0], [1], [2, 3], [0, 1, 2, 3, 4], [], [0], [0, 4], [1, 2, 3]]
KNOWN_KINDS = ("stale-after-foreign-delete-study", "sqlite-id-reuse-after-delete")


# ---- the real clients ------------------------------------------------------------------------------
_TEMPLATE: dict[int, str] = {}


def fresh_sqlite_url(tmp: str) -> str:
    """A new, empty optuna database.  Creating the schema costs ~1 s, so each process does it once and copies the file."""
    import os
    import shutil

    pid = os.getpid()
    if pid not in _TEMPLATE or not os.path.exists(_TEMPLATE[pid]):
        url = fleet._sqlite_url(tmp)
        s = fleet._rdb(url)
        s.scoped_session.remove()
        s.engine.dispose()
        _TEMPLATE[pid] = url[len("sqlite:///"):]
    url = fleet._sqlite_url(tmp)
    shutil.copyfile(_TEMPLATE[pid], url[len("sqlite:///"):])
    return url


def _no_fsync(s: Any) -> None:
    """Harness-side only: scratch databases need no durability (fsync per commit dominates the run time otherwise)."""
    try:
        from sqlalchemy import event

        def _pragma(dbapi_con: Any, _rec: Any) -> None:
            cur = dbapi_con.cursor()
            cur.execute("PRAGMA synchronous=OFF")
            cur.close()

        event.listen(s.engine, "connect", _pragma)
        s.scoped_session.remove()
        s.engine.dispose()  # connections opened during __init__ are replaced by ones with the pragma
    except Exception:
        pass


class World:
    """The real objects of one case.  `kinds[i]` = {"kind": raw|cached|proxy, "server": j|None}."""

    def __init__(self, base: str, kinds: list[dict[str, Any]], tmp: str) -> None:
        import grpc
        from optuna.storages import GrpcStorageProxy, InMemoryStorage, _CachedStorage
        from optuna.storages._grpc import servicer as grpc_servicer
        from optuna.storages._grpc.auto_generated import api_pb2_grpc

        self.base = base
        self.kinds = kinds
        self._rdbs: list[Any] = []
        self._servers: list[Any] = []
        self._pools: list[Any] = []
        if base == "sqlite":
            url = fresh_sqlite_url(tmp)
            self._path = url[len("sqlite:///"):]

            def mk_raw() -> Any:
                s = fleet._rdb(url)
                _no_fsync(s)
                self._rdbs.append(s)
                return s
        elif base == "mem":
            mem = InMemoryStorage()

            def mk_raw() -> Any:
                return mem
        else:
            raise ValueError(base)
        self.ref = mk_raw()  # cache-less reference reader
        self.nodes: list[Any] = [None] * len(kinds)
        for i, k in enumerate(kinds):
            if k["kind"] == "raw":
                self.nodes[i] = mk_raw()
            elif k["kind"] == "cached":
                assert base == "sqlite"
                self.nodes[i] = _CachedStorage(mk_raw())
        ports: dict[Any, int] = {}
        for i, k in enumerate(kinds):
            if k["kind"] != "proxy":
                continue
            key = k.get("server")
            if key not in ports:
                backend = self.nodes[key] if key is not None else mk_raw()
                pool = ThreadPoolExecutor(max_workers=4)
                self._pools.append(pool)
                server = grpc.server(pool)
                api_pb2_grpc.add_StorageServiceServicer_to_server(grpc_servicer.OptunaStorageProxyService(backend), server)
                ports[key] = server.add_insecure_port("localhost:0")
                server.start()
                self._servers.append(server)
            self.nodes[i] = GrpcStorageProxy(host="localhost", port=ports[key])

    def close(self) -> None:
        for s in self._servers:
            try:
                s.stop(0)  # no wait: nothing is in flight (the harness is synchronous); waiting costs ~0.4 s per server
            except Exception:
                pass
        for p in self._pools:
            p.shutdown(wait=False)
        for s in self._rdbs:
            try:
                s.scoped_session.remove()
                s.engine.dispose()
            except Exception:
                pass
        if getattr(self, "_path", None):
            import os

            try:
                os.unlink(self._path)
            except OSError:
                pass


def gen_kinds(r: random.Random, base: str) -> list[dict[str, Any]]:
    n = r.randint(2, 4)
    if base == "mem":
        kinds = [{"kind": "proxy", "server": None} for _ in range(r.randint(1, n - 1))]
        kinds += [{"kind": "raw"} for _ in range(n - len(kinds))]
        r.shuffle(kinds)
        return kinds
    while True:
        kinds = []
        for _ in range(n):
            x = r.random()
            kinds.append({"kind": "raw"} if x < 0.25 else {"kind": "cached"} if x < 0.65 else {"kind": "proxy", "server": None})
        cached = [i for i, k in enumerate(kinds) if k["kind"] == "cached"]
        for k in kinds:
            if k["kind"] == "proxy" and cached and r.random() < 0.5:
                k["server"] = r.choice(cached)
        if any(k["kind"] != "raw" for k in kinds):
            return kinds


# ---- one history -----------------------------------------------------------------------------------
class Fail(Exception):
    def __init__(self, kind: str, signature: dict[str, Any], why: str) -> None:
        super().__init__(why)
        self.kind = kind  # "property" | "model"
        self.signature = signature


def _strip(o: dict[str, Any]) -> dict[str, Any]:
    return {k: v for k, v in o.items() if k != "msg"}


def _norm_entry(u: list[Any], w: Any, numbers: list[int], name: Any, dirs: Any) -> dict[str, Any] | None:
    if not u and w == -1 and not numbers and name is None and dirs is None:
        return None  # an empty entry is as good as none
    return {"U": sorted(u, key=str), "W": w, "numbers": sorted(numbers), "name": name, "dirs": dirs}


class Runner:
    def __init__(self, base: str, kinds: list[dict[str, Any]], drv: core.Driver, tmp: str, known: list[dict[str, Any]]) -> None:
        self.base, self.kinds, self.drv = base, kinds, drv
        self.world = World(base, kinds, tmp)
        self.ex_ref = K.Exec(self.world.ref)
        self.execs = [K.Exec(n, share=self.ex_ref) for n in self.world.nodes]
        resp = drv.ask({"cmd": "reset", "nodes": kinds})
        if resp.get("k") != "reset":
            raise core.DriverBroken("driver cache: %s" % resp)
        self.known = known
        self.log: list[list[Any]] = []
        self.reused = False
        self.events: list[dict[str, Any]] = []  # known-finding hits (history goes on)
        self.gen_first: dict[str, Any] | None = None  # first step on which the generated interpreter and the hand model differ
        self.stats = {"writers": set(), "cache_served": 0, "out_of_order_finish": 0, "reads": 0, "sweeps": 0, "internals": 0,
                      "internals_unavailable": 0, "filter_probes": 0, "foreign_delete": 0}
        self.hist: dict[str, int] = {}
        self.trial_state: dict[int, int] = {}  # canonical trial id -> last known state (from the reference)

    def close(self) -> None:
        self.world.close()

    def caching(self) -> list[int]:
        return [i for i, k in enumerate(self.kinds) if k["kind"] != "raw"]

    # -- helpers
    def is_known(self, sig: dict[str, Any]) -> bool:
        return any(all(sig.get(k) == v for k, v in kf.get("match", {}).items()) for kf in self.known)

    def _touches_reused_id(self, op: dict[str, Any], obs: Any, ref: Any) -> bool:
        """F12b is claimed only for a mismatch that involves an id SQLite handed out again: the call addresses such a study /
        trial, or one of the two answers contains a trial carrying such an id.  Any other stale read after a reuse event is
        judged as a stale read."""
        import re as _re

        ex = self.ex_ref
        rs = {int(m) for e in ex.reuse_events for m in _re.findall(r"study id (\d+)", e)}
        rt = {int(m) for e in ex.reuse_events for m in _re.findall(r"trial id (\d+)", e)}
        if "sid" in op and isinstance(op["sid"], int) and ex.s2r.get(op["sid"]) in rs:
            return True
        if "tid" in op and isinstance(op["tid"], int) and (ex.t2r.get(op["tid"]) in rt or ex.s2r.get(ex.trial_study.get(op["tid"], -1)) in rs):
            return True
        if op.get("op") in ("getStudyIdFromName", "getAllStudies") and rs:
            return True

        def walk(o: Any) -> bool:
            if isinstance(o, dict):
                i = o.get("id")
                if isinstance(i, int) and ("number" in o or "state" in o) and (ex.t2r.get(i) in rt or ex.s2r.get(ex.trial_study.get(i, -1)) in rs):
                    return True
                if isinstance(i, int) and "name" in o and ex.s2r.get(i) in rs:
                    return True
                return any(walk(v) for v in o.values())
            if isinstance(o, list):
                return any(walk(v) for v in o)
            return False

        return walk(obs) or walk(ref)

    def _target_deleted(self, op: dict[str, Any]) -> bool:
        if op["op"] in STUDY_READS:
            return op["sid"] in self.ex_ref.deleted_studies
        if op["op"] in TRIAL_READS:
            return self.ex_ref.trial_study.get(op["tid"]) in self.ex_ref.deleted_studies
        return False

    def _model_call(self, node: int, op: dict[str, Any], impl_raised: bool = False) -> dict[str, Any]:
        resp = self.drv.ask({"cmd": "call", "node": node, "op": K.to_driver(op, impl_raised=impl_raised)})
        if "out" not in resp:
            raise core.DriverBroken("driver cache rejected %s: %s" % (json.dumps(op)[:200], resp))
        if c08_gen.gen_disagreement(resp) is not None and self.gen_first is None:
            self.gen_first = {"at": len(self.log), "node": node, "op": op, "gen": resp["gen"]}
        return resp

    # -- one step
    def do(self, node: int, op: dict[str, Any]) -> dict[str, Any] | None:
        self.log.append([node, op])
        self.hist["op:" + op["op"]] = self.hist.get("op:" + op["op"], 0) + 1
        if op["op"] == "internals":
            self.check_internals(node)
            return None
        if op["op"] == "filterProbe":
            self.filter_probe(node, op)
            return None
        ex = self.execs[node]
        n_reuse = len(self.ex_ref.reuse_events)
        try:
            obs = ex.run(op)
        except K.IdReuse as e:
            raise Fail("property", {"kind": "live-id-handed-out-twice", "base": self.base}, "id reuse: %s" % e)
        if len(self.ex_ref.reuse_events) > n_reuse:
            self.reused = True
        is_read = op["op"] in READS
        ref = self.ex_ref.run(op) if is_read else None
        mo = None
        if not self.reused:
            raised_value = obs.get("k") == "err" and obs.get("e") == "ValueError"
            if op["op"] == "createTrial" and op.get("tmpl") and obs.get("k") == "err" and obs.get("e") == "other:_InactiveRpcError":
                raised_value = True  # U1 through the proxy (see C01)
                obs = dict(obs, e="ValueError")
            resp = self._model_call(node, op, raised_value)
            mo = resp["out"]
            if is_read:
                why = K.compare_out(resp["direct"], ref)
                if why is not None:
                    raise Fail("model", {"kind": "backend-model", "op": op["op"]}, "reference read vs contract model: %s" % why)
        if is_read:
            self.stats["reads"] += 1
            if _strip(obs) != _strip(ref):
                agrees = mo is not None and K.compare_out(mo, obs) is None
                if self.reused and self._touches_reused_id(op, obs, ref):
                    sig = {"kind": "sqlite-id-reuse-after-delete", "base": self.base, "op": op["op"]}
                elif ref.get("k") == "err" and ref.get("e") == "KeyError" and obs.get("k") != "err" and self._target_deleted(op) and (agrees or self.reused):
                    # (after an id-reuse event the contract model is switched off, so its agreement cannot be asked for)
                    sig = {"kind": "stale-after-foreign-delete-study", "op": op["op"], "client": self.kinds[node]["kind"]}
                    self.stats["foreign_delete"] += 1
                else:
                    sig = {"kind": "stale-read", "op": op["op"], "client": self.kinds[node]["kind"], "base": self.base}
                msg = "client %d (%s) answers %s with %s but the database holds %s at that moment" % (
                    node, json.dumps(self.kinds[node]), json.dumps(op)[:160], json.dumps(_strip(obs), sort_keys=True)[:400],
                    json.dumps(_strip(ref), sort_keys=True)[:400])
                if self.is_known(sig):
                    if not any(e["signature"]["kind"] == sig["kind"] for e in self.events):
                        self.events.append({"signature": sig, "msg": msg, "at": len(self.log)})
                else:
                    raise Fail("property", sig, msg)
            elif self.kinds[node]["kind"] != "raw" and obs.get("k") in ("trial", "trials", "nat", "str", "nats"):
                self.stats["cache_served"] += 1
        if mo is not None:
            why = K.compare_out(mo, obs)
            if why is not None:
                raise Fail("model", {"kind": "client-model", "op": op["op"], "client": self.kinds[node]["kind"]},
                           "client %d (%s) %s: %s" % (node, self.kinds[node]["kind"], json.dumps(op)[:160], why))
        # bookkeeping for the non-triviality rule
        if op["op"] in K.MUTATING and obs.get("k") != "err":
            self.stats["writers"].add(node)
        if op["op"] == "setTrialStateValues" and obs.get("k") == "bool" and obs.get("b") and op["state"] in (1, 2, 3):
            sid = self.ex_ref.trial_study.get(op["tid"])
            if any(t > op["tid"] and s == sid for t, s in self.ex_ref.trial_study.items()):
                self.stats["out_of_order_finish"] += 1
        return obs

    # -- private fields of the caches
    def real_internals(self, node: int) -> dict[Any, Any] | None:
        obj = self.world.nodes[node]
        ex = self.ex_ref
        try:
            studies = obj._studies if self.kinds[node]["kind"] == "cached" else obj._cache.studies
            out: dict[Any, Any] = {}
            for rsid, info in list(studies.items()):
                u = [ex.r2t.get(t, "?%d" % t) for t in info.unfinished_trial_ids]
                w = info.last_finished_trial_id
                wc = -1 if w == -1 else ex.r2t.get(w, "?%d" % w)
                name = getattr(info, "name", None)
                dirs = getattr(info, "directions", None)
                dirs = None if dirs is None else [int(d.value) for d in dirs]
                ent = _norm_entry(u, wc, list(info.trials.keys()), name, dirs)
                if ent is None:
                    continue
                csid = ex.r2s.get(rsid, rsid - K.UNKNOWN_ID if K.UNKNOWN_ID <= rsid < 2 * K.UNKNOWN_ID else "?%d" % rsid)
                out[str(csid)] = ent
            return out
        except AttributeError:
            return None

    def check_internals(self, node: int) -> None:
        if self.kinds[node]["kind"] == "raw" or self.reused:
            return
        real = self.real_internals(node)
        if real is None:
            self.stats["internals_unavailable"] += 1
            return
        d = self.drv.ask({"cmd": "dump", "node": node})
        model: dict[str, Any] = {}
        for e in d.get("studies", []):
            ent = _norm_entry(e["U"], e["W"], e["numbers"], e["name"], e["dirs"])
            if ent is not None:
                model[str(e["sid"])] = ent
        self.stats["internals"] += 1
        if real != model:
            raise Fail("model", {"kind": "cache-fields", "client": self.kinds[node]["kind"]},
                       "private cache fields of client %d (%s): model %s / implementation %s" % (
                           node, self.kinds[node]["kind"], json.dumps(model, sort_keys=True)[:500], json.dumps(real, sort_keys=True)[:500]))

    # -- the two fetch filters, called directly
    def filter_probe(self, node: int, op: dict[str, Any]) -> None:
        if self.reused:
            return
        ex = self.ex_ref
        nt = len(ex.t2r)
        w = op["w"]
        if w < 0 or not ex.t2r:
            rw = -1
        elif w in ex.t2r:
            rw = ex.t2r[w]
        else:
            rw = max(ex.r2t) + (w - nt + 1)
        inc_real = [ex.rt(c) for c in op["inc"]]
        rsid = ex.rs(op["sid"])
        self.stats["filter_probes"] += 1
        if op["which"] == "rdb":
            if self.base != "sqlite":
                return
            try:
                ts = self.world.ref._get_trials(rsid, None, set(inc_real), rw)
                obs = {"k": "ids", "l": [ex.r2t.get(t._trial_id, "?%d" % t._trial_id) for t in ts]}
            except KeyError:
                obs = {"k": "err", "e": "KeyError"}
            except AttributeError:
                return
        else:
            import grpc
            from optuna.storages._grpc.auto_generated import api_pb2

            if self.kinds[node]["kind"] != "proxy":
                return
            srv = self.kinds[node].get("server")
            if srv is not None:
                # the servicer reads through its _CachedStorage, which syncs: the model's client must do the same
                self._model_call(srv, {"op": "getAllTrials", "sid": op["sid"], "states": None})
            try:
                res = self.world.nodes[node]._stub.GetTrials(api_pb2.GetTrialsRequest(
                    study_id=rsid, included_trial_ids=inc_real, trial_id_greater_than=rw))
                obs = {"k": "ids", "l": [ex.r2t.get(t.trial_id, "?%d" % t.trial_id) for t in res.trials]}
            except grpc.RpcError as e:
                if e.code() != grpc.StatusCode.NOT_FOUND:
                    raise
                obs = {"k": "err", "e": "KeyError"}
            except AttributeError:
                return
        m = self.drv.ask({"cmd": "filter", "which": op["which"], "sid": op["sid"], "inc": op["inc"], "w": w})
        g = m.pop("gen", None)
        if g is not None and self.gen_first is None:
            self.gen_first = {"at": len(self.log), "node": node, "op": op, "gen": g}
        if m != obs:
            # the selected set differs from {id in included or id > watermark}: that IS the incremental-fetch mechanism
            raise Fail("property", {"kind": "fetch-filter", "which": op["which"], "base": self.base},
                       "%s filter (study %s, included %s, greater_than %s) selects %s, must select %s" % (
                           "RDBStorage._get_trials" if op["which"] == "rdb" else "servicer GetTrials", op["sid"], op["inc"], w,
                           json.dumps(obs), json.dumps(m)))


def sweep_ops(r: random.Random, n_nodes: int, ns: int, nt: int, caching: list[int]) -> list[list[Any]]:
    out: list[list[Any]] = []
    for node in range(n_nodes):
        for sid in range(ns):
            out.append([node, {"op": "getAllTrials", "sid": sid, "states": None}])
            out.append([node, {"op": "getAllTrials", "sid": sid, "states": r.choice(STATE_FILTERS[3:])}])
            out.append([node, {"op": "getStudyNameFromId", "sid": sid}])
            out.append([node, {"op": "getStudyDirections", "sid": sid}])
            out.append([node, {"op": "getTrialIdFromNumber", "sid": sid, "number": r.randrange(4)}])
        for tid in range(nt):
            out.append([node, {"op": "getTrial", "tid": tid}])
    r.shuffle(out)
    for node in caching:
        out.append([node, {"op": "internals"}])
    return out


def follow_ups(r: random.Random, g: K.Gen, n_nodes: int, caching: list[int], kinds: list[dict[str, Any]], base: str) -> list[list[Any]]:
    out: list[list[Any]] = []
    if not caching:
        return out
    if r.random() < 0.7:
        out.append([r.choice(caching), {"op": "getAllTrials", "sid": g.sid(), "states": r.choice(STATE_FILTERS)}])
    if r.random() < 0.4:
        out.append([r.choice(caching), {"op": "getTrial", "tid": g.tid()}])
    if r.random() < 0.15:
        out.append([r.choice(caching), {"op": "getTrialIdFromNumber", "sid": g.sid(), "number": r.randrange(g.max_trials + 1)}])
    if r.random() < 0.12:
        out.append([r.choice(caching), {"op": r.choice(["getStudyNameFromId", "getStudyDirections"]), "sid": g.sid()}])
    if r.random() < 0.08:
        out.append([r.choice(caching), {"op": r.choice(["getNTrials"]), "sid": g.sid(), "states": r.choice(STATE_FILTERS)}])
    if r.random() < 0.06:
        out.append([r.choice(caching), {"op": r.choice(["getTrialNumberFromId", "getTrialParam"]), "tid": g.tid(), "name": "p%d" % r.randrange(3)}])
    if r.random() < 0.10:
        out.append([r.choice(caching), {"op": "internals"}])
    if r.random() < 0.10:
        proxies = [i for i, k in enumerate(kinds) if k["kind"] == "proxy"]
        which = r.choice(["rdb", "servicer"]) if (base == "sqlite" and proxies) else "rdb" if base == "sqlite" else "servicer"
        if which == "rdb" or proxies:
            inc = sorted({g.tid() for _ in range(r.randrange(4))} | ({g.nt + r.randrange(3)} if r.random() < 0.2 else set()))
            w = r.choice([-1, -1, g.nt, g.nt + 1] + list(range(max(g.nt, 1))))
            out.append([r.choice(proxies) if which == "servicer" else 0,
                        {"op": "filterProbe", "which": which, "sid": g.sid(), "inc": inc, "w": w}])
    return out


def run_case(base: str, kinds: list[dict[str, Any]], seed: int, n_ops: int, drv: core.Driver, tmp: str,
             known: list[dict[str, Any]], ops: list[list[Any]] | None = None) -> dict[str, Any]:
    """Generate-and-run (ops is None) or replay a recorded op list.  Returns a result dict."""
    r = random.Random(seed)
    run = Runner(base, kinds, drv, tmp, known)
    res: dict[str, Any] = {"ok": True}
    try:
        try:
            if ops is not None:
                for node, op in ops:
                    run.do(node, op)
                    if run.reused:
                        break
            else:
                g = K.Gen(r, max_trials=10)
                caching = run.caching()
                queue: deque[list[Any]] = deque()
                main_done = 0
                final = False
                while True:
                    if run.reused:
                        break
                    if queue:
                        node, op = queue.popleft()
                        run.do(node, op)
                        continue
                    if main_done >= n_ops:
                        if final:
                            break
                        final = True
                        queue.extend(sweep_ops(r, len(kinds), g.ns, g.nt, caching))
                        run.stats["sweeps"] += 1
                        continue
                    op = g.next(multi_objective=True)
                    while op["op"] == "getBestTrial" or (op["op"] == "deleteStudy" and r.random() < 0.5):
                        op = g.next(multi_objective=True)
                    node = r.randrange(len(kinds))
                    obs = run.do(node, op)
                    main_done += 1
                    if obs is not None:
                        g.feedback(op, obs)
                    queue.extend(follow_ups(r, g, len(kinds), caching, kinds, base))
                    if r.random() < 0.03:
                        queue.extend(sweep_ops(r, len(kinds), g.ns, g.nt, caching))
                        run.stats["sweeps"] += 1
            if run.reused:
                # SQLite handed out the id of a deleted row again (F12): the model cannot follow; look once, with the
                # reference only, at what every client now serves, then stop the history
                g_ns, g_nt = len(run.ex_ref.s2r), len(run.ex_ref.t2r)
                for node, op in sweep_ops(r, len(kinds), g_ns, g_nt, []):
                    run.do(node, op)
        except Fail as f:
            res = {"ok": False, "kind": f.kind, "signature": f.signature, "why": str(f)}
    finally:
        run.close()
    st = run.stats
    res.update({
        "gen": run.gen_first, "ops": run.log, "events": run.events, "hist": run.hist, "reused": run.reused,
        "stats": {k: (len(v) if isinstance(v, set) else v) for k, v in st.items()},
        "nontrivial": len(st["writers"]) >= 2 and st["cache_served"] >= 1 and st["out_of_order_finish"] >= 1,
    })
    return res


# ---- many histories ----------------------------------------------------------------------------------
def _minimise(base: str, kinds: list[dict[str, Any]], ops: list[list[Any]], sig_kind: str, drv: core.Driver, tmp: str,
              known: list[dict[str, Any]]) -> list[list[Any]]:
    def fails(cand: list[list[Any]]) -> bool:
        try:
            res = run_case(base, kinds, 0, 0, drv, tmp, known, ops=cand)
            return (not res["ok"]) and res["signature"].get("kind") == sig_kind
        except Exception:
            return False

    return core.ddmin(list(ops), fails, budget=80)


def known_c08() -> list[dict[str, Any]]:
    return [kf for kf in core.load_known_findings() if kf.get("property") == "C08" and kf.get("status") == "open"]


def _worker(args: tuple[list[tuple[str, list[dict[str, Any]], int, int, Any]], str, list[dict[str, Any]]]) -> list[dict[str, Any]]:
    cases, tmp, known = args
    drv = core.Driver(c08_gen.DRIVER)
    out = []
    try:
        for base, kinds, seed, n_ops, ops in cases:
            case = {"base": base, "kinds": kinds, "seed": seed, "n_ops": n_ops}
            try:
                res = run_case(base, kinds, seed, n_ops, drv, tmp, known, ops=ops)
                res["case"] = case
                out.append(res)
                if not res["ok"]:
                    # the verdict of the run is settled: minimise this one and leave the rest of the batch
                    res["min_ops"] = _minimise(base, kinds, res["ops"], res["signature"].get("kind", ""), drv, tmp, known)
                    break
            except core.DriverBroken as e:
                out.append({"ok": False, "kind": "driver", "why": str(e)[:600], "case": case, "ops": [], "events": [], "hist": {}, "stats": {}, "nontrivial": False})
            except Exception as e:  # noqa: BLE001
                import traceback
                out.append({"ok": False, "kind": "crash", "why": "%s: %s | %s" % (type(e).__name__, str(e)[:200], traceback.format_exc()[-600:]),
                            "case": case, "ops": [], "events": [], "hist": {}, "stats": {}, "nontrivial": False})
    finally:
        drv.close()
    return out


def explore(chk: core.Check, n_cases: int, n_ops: tuple[int, int], procs: int = 12, mem_share: float = 0.2) -> None:
    import multiprocessing as mp

    r = chk.rng
    cases = []
    for i in range(n_cases):
        base = "mem" if r.random() < mem_share else "sqlite"
        cases.append((base, gen_kinds(r, base), chk.seed * 1000003 + i * 7919 + 11, r.randint(*n_ops), None))
    for c in core.corpus_cases("C08"):
        cases.insert(0, (c["base"], c["kinds"], 0, 0, c["ops"]))  # minimised past failures run first
    known = known_c08()
    jobs = [(cases[k::procs], chk.tmp, known) for k in range(procs) if cases[k::procs]]
    from concurrent.futures import ProcessPoolExecutor
    from concurrent.futures.process import BrokenProcessPool

    try:
        # (a plain multiprocessing.Pool waits for ever when a worker process is killed from outside)
        with ProcessPoolExecutor(max_workers=len(jobs), mp_context=mp.get_context("spawn")) as pool:
            results = list(pool.map(_worker, jobs, timeout=1500 if chk.tier == "quick" else 7200))
    except (BrokenProcessPool, TimeoutError) as e:
        raise core.InfraError("worker pool failed: %r" % (e,))
    for res in [x for part in results for x in part]:
        case = res["case"]
        for k, v in res.get("hist", {}).items():
            chk.count(k, v)
        for k, v in res.get("stats", {}).items():
            chk.count("stat:" + k, v)
        chk.count("cases:%s" % case["base"])
        chk.count("clients:" + "+".join(sorted(k["kind"] + ("@cached" if k.get("server") is not None else "") for k in case["kinds"])))
        for ev in res.get("events", []):
            chk.violation(ev["signature"], {"base": case["base"], "kinds": case["kinds"], "ops": res["ops"][: ev["at"]]}, ev["msg"])
        if res.get("gen") and not chk.extra.get("gen_disagreement_reported"):
            chk.extra["gen_disagreement_reported"] = True
            g = res["gen"]
            chk.broke("correspondence", {"what": "interpreter of the generated method bodies (Generated/CacheMethods.lean) differs from the hand model (Model/Cache.lean)",
                                         "first": g["gen"], "node": g["node"], "op": g["op"], "base": case["base"], "kinds": case["kinds"],
                                         "ops": res["ops"][: g["at"] + 1][-40:], "seed": case["seed"]})
        if res["ok"]:
            chk.case({"base": case["base"], "kinds": case["kinds"], "ops": res["ops"]}, nontrivial=res["nontrivial"])
            chk.traces_validated += 1
        elif res["kind"] == "property":
            chk.violation(res["signature"], {"base": case["base"], "kinds": case["kinds"], "ops": res.get("min_ops", res["ops"]),
                                             "full_len": len(res["ops"]), "seed": case["seed"]}, res["why"])
        elif res["kind"] == "model":
            chk.broke("correspondence", {"base": case["base"], "kinds": case["kinds"], "signature": res["signature"], "why": res["why"][:700],
                                         "ops": res.get("min_ops", res["ops"])[-40:], "seed": case["seed"], "n_ops": case["n_ops"]})
        else:
            chk.broke("correspondence", {"case": case, "kind": res["kind"], "why": res["why"]})


# ---- the decided witnesses, replayed on the real code ----------------------------------------------------
TMPL_FAIL = {"state": 3, "values": None, "params": {}, "user": {}, "system": {}, "inter": {}, "start": True, "complete": True}
F6_KINDS = [{"kind": "cached"}, {"kind": "raw"}]
F6_OPS = [
    [0, {"op": "createStudy", "name": "s", "dirs": [1]}],
    [0, {"op": "getAllTrials", "sid": 0, "states": None}],               # A syncs the empty study
    [1, {"op": "createTrial", "sid": 0, "tmpl": None}],                  # B: RUNNING trial, id 0
    [0, {"op": "createTrial", "sid": 0, "tmpl": TMPL_FAIL}],             # A adds a finished trial, id 1
    [1, {"op": "setTrialStateValues", "tid": 0, "state": 3, "values": None}],
    [0, {"op": "getAllTrials", "sid": 0, "states": None}],               # must show both trials
    [0, {"op": "internals"}],
]
FD_OPS = [
    [0, {"op": "createStudy", "name": "s", "dirs": [1]}],
    [0, {"op": "createTrial", "sid": 0, "tmpl": TMPL_FAIL}],
    [1, {"op": "deleteStudy", "sid": 0}],                                # foreign delete
    [0, {"op": "getTrial", "tid": 0}],
    [0, {"op": "getStudyNameFromId", "sid": 0}],
    [0, {"op": "getTrialIdFromNumber", "sid": 0, "number": 0}],
    [0, {"op": "getAllTrials", "sid": 0, "states": None}],
]


def replay_witnesses(chk: core.Check) -> None:
    known = known_c08()
    drv = core.Driver(c08_gen.DRIVER)
    try:
        # (1) the F6 history on today's code: must be clean (the Lean theorem create_finished_template_repaired)
        res = run_case("sqlite", F6_KINDS, 0, 0, drv, chk.tmp, known, ops=F6_OPS)
        chk.count("witness:F6-history-clean" if res["ok"] else "witness:F6-history-fails")
        if not res["ok"]:
            if res["kind"] == "property":
                chk.violation(dict(res["signature"], witness="F6"), {"base": "sqlite", "kinds": F6_KINDS, "ops": F6_OPS}, res["why"])
            else:
                chk.broke("correspondence", {"witness": "F6 history", "why": res["why"]})
        # (2) the foreign-delete witness (Lean: foreign_delete_serves_dead_trial_witness): model and code agree that the
        #     cache answers where the database raises KeyError
        res = run_case("sqlite", F6_KINDS, 0, 0, drv, chk.tmp, [{"match": {"kind": "stale-after-foreign-delete-study"}}], ops=FD_OPS)
        served = [e for e in res.get("events", []) if e["signature"]["kind"] == "stale-after-foreign-delete-study"]
        chk.extra["foreign_delete_witness_reproduced_on_code"] = bool(served)
        if not res["ok"]:
            chk.broke("correspondence", {"witness": "foreign delete", "why": res["why"]})
        elif served:
            chk.violation(served[0]["signature"], {"base": "sqlite", "kinds": F6_KINDS, "ops": FD_OPS[: served[0]["at"]]}, served[0]["msg"])
        else:
            # the code no longer serves the dead study: the model (and the decided witness) are out of date
            chk.broke("correspondence", {"witness": "foreign delete", "why": "the implementation no longer answers reads of a study deleted by another client from its cache; Model/Cache.lean does"})
    finally:
        drv.close()


def thread_race_witness(chk: core.Check) -> None:
    """Lean: stale_create_snapshot_after_sync_witness.  Two real threads inside ONE _CachedStorage and a foreign
    writer; the schedule is forced from the harness (wrapper around the client's lock and around the backend's
    `_create_new_trial`; no repo change): T1 = create_new_trial(WAITING template) is held between its backend call and
    its critical section, a foreign worker claims the trial, T2 = get_all_trials syncs, T1 files its old snapshot,
    T2 reads the dict."""
    import threading

    from optuna.storages import _CachedStorage
    from optuna.study import StudyDirection
    from optuna.trial import TrialState

    url = fresh_sqlite_url(chk.tmp)
    a = _CachedStorage(fleet._rdb(url))
    b = fleet._rdb(url)
    try:
        if not (hasattr(a, "_lock") and hasattr(a, "_backend") and hasattr(a._backend, "_create_new_trial")):
            chk.count("witness:thread-race-hooks-unavailable")
            return
        sid = a.create_new_study([StudyDirection.MINIMIZE], "s")
        a.get_all_trials(sid)
        created, go1, synced, go2 = threading.Event(), threading.Event(), threading.Event(), threading.Event()
        box: dict[str, Any] = {}
        orig_create = a._backend._create_new_trial

        def create_hook(study_id: int, template: Any = None) -> Any:
            ft = orig_create(study_id, template)
            if threading.current_thread().name == "T1":
                box["tid"] = ft._trial_id
                created.set()
                go1.wait(20)
            return ft

        class Lock:
            def __init__(self) -> None:
                self.l, self.n = threading.Lock(), {}

            def __enter__(self) -> None:
                name = threading.current_thread().name
                self.n[name] = self.n.get(name, 0) + 1
                if name == "T2" and self.n[name] == 2:  # after T2's sync, before it reads the dict
                    synced.set()
                    go2.wait(20)
                self.l.acquire()

            def __exit__(self, *exc: Any) -> None:
                self.l.release()

        a._backend._create_new_trial = create_hook
        a._lock = Lock()
        waiting = K.Exec(a).build_template({"state": 4, "values": None, "params": {}, "user": {}, "system": {}, "inter": {}, "start": False, "complete": False})
        t1 = threading.Thread(target=lambda: box.__setitem__("t1", a.create_new_trial(sid, waiting)), name="T1")
        t1.start()
        if not created.wait(20):
            chk.count("witness:thread-race-hooks-unavailable")
            go1.set()
            return
        b.set_trial_state_values(box["tid"], TrialState.RUNNING)  # before T2's call begins
        t2 = threading.Thread(target=lambda: box.__setitem__("t2", a.get_all_trials(sid, deepcopy=False)), name="T2")
        t2.start()
        ok = synced.wait(20)
        go1.set()
        t1.join(20)
        go2.set()
        t2.join(20)
        if not ok or "t2" not in box:
            chk.count("witness:thread-race-hooks-unavailable")
            return
        got = [(t.number, t.state.value) for t in box["t2"]]
        db = [(t.number, t.state.value) for t in b.get_all_trials(sid)]
        healed = [(t.number, t.state.value) for t in a.get_all_trials(sid)]
        chk.extra["thread_race_witness"] = {"t2_got": got, "database_during_t2": db, "next_call": healed}
        if healed != db:
            chk.violation({"kind": "stale-read", "op": "getAllTrials", "client": "cached", "witness": "thread-race-not-healed"},
                          chk.extra["thread_race_witness"], "after the forced two-thread schedule the next get_all_trials still differs from the database: %s vs %s" % (healed, db))
        elif got != db:
            chk.violation({"kind": "create-snapshot-overwrites-newer-sync", "client": "cached"},
                          dict(chk.extra["thread_race_witness"], schedule="T1.create_new_trial[backend call] ; foreign set RUNNING ; T2.get_all_trials[sync] ; T1[critical section] ; T2[read]"),
                          "two threads in one _CachedStorage: get_all_trials, begun after the database had the trial RUNNING, returns %s (database: %s); healed by the next call" % (got, db))
        else:
            chk.broke("correspondence", {"witness": "thread race", "why": "the forced schedule no longer yields a stale view; Model/Cache.lean (stale_create_snapshot_after_sync_witness) says it does"})
    finally:
        for s_ in (a._backend, b):
            try:
                s_.scoped_session.remove()
                s_.engine.dispose()
            except Exception:
                pass


def many_unfinished(chk: core.Check, n: int) -> None:
    """Scale scenario: a cached client whose study has `n` (> 999, SQLite's classic bound-variable limit) unfinished
    trials BELOW its finished-trial watermark.  The incremental read then carries a long `included_trial_ids` list (the
    code has a special path for lists the database refuses); every one of those trials must still be refreshed - the
    oldest and the newest of them are changed by another client and must be seen, ordered by number."""
    import optuna
    from optuna.storages import RDBStorage, _CachedStorage
    from optuna.study import StudyDirection
    from optuna.trial import TrialState

    url = fresh_sqlite_url(chk.tmp)
    raw = RDBStorage(url)
    cached = _CachedStorage(RDBStorage(url))
    _no_fsync(raw)
    sa = raw.create_new_study([StudyDirection.MINIMIZE], "A")
    sb = raw.create_new_study([StudyDirection.MINIMIZE], "B")
    ids = []
    for i in range(n):
        ids.append(raw.create_new_trial(sa))
        if i % 50 == 0:
            raw.create_new_trial(sb)  # the two studies share the id space
    last = raw.create_new_trial(sa)
    raw.set_trial_state_values(last, TrialState.COMPLETE, [1.0])  # a later trial finishes first: the watermark passes all of them
    first_view = cached.get_all_trials(sa, deepcopy=False)
    if [t.number for t in first_view] != list(range(n + 1)):
        chk.violation({"kind": "stale-or-misordered", "scenario": "many-unfinished"}, {"n": n}, "cached client: first read of %d trials is not ordered 0..%d" % (n + 1, n))
        return
    changed = {ids[0]: TrialState.COMPLETE, ids[1]: TrialState.FAIL, ids[n // 2]: TrialState.PRUNED, ids[-1]: TrialState.COMPLETE}
    for tid, st in changed.items():
        raw.set_trial_state_values(tid, st, [0.5] if st == TrialState.COMPLETE else None)
    raw.set_trial_user_attr(ids[2], "k", "v")
    for states in (None, (TrialState.COMPLETE,), (TrialState.RUNNING,)):
        got = cached.get_all_trials(sa, deepcopy=False, states=states)
        want = raw.get_all_trials(sa, deepcopy=False, states=states)
        g = [(t.number, t.state.name, t.values, dict(t.user_attrs)) for t in got]
        w = [(t.number, t.state.name, t.values, dict(t.user_attrs)) for t in want]
        chk.case({"part": "many-unfinished", "n": n, "states": None if states is None else [int(x.value) for x in states]}, nontrivial=True)
        chk.count("many-unfinished")
        if g != w:
            diff = [(a, b) for a, b in zip(g, w) if a != b][:3]
            chk.violation({"kind": "stale-or-misordered", "scenario": "many-unfinished"}, {"n": n, "first_differences": [[list(map(str, a)), list(map(str, b))] for a, b in diff]},
                          "cached client with %d unfinished trials below its watermark: get_all_trials(states=%s) differs from the database at that moment: cache %s / database %s" % (
                              n, states, diff[0][0] if diff else len(g), diff[0][1] if diff else len(w)))
            return


def search(chk: core.Check) -> None:
    chk.search_log.append("searching more and longer multi-client histories for a read that differs from the database")
    explore(chk, 200, (25, 70))


def pickled_client(chk: core.Check) -> None:
    """A cached client that has synced finished trials is pickled / deep-copied (what multiprocessing, joblib or a user's
    copy.deepcopy(study) do) and the copy is used as a client of the same database: every answer of the copy must equal
    the database's, in particular the trials that were finished and synced BEFORE the copy was taken (a copy that drops the
    cached trials but keeps the finished-trial watermark never fetches them again).  Also through a gRPC proxy."""
    import copy as _copy
    import pickle

    from optuna.storages import RDBStorage, _CachedStorage
    from optuna.study import StudyDirection
    from optuna.trial import TrialState

    url = fresh_sqlite_url(chk.tmp)
    raw = RDBStorage(url)
    cached = _CachedStorage(RDBStorage(url))
    sid = cached.create_new_study([StudyDirection.MINIMIZE], "pk")
    tids = [cached.create_new_trial(sid) for _ in range(4)]
    for i, t in enumerate(tids[:3]):
        cached.set_trial_state_values(t, TrialState.COMPLETE if i != 1 else TrialState.FAIL, [float(i)] if i != 1 else None)
    cached.get_all_trials(sid)                      # sync: three finished trials are cached, the watermark is past them
    clones = {"pickle": pickle.loads(pickle.dumps(cached)), "deepcopy": _copy.deepcopy(cached)}
    raw.set_trial_state_values(tids[3], TrialState.COMPLETE, [9.0])   # and something changes afterwards
    t_new = raw.create_new_trial(sid)

    def key(ts: list[Any]) -> list[Any]:
        return [(t.number, int(t.state), t.values) for t in ts]

    want = key(raw.get_all_trials(sid))
    for how, c in clones.items():
        chk.case({"part": "pickled-client", "how": how}, nontrivial=True)
        chk.count("pickled-client:" + how)
        try:
            got = key(c.get_all_trials(sid))
            got_done = key(c.get_all_trials(sid, states=(TrialState.COMPLETE, TrialState.FAIL)))
            one = c.get_trial(tids[0]).number
        except Exception as e:  # noqa: BLE001
            chk.violation({"kind": "pickled-client", "how": how}, {"part": "pickled-client", "how": how, "error": repr(e)[:200]},
                          "a %s copy of a synced _CachedStorage cannot answer: %r" % (how, e))
            return
        want_done = [k for k in want if k[1] in (int(TrialState.COMPLETE), int(TrialState.FAIL))]
        if got != want or got_done != want_done or one != 0:
            chk.violation({"kind": "pickled-client", "how": how}, {"part": "pickled-client", "how": how, "got": got, "want": want},
                          "a %s copy of a _CachedStorage that had synced 3 finished trials answers get_all_trials with %s (finished only: %s), the database holds %s" % (
                              how, got, got_done, want))
            return
    _ = t_new


def main(chk: core.Check) -> int:
    chk.rule = RULE
    c08_gen.regenerate(chk)   # T-cache: the method bodies as statement IR (Generated/CacheMethods.lean)
    if not getattr(chk, "no_prove", False):
        chk.prove(["OptunaVerif.Props.C08", c08_gen.MODULE])
        c08_gen.explain_proof_failure(chk)
    quick = chk.tier == "quick"
    try:
        core.ensure_driver()
        c08_gen.differential(chk, 300 if quick else 6000)
        replay_witnesses(chk)
        thread_race_witness(chk)
        explore(chk, 300 if quick else 4000, (10, 40) if quick else (10, 110))
        many_unfinished(chk, 1100 if quick else 33500)  # beyond 999 / 32766 bound variables
        pickled_client(chk)
    except core.DriverBroken as e:
        chk.broke("correspondence", {"driver": str(e)[:800]})
    chk.assumptions += [
        "SQLite stands for every RDB dialect (ids grow; the one exception, reuse after deleting the newest rows, is F12)",
        "one call of one client is atomic w.r.t. the others (the harness is single-threaded; thread interleavings inside one client are covered only at lock granularity by the model: every critical section keeps the invariant)",
        "studies are created with explicit names; get_best_trial is not issued through a proxy",
        "U1 (template/param distribution conflicts) accepted either way as in C01",
    ]
    chk.trusted += ["gRPC transport and protobuf encoding of trials between GrpcStorageProxy and the servicer (exercised, not modelled)"]
    return chk.finish(search=search)


def replay(chk: core.Check, path: str) -> int:
    w = json.load(open(path))["witness"]
    if "ops" not in w and "n" in w:
        many_unfinished(chk, int(w["n"]))
        if chk.violations:
            print("REPRODUCED: %s" % chk.violations[0].get("message", "many-unfinished scenario"))
            return 1
        print("not reproduced")
        return 0
    core.ensure_driver()
    drv = core.Driver(c08_gen.DRIVER)
    try:
        res = run_case(w["base"], w["kinds"], 0, 0, drv, chk.tmp, [], ops=w["ops"])
    finally:
        drv.close()
    if not res["ok"]:
        print("REPRODUCED (%s) %s: %s" % (res["kind"], json.dumps(res["signature"]), res["why"][:800]))
        return 1
    print("not reproduced")
    return 0
