"""C08, translator tie: the two client-side trial caches as written in the source today -> Lean data -> proved equal to the
hand model (Model/Cache.lean).

regenerate(chk)   run verif/translators/tcache.py on core.REPO, write lean/OptunaVerif/Generated/CacheMethods.lean (only when
                  the text changed), record what was read in chk.translated / chk.extra, and report every untranslatable
                  method as chk.broke("translation", ...).  Call it BEFORE chk.prove([..., MODULE]).
MODULE            the Props module with the `interp generated = hand model` equalities and the restated theorems.
DRIVER            sub-driver that speaks the protocol of `cache` and runs the interpreter of the generated bodies side by side
                  with the hand model (field "gen" of every call / filter answer).
gen_disagreement(resp)  -> None | {"what": ..., "generated": ..., "hand": ...}
explain_proof_failure(chk)  after a failed chk.prove: names the declarations of Props/C08Gen.lean that no longer check.
differential(chk, n)    seeded synthetic multi-client histories (no real storage involved) run by both through that driver.
"""
from __future__ import annotations

import os
import re
from typing import Any

from verif import core
from verif.translators import tcache

OUT = os.path.join(core.LEAN_DIR, "OptunaVerif", "Generated", "CacheMethods.lean")
MODULE = "OptunaVerif.Props.C08Gen"
DRIVER = "cachegen"
ASSUMPTION = ("T-cache: holding `self._lock` makes a critical section atomic; `copy.deepcopy` of the returned list and the "
              "protobuf round trip of a trial (`_to_proto_trial` / `_from_proto_trial`) are the identity on what the model keeps of "
              "a trial; the servicer answers NOT_FOUND exactly for KeyError (T-grpc, C01); the heartbeat pass-throughs of "
              "_CachedStorage involve no contract state")


def regenerate(chk: core.Check | None = None) -> dict[str, Any] | None:
    try:
        text, info, problems = tcache.translate(core.REPO)
    except (tcache.Untranslatable, SyntaxError, OSError) as e:
        if chk is None:
            raise
        chk.broke("translation", {"translator": "T-cache", "why": str(e)[:600]})
        return None
    changed = core.write_if_changed(OUT, text)
    if chk is not None:
        ms = info["methods"]
        n_ok = sum(1 for v in ms.values() if v is not None)
        line = "CacheMethods: %d/%d method bodies of _CachedStorage / RDBStorage._get_trials / GrpcClientCache / GrpcStorageProxy / servicer GetTrials as statement IR (%d statements)%s" % (
            n_ok, len(ms), sum(v or 0 for v in ms.values()), " (file changed)" if changed else "")
        if line not in chk.translated:
            chk.translated.append(line)
        chk.extra["cache_ir"] = {"statements": ms}
        for p in problems:
            chk.broke("translation", dict(p, translator="T-cache"))
        if ASSUMPTION not in chk.assumptions:
            chk.assumptions.append(ASSUMPTION)
    return info


def explain_proof_failure(chk: core.Check, module: str = MODULE) -> list[str]:
    pr = chk.proof
    if pr is None or pr.ok:
        return []
    rel = module.replace(".", "/") + ".lean"
    base = re.escape(rel.split("OptunaVerif/", 1)[1])
    lines = sorted({int(m.group(1)) for m in re.finditer(base + r":(\d+):\d+: error", pr.build_log)}
                   | {int(m.group(1)) for m in re.finditer(r"error: \S*" + base + r":(\d+):", pr.build_log)})
    if not lines:
        return []
    src = open(os.path.join(core.LEAN_DIR, rel)).read().splitlines()
    names: list[str] = []
    for ln in lines:
        name = None
        for i in range(min(ln, len(src)) - 1, -1, -1):
            m = re.match(r"\s*(?:theorem|def|example|lemma)\b\s*([^\s:(]*)", src[i])
            if m:
                name = m.group(1) or ("example at line %d: %s" % (i + 1, src[i].strip()[:90]))
                break
        if name and name not in names:
            names.append(name)
    chk.extra[module.split(".")[-1] + "_failed"] = names
    chk.broke("proof", {"module": module, "generated_bodies_no_longer_equal_hand_model": names})
    return names


def gen_disagreement(resp: Any) -> Any:
    if isinstance(resp, dict):
        return resp.get("gen")
    return None


# ---- differential on synthetic histories ------------------------------------------------------------------------------
def _tmpl(r: Any) -> Any:
    if r.random() < 0.55:
        return None
    st = r.choice([0, 1, 2, 3, 4, 4])
    return {"state": st, "values": ["1/2"] if st == 1 else None, "params": [], "user": [], "system": [], "inter": [],
            "start": st != 4, "complete": st in (1, 2, 3)}


def synthetic_history(r: Any) -> tuple[list[dict[str, Any]], list[dict[str, Any]]]:
    n_cached = r.choice([1, 1, 2])
    kinds: list[dict[str, Any]] = [{"kind": "cached"} for _ in range(n_cached)]
    for _ in range(r.choice([0, 1, 2])):
        kinds.append({"kind": "proxy", "server": r.choice([None] + list(range(n_cached)))})
    if r.random() < 0.5:
        kinds.append({"kind": "raw"})
    ops: list[dict[str, Any]] = []
    ns = nt = 0
    for _ in range(r.randint(8, 45)):
        node = r.randrange(len(kinds))
        k = r.random()
        sid = r.randrange(ns + (r.random() < 0.1)) if ns else 0
        tid = r.randrange(nt + (r.random() < 0.1)) if nt else 0
        if ns == 0 or k < 0.06:
            op: dict[str, Any] = {"op": "createStudy", "name": "s%d" % ns, "dirs": [r.choice([1, 2])]}
            ns += 1
        elif k < 0.30:
            op = {"op": "createTrial", "sid": sid, "tmpl": _tmpl(r), "implRaised": False}
            nt += 1
        elif k < 0.50:
            st = r.choice([0, 1, 1, 2, 3, 4])
            op = {"op": "setTrialStateValues", "tid": tid, "state": st, "values": ["3/1"] if st == 1 else None}
        elif k < 0.54:
            op = {"op": "deleteStudy", "sid": sid}
        elif k < 0.74:
            op = {"op": "getAllTrials", "sid": sid, "states": r.choice([None, None, [1], [0, 4], [1, 2, 3], []])}
        elif k < 0.82:
            op = {"op": "getTrial", "tid": tid}
        elif k < 0.86:
            op = {"op": "getTrialIdFromNumber", "sid": sid, "number": r.randrange(4)}
        elif k < 0.90:
            op = {"op": r.choice(["getStudyNameFromId", "getStudyDirections"]), "sid": sid}
        elif k < 0.93:
            op = {"op": "getNTrials", "sid": sid, "states": r.choice([None, [1]])}
        elif k < 0.96:
            op = {"op": r.choice(["getTrialNumberFromId"]), "tid": tid}
        elif k < 0.98:
            op = {"op": "setTrialUserAttr", "tid": tid, "k": "a", "v": "1"}
        else:
            op = {"cmd": "filter", "which": r.choice(["rdb", "servicer"]), "sid": sid,
                  "inc": sorted(r.sample(range(max(nt, 1) + 1), r.randint(0, min(3, max(nt, 1))))), "w": r.randrange(-1, max(nt, 1) + 1),
                  "tooMany": r.random() < 0.5}
            ops.append(op)
            continue
        ops.append({"cmd": "call", "node": node, "op": op, "tooMany": r.random() < 0.3})
    return kinds, ops


def differential(chk: core.Check, n: int) -> None:
    """generated interpreter vs hand model on seeded synthetic histories of cached / proxied / raw clients"""
    drv = core.Driver(DRIVER)
    try:
        for _ in range(n):
            kinds, ops = synthetic_history(chk.rng)
            drv.ask({"cmd": "reset", "nodes": kinds})
            for q in ops:
                resp = drv.ask(q)
                if not isinstance(resp, dict) or "gen" not in resp:
                    raise core.DriverBroken("driver %s rejected %s: %s" % (DRIVER, q, resp))
                chk.count("gen-differential:" + (q["op"]["op"] if q["cmd"] == "call" else "filter:" + q["which"]))
                if resp["gen"] is not None:
                    chk.broke("correspondence", {"what": "interpreter of the generated method bodies differs from the hand model (Model/Cache.lean)",
                                                 "first": resp["gen"], "input": q, "nodes": kinds, "history": ops[: ops.index(q) + 1][-30:]})
                    return
            chk.count("gen-differential:histories")
    finally:
        drv.close()
