"""C09 — optimisation is reproducible from the seed and independent of the storage.

regenerate: T-ga (verif/translators/tga.py via verif/props/c09_gen.py): BaseGASampler.get_trial_generation / get_population /
            get_parent_population, NSGAIISampler.select_parent / sample_relative and the cache sites of NSGA-III as statement IR ->
            lean/OptunaVerif/Generated/GaMethods.lean; Props/C09Gen.lean proves the interpreter equal to Model/GACache.lean for all inputs
            and restates the cache theorems (round trip iff ids are indices = F7, generations / populations id-independent)
            T-sites inventory of every `_trial_id` use in samplers / pruners + the reseed flag of the
            sequential optimize path -> lean/OptunaVerif/Generated/TrialIdSites.lean
prove:      Props/C09.lean (loop_storage_independent, loop_refines_erased, split_irrelevant, GA cache
            round trip / F7 for every offset, copy_preserves_fields, sites_allowed)
correspond: (K1) the Lean loop model, fed with the values the real sampler produced and the answers
            the real pruner gave, must rebuild the real study's history (states, values,
            intermediate values, parameters) -- on the contract model at an id offset and on the
            canonical id-free storage; (K2) the GA cache model vs `get_parent_population` on real
            storages.
observe:    the differential matrix sampler x pruner x storage configuration x id shift x split;
            every run of a cell must give the history of the cell's reference run (in-memory, no
            shift, one optimize call); a second reference run must reproduce the first; copy_study to
            other backends must reproduce every field.
A difference is attributed before it is reported: the GA parent-cache defect (F7) and the gRPC
key-order defect each have a harness-side repair; a difference that the repair removes is reported
under that defect's signature, anything else as `irreproducible`.
"""
from __future__ import annotations

import json
import os
import random
import time
from typing import Any

from verif import core, fleet
from verif.props import c09_gen
from verif.translators import trial_id_sites

RULE = (
    "cells = (sampler configuration, pruner configuration, define-by-run objective program with conditional branches / "
    "reports / should_prune / failures / NaN returns, directions, n_trials), generated from the seed so that every sampler "
    "and every pruner occurs; each cell is run on the in-memory reference twice and on storage variants "
    "(fleet configuration x pre-existing studies/trials that shift ids x interleaved foreign trials x 1-3 optimize calls); "
    "a case = (cell, variant); non-trivial = the reference history has >= 2 distinct trial states or >= 1 conditional "
    "parameter, and >= 6 trials; distinct by SHA-1 of (cell, variant)"
)

F7_SIG = {"kind": "ga-parent-cache-ids-as-indices"}


# ------------------------------------------------------------------------------------------------
# cell generation
# ------------------------------------------------------------------------------------------------

def gen_cell(r: random.Random, idx: int, sk: str, pk: str) -> dict[str, Any]:
    from verif import repro_k as K

    finite = sk in ("grid", "brute")
    mo_ok = pk == "nop" and sk in ("nsgaii", "nsgaiii", "tpe", "tpe-mv", "random")
    n_obj = 2 if (mo_ok and r.random() < 0.5) else 1
    prog = K.gen_prog(r, n_obj, finite, reports=(pk != "nop" or r.random() < 0.5), check_prune=(pk != "nop"))
    sampler = K.gen_sampler(r, sk, prog)
    if sk in ("nsgaii", "nsgaiii"):
        n = sampler["population_size"] * r.randint(4, 5) + r.randint(0, 2)
    elif sk == "gp":
        n = 6
    else:
        n = r.randint(12, 20)
    enqueue = []
    if sk not in ("grid", "brute", "partial", "gp") and r.random() < 0.35:
        # trials queued before the run (Study.enqueue_trial): `ask` must claim them first, on every backend
        name = prog["top"][0]
        d = prog["dists"][name]
        for _ in range(r.randint(1, 2)):
            if d[0] == "cat":
                val: Any = r.choice(d[1])
            elif d[0] == "int":
                val = d[1] + d[4] * r.randint(0, 1)
            else:
                val = d[1] if d[3] or not d[4] else d[1] + d[4]
            enqueue.append({name: val})
    return {"idx": idx, "sk": sk, "pk": pk, "name": "c09_%d" % idx, "sampler": sampler, "pruner": K.gen_pruner(r, pk),
            "prog": prog, "directions": [r.choice(["minimize", "maximize"]) for _ in range(n_obj)], "n": n, "enqueue": enqueue}


def gen_split(r: random.Random, n: int, k: int) -> list[int]:
    if k <= 1 or n < k:
        return [n]
    cuts = sorted(r.sample(range(1, n), k - 1))
    return [b - a for a, b in zip([0] + cuts, cuts + [n])]


def gen_shift(r: random.Random, force: bool) -> dict[str, Any]:
    if not force and r.random() < 0.3:
        return {}
    return {"studies": r.randint(1, 3), "trials": r.randint(1, 6), "interleave": r.random() < 0.5}


def plan(r: random.Random, tier: str) -> list[dict[str, Any]]:
    from verif import repro_k as K

    cells: list[dict[str, Any]] = []
    cfgs = fleet.QUICK if tier == "quick" else fleet.THOROUGH
    if tier == "quick":
        kinds = [k for k in K.SAMPLERS if k != "gp"]
        order = kinds + kinds + kinds
        r.shuffle(order)
        off = r.randrange(len(K.PRUNERS))
        pairs = [(sk, K.PRUNERS[(i + off) % len(K.PRUNERS)]) for i, sk in enumerate(order)]
        pairs.append(("gp", "nop"))
    else:
        pairs = [(sk, pk) for sk in K.SAMPLERS for pk in K.PRUNERS if sk != "gp" or pk in ("nop", "median")]
    ci = r.randrange(len(cfgs))
    for i, (sk, pk) in enumerate(pairs):
        cell = gen_cell(r, i, sk, pk)
        n = cell["n"]
        variants = []
        if tier == "quick":
            c1 = cfgs[ci % len(cfgs)]
            c2 = cfgs[(ci + 1) % len(cfgs)]
            ci += 2
            if sk == "gp":
                variants = [{"cfg": r.choice(["rdb", "journal-symlink"]), "shift": gen_shift(r, True), "split": gen_split(r, n, 2)}]
            else:
                variants = [{"cfg": c1, "shift": gen_shift(r, True), "split": [n]},
                            {"cfg": c2, "shift": gen_shift(r, False), "split": gen_split(r, n, r.choice([2, 3]))}]
            cell["copy_from"] = 0
            cell["copy_to"] = [cfgs[(ci + 3) % len(cfgs)], cfgs[(ci + 5) % len(cfgs)]] if sk != "gp" else []
        else:
            for c in cfgs:
                variants.append({"cfg": c, "shift": gen_shift(r, True), "split": gen_split(r, n, r.choice([1, 2]))})
            for c in r.sample(cfgs, 6):
                variants.append({"cfg": c, "shift": gen_shift(r, False), "split": gen_split(r, n, r.choice([2, 3]))})
            if sk == "gp":
                variants = r.sample(variants, 4)
            cell["copy_from"] = r.randrange(len(variants))
            cell["copy_to"] = [c for c in cfgs if c != variants[cell["copy_from"]]["cfg"]] if sk != "gp" else []
        cell["variants"] = variants
        if sk != "gp":
            cell["hash_seeds"] = [1 + i % 7, 101] if tier == "quick" else [1 + i % 7, 11 + i % 5, 101]
        cells.append(cell)
    return cells


# ------------------------------------------------------------------------------------------------
# worker: everything about one cell
# ------------------------------------------------------------------------------------------------

_DRV: Any = None


def _driver() -> Any:
    global _DRV
    if _DRV is None:
        _DRV = core.Driver("repro")
    return _DRV


def spec_of(cell: dict[str, Any], cfg: str, shift: dict[str, Any], split: list[int], **kw: Any) -> dict[str, Any]:
    return dict({"name": cell["name"], "sampler": cell["sampler"], "pruner": cell["pruner"], "prog": cell["prog"],
                 "directions": cell["directions"], "cfg": cfg, "shift": shift, "split": split, "enqueue": cell.get("enqueue") or []}, **kw)


def _prog_for_driver(body: list[Any]) -> list[Any]:
    from optuna.distributions import distribution_to_json
    from verif import repro_k as K

    out = []
    for st in body:
        if st[0] == "suggest":
            d = st[2]
            dist = K.mk_dist(d)
            out.append(["suggest", st[1], {"kind": {"float": 0, "int": 1, "cat": 2}[d[0]], "log": bool(d[3]) if d[0] != "cat" else False,
                                           "body": distribution_to_json(dist)}])
        elif st[0] == "if":
            out.append(["if", st[1], _prog_for_driver(st[2]), _prog_for_driver(st[3])])
        else:
            out.append(st)
    return out


STATE_NAMES = {0: "RUNNING", 1: "COMPLETE", 2: "PRUNED", 3: "FAIL", 4: "WAITING"}


def model_check(cell: dict[str, Any], ref: dict[str, Any], split: list[int], pre: tuple[int, int]) -> dict[str, Any] | None:
    """K1: the Lean loop model with the replay sampler/pruner must rebuild the real history."""
    hist = ref["hist"]
    oracle = [{"params": [[n, v] for n, v in t["params"].items()], "prunes": ref["prunes"][i]} for i, t in enumerate(hist)]
    req = {"op": "run", "name": cell["name"], "dirs": [1 if d == "minimize" else 2 for d in cell["directions"]],
           "prog": _prog_for_driver(cell["prog"]["body"]), "calls": split, "ir": False,
           "pre_studies": pre[0], "pre_trials": pre[1], "pre_waiting": len(cell.get("enqueue") or []), "oracle": oracle}
    resp = _driver().ask(req)
    if "view" not in resp:
        return {"why": "driver rejected the program: %s" % json.dumps(resp)[:300]}
    if not resp["spec_equals_view"] or not resp["split_equals_single"]:
        return {"why": "model run disagrees with itself (spec vs id-free storage / split vs single): %s" % json.dumps(
            {k: resp[k] for k in ("spec_equals_view", "split_equals_single")})}
    mv = resp["view"]
    if len(mv) != len(hist):
        return {"why": "model ran %d trials, implementation %d" % (len(mv), len(hist))}
    for i, (m, t) in enumerate(zip(mv, hist)):
        real = {"number": t["number"], "state": t["state"], "values": t["values"], "params": t["params"], "dists": t["dists"], "inter": t["inter"]}
        mod = {"number": m["number"], "state": STATE_NAMES[m["state"]], "values": m["values"], "params": m["params"], "dists": m["dists"], "inter": m["inter"]}
        if real != mod:
            return {"why": "trial %d: model %s / implementation %s" % (i, json.dumps(mod, sort_keys=True)[:500], json.dumps(real, sort_keys=True)[:500]),
                    "trial": i, "fields": [k for k in real if real[k] != mod[k]]}
    return None


def _canon_attr(x: Any) -> Any:
    from verif import repro_k as K

    def fix(o: Any) -> Any:
        if isinstance(o, float):
            return {"f": K.tok(o)}
        if isinstance(o, (list, tuple)):
            return [fix(v) for v in o]
        if isinstance(o, dict):
            return {str(k): fix(v) for k, v in sorted(o.items(), key=lambda kv: str(kv[0]))}
        return o

    return fix(x)


def full_trial(t: Any) -> dict[str, Any]:
    from optuna.distributions import distribution_to_json
    from verif import repro_k as K

    return {
        "number": t.number, "state": t.state.name,
        "values": None if t.values is None else [K.tok(v) for v in t.values],
        "params": {n: [type(v).__name__, K.tok(t.distributions[n].to_internal_repr(v))] for n, v in t.params.items()},
        "distributions": {n: distribution_to_json(d) for n, d in t.distributions.items()},
        "user_attrs": _canon_attr(t.user_attrs), "system_attrs": _canon_attr(t.system_attrs),
        "intermediate_values": {str(s): K.tok(v) for s, v in t.intermediate_values.items()},
        "datetime_start": None if t.datetime_start is None else t.datetime_start.isoformat(),
        "datetime_complete": None if t.datetime_complete is None else t.datetime_complete.isoformat(),
    }


def copy_check(cell: dict[str, Any], src: dict[str, Any], src_cfg: str, targets: list[str], tmp: str) -> list[dict[str, Any]]:
    """copy_study from the kept source to fresh target backends; every field of every trial and the
    study's directions / attributes must be equal."""
    import optuna

    out = []
    study = src["study"]
    study.set_user_attr("note", {"k": [1, 2.5, "x"]})
    want_trials = [full_trial(t) for t in study.get_trials(deepcopy=False)]
    want_study = {"directions": [d.name for d in study.directions], "user_attrs": _canon_attr(study.user_attrs),
                  "system_attrs": _canon_attr(study._storage.get_study_system_attrs(study._study_id))}
    for cfg in targets:
        h = fleet.make(cfg, tmp)
        try:
            from verif import repro_k as K

            K.prepopulate(h.storage, {"studies": 1, "trials": 2})
            try:
                optuna.copy_study(from_study_name=study.study_name, from_storage=study._storage, to_storage=h.storage, to_study_name="copied")
                got = optuna.load_study(study_name="copied", storage=h.storage)
                got_trials = [full_trial(t) for t in got.get_trials(deepcopy=False)]
                got_study = {"directions": [d.name for d in got.directions], "user_attrs": _canon_attr(got.user_attrs),
                             "system_attrs": _canon_attr(got._storage.get_study_system_attrs(got._study_id))}
            except Exception as e:  # noqa: BLE001
                out.append({"to": cfg, "from": src_cfg, "field": "exception", "detail": "%s: %s" % (type(e).__name__, str(e)[:200])})
                continue
            bad = None
            if got_study != want_study:
                f = [k for k in want_study if want_study[k] != got_study[k]][0]
                bad = {"field": "study." + f, "want": want_study[f], "got": got_study[f]}
            elif len(got_trials) != len(want_trials):
                bad = {"field": "n_trials", "want": len(want_trials), "got": len(got_trials)}
            else:
                for i, (a, b) in enumerate(zip(want_trials, got_trials)):
                    if a != b:
                        f = [k for k in a if a[k] != b[k]][0]
                        bad = {"field": f, "trial": i, "want": a[f], "got": b[f]}
                        break
            out.append(dict({"to": cfg, "from": src_cfg}, **(bad or {"field": None})))
        finally:
            h.close()
    return out


def run_in_subprocess(spec: dict[str, Any], tmp: str, hash_seed: int) -> dict[str, Any]:
    import subprocess
    import sys

    env = dict(os.environ, PYTHONHASHSEED=str(hash_seed))
    env["PYTHONPATH"] = os.pathsep.join([core.ROOT] + ([env["PYTHONPATH"]] if env.get("PYTHONPATH") else []))
    p = subprocess.run([sys.executable, "-m", "verif.repro_sub"], input=json.dumps({"spec": spec, "tmp": tmp}), capture_output=True,
                       text=True, timeout=600, env=env, cwd=core.ROOT)
    for line in p.stdout.splitlines():
        if line.startswith("RESULT "):
            return json.loads(line[7:])
    raise RuntimeError("no result (exit %s): %s" % (p.returncode, p.stderr[-300:]))


def run_cell(args: tuple[dict[str, Any], str, bool]) -> dict[str, Any]:
    """Everything about one cell, in a worker process.  Returns counters, cases and findings."""
    cell, tmp, do_model = args
    from verif import repro_k as K

    t0 = time.time()
    res: dict[str, Any] = {"idx": cell["idx"], "sk": cell["sk"], "pk": cell["pk"], "cases": [], "findings": [], "broke": [], "counts": {}}

    def count(k: str, n: int = 1) -> None:
        res["counts"][k] = res["counts"].get(k, 0) + n

    n = cell["n"]
    try:
        ref = K.run_one(spec_of(cell, "mem", {}, [n]), tmp)
        rep = K.run_one(spec_of(cell, "mem", {}, [n]), tmp)
    except Exception as e:  # noqa: BLE001
        res["broke"].append({"what": "harness", "detail": "reference run raised %s: %s" % (type(e).__name__, str(e)[:300])})
        return res
    hist = ref["hist"]
    states = {t["state"] for t in hist}
    cond = len({tuple(sorted(t["params"])) for t in hist}) > 1
    nontrivial = len(hist) >= 6 and (len(states) >= 2 or cond)
    for s in states:
        count("state:" + s, sum(1 for t in hist if t["state"] == s))
    if cond:
        count("cells-with-conditional-space")
    if cell.get("enqueue"):
        count("cells-with-enqueued-trials")
    if ref["crash"]:
        count("reference-crash:" + ref["crash"]["type"])
    stopped = len(hist) < n and not ref["crash"]
    if stopped:
        count("sampler-stopped-early")

    def report(kind_sig: dict[str, Any], variant: dict[str, Any], diff: Any, msg: str) -> None:
        res["findings"].append({"signature": dict(kind_sig, sampler=cell["sk"], pruner=cell["pk"], storage=variant.get("cfg")),
                                "witness": {"cell": {k: cell[k] for k in ("name", "sampler", "pruner", "prog", "directions", "n", "sk", "pk", "idx", "enqueue")},
                                            "variant": variant, "diff": diff}, "message": msg})

    # reproducible from the seed
    d = K.first_diff(hist, rep["hist"])
    res["cases"].append({"case": {"cell": cell["idx"], "sampler": cell["sampler"], "pruner": cell["pruner"], "variant": "repeat"}, "nontrivial": nontrivial})
    if d is not None or (ref["crash"] or {}).get("type") != (rep["crash"] or {}).get("type"):
        report({"kind": "irreproducible", "how": "repeat"}, {"cfg": "mem", "shift": {}, "split": [n], "repeat": True}, d,
               "%s/%s: two runs with the same seed on fresh in-memory storages differ at trial %s (%s)" % (
                   cell["sk"], cell["pk"], d and d["trial"], d and d["fields"]))

    # reproducible in another interpreter: a fresh process with its own string-hash seed (set / dict iteration
    # order of parameter names must not steer the seeded RNG)
    for hs in cell.get("hash_seeds", []):
        try:
            oth = run_in_subprocess(spec_of(cell, "mem", {}, [n]), tmp, hs)
        except Exception as e:  # noqa: BLE001
            res["broke"].append({"what": "harness", "detail": "subprocess run raised %s: %s" % (type(e).__name__, str(e)[:300])})
            continue
        count("runs-in-fresh-interpreter")
        res["cases"].append({"case": {"cell": cell["idx"], "sampler": cell["sampler"], "pruner": cell["pruner"], "variant": "hashseed-%d" % hs}, "nontrivial": nontrivial})
        d = K.first_diff(json.loads(json.dumps(hist)), oth["hist"])
        if d is not None or (ref["crash"] or {}).get("type") != (oth["crash"] or {}).get("type"):
            report({"kind": "irreproducible", "how": "other-process"}, {"cfg": "mem", "shift": {}, "split": [n], "hash_seed": hs}, d,
                   "%s/%s: a run in a fresh interpreter with PYTHONHASHSEED=%d differs from this process's run with the same seed at trial %s (%s)" % (
                       cell["sk"], cell["pk"], hs, d and d["trial"], d and d["fields"]))

    # K1: loop model vs implementation
    if do_model and not ref["crash"]:
        try:
            # the model has no study.stop(): replay exactly the trials that ran
            bad = model_check(cell, ref, [len(hist)] if stopped else [n], (2, 3))
            count("model-runs")
            if bad is not None:
                res["broke"].append({"what": "correspondence", "detail": dict(bad, cell=cell["idx"], sampler=cell["sk"], pruner=cell["pk"],
                                                                              prog=cell["prog"]["body"])})
        except core.DriverBroken as e:
            res["broke"].append({"what": "correspondence", "detail": {"driver": str(e)[:400]}})

    kept = None
    for vi, var in enumerate(cell["variants"]):
        var = dict(var)
        if stopped and len(var["split"]) > 1:
            # study.stop() is reset by every optimize call: a sampler that stops the study makes a split
            # run longer by design; compare one-call runs only
            var["split"] = [n]
            count("split-variant-folded:stop")
        keep = vi == cell.get("copy_from") and bool(cell.get("copy_to"))
        try:
            o = K.run_one(spec_of(cell, var["cfg"], var["shift"], var["split"], keep=keep), tmp)
        except Exception as e:  # noqa: BLE001
            res["broke"].append({"what": "harness", "detail": "run on %s raised %s: %s" % (var["cfg"], type(e).__name__, str(e)[:300])})
            continue
        count("runs:" + var["cfg"])
        count("split:%d" % len(var["split"]))
        count("shift:" + ("interleaved" if var["shift"].get("interleave") else "yes" if var["shift"] else "no"))
        if o["ids"] != [t["number"] for t in o["hist"]]:
            count("runs-with-ids-differing-from-numbers")
        res["cases"].append({"case": {"cell": cell["idx"], "sampler": cell["sampler"], "pruner": cell["pruner"], "variant": var}, "nontrivial": nontrivial})
        if keep:
            kept = (o, var["cfg"])
        d = K.first_diff(hist, o["hist"])
        same_crash = (ref["crash"] or {}).get("type") == (o["crash"] or {}).get("type")
        if d is None and same_crash:
            if o["ga_events"]:
                count("f7-read-event-without-effect")
            continue
        # ---- attribute the difference -------------------------------------------------------
        attributed = False
        ga = bool(o["ga_events"])
        grpc = var["cfg"].startswith("grpc")
        if ga:
            o2 = K.run_one(spec_of(cell, var["cfg"], var["shift"], var["split"], ga="fix"), tmp)
            if K.first_diff(hist, o2["hist"]) is None and (ref["crash"] or {}).get("type") == (o2["crash"] or {}).get("type"):
                ev = o["ga_events"][0]
                report(dict(F7_SIG, effect=ev["effect"]), var, {"first_difference": d, "cache_read": ev, "trial_ids": o["ids"], "crash": o["crash"]},
                       "NSGA-II on %s: parent cache holds trial ids %s but the read used them as list indices (%s); history differs from the "
                       "in-memory run at trial %s; with the read repaired the histories are equal" % (
                           var["cfg"], ev["cached_ids"], ev.get("read_trial_ids", ev["effect"]), d and d["trial"]))
                attributed = True
        if not attributed and grpc:
            o3 = K.run_one(spec_of(cell, var["cfg"], var["shift"], var["split"], ga="fix" if ga else "spy", wrap="order"), tmp)
            if K.first_diff(hist, o3["hist"]) is None and (ref["crash"] or {}).get("type") == (o3["crash"] or {}).get("type"):
                report({"kind": "grpc-param-order", "sampler_class": cell["sampler"]["k"]}, var, {"first_difference": d, "crash": o["crash"]},
                       "%s through %s: the proxy returns FrozenTrial.params in protobuf-map order instead of suggestion order; history differs "
                       "from the in-memory run at trial %s%s; with the order restored the histories are equal" % (
                           cell["sk"], var["cfg"], d and d["trial"], " (crash %s)" % o["crash"]["type"] if o["crash"] else ""))
                attributed = True
        if not attributed:
            report({"kind": "irreproducible", "how": "storage/shift/split", "fields": ",".join((d or {}).get("fields", []))}, var,
                   {"first_difference": d, "crash": o["crash"], "ref_crash": ref["crash"], "trial_ids": o["ids"]},
                   "%s/%s on %s (shift %s, split %s): history differs from the in-memory single-call run at trial %s, fields %s%s" % (
                       cell["sk"], cell["pk"], var["cfg"], var["shift"], var["split"], d and d["trial"], d and d["fields"],
                       " (crash %s: %s)" % (o["crash"]["type"], o["crash"]["msg"]) if o["crash"] else ""))

    if kept is not None:
        o, cfg = kept
        try:
            for c in copy_check(cell, o, cfg, cell["copy_to"], tmp):
                count("copies")
                if c["field"] is not None:
                    res["findings"].append({"signature": {"kind": "copy-field", "field": c["field"].split(".")[0], "to": c["to"], "from": c["from"]},
                                            "witness": {"cell": {k: cell[k] for k in ("name", "sampler", "pruner", "prog", "directions", "n", "sk", "pk", "idx", "enqueue")},
                                                        "variant": cell["variants"][cell["copy_from"]], "copy": c},
                                            "message": "copy_study %s -> %s does not reproduce field %s%s: source %s / copy %s" % (
                                                c["from"], c["to"], c["field"], " of trial %s" % c["trial"] if "trial" in c else "",
                                                json.dumps(c.get("want"), default=str)[:200], json.dumps(c.get("got", c.get("detail")), default=str)[:200])})
        finally:
            o["handle"].close()
    res["wall"] = round(time.time() - t0, 2)
    return res


# ------------------------------------------------------------------------------------------------
# K2: the GA cache model vs get_parent_population on real storages (also the direct F7 witness)
# ------------------------------------------------------------------------------------------------

def ga_cache_k(chk: core.Check) -> None:
    import optuna
    from optuna.samplers import NSGAIISampler
    from optuna.trial import TrialState, create_trial

    from verif import repro_k as K

    drv = core.Driver("repro")
    try:
        scen = [("mem", {}), ("journal-symlink", {}), ("rdb", {}), ("mem", {"studies": 1, "trials": 5}), ("journal-symlink", {"studies": 2, "trials": 2}),
                ("grpc(mem)", {"studies": 1, "trials": 1})]
        for cfg, shift in scen:
            h = fleet.make(cfg, chk.tmp)
            try:
                K.prepopulate(h.storage, shift)
                sampler = NSGAIISampler(population_size=3, seed=chk.seed + 1)
                study = optuna.create_study(storage=h.storage, sampler=sampler, study_name="ga")
                gen_key = sampler._get_generation_key()
                vals = [5.0, 1.0, 4.0, 0.5, 3.0, 2.0]
                for v in vals:
                    study.add_trial(create_trial(state=TrialState.COMPLETE, value=v, params={"x": v},
                                                 distributions={"x": optuna.distributions.FloatDistribution(0, 10)}, system_attrs={gen_key: 0}))
                trials = study.get_trials(deepcopy=False)
                ids = [t._trial_id for t in trials]
                first = sampler.get_parent_population(study, 1)           # miss: select + write
                stored = h.storage.get_study_system_attrs(study._study_id).get(sampler._get_parent_cache_key_prefix() + "1")
                try:
                    second: Any = [t.number for t in sampler.get_parent_population(study, 1)]   # hit: read
                except IndexError:
                    second = None
                parents = [t.number for t in first]
                m = drv.ask({"op": "gacache", "ids": ids, "parents": parents, "mode": "ids"})
                m2 = drv.ask({"op": "gacache", "ids": ids, "parents": parents, "mode": "numbers"})
                chk.case({"ga-cache": cfg, "shift": shift, "ids": ids, "parents": parents}, nontrivial=True)
                chk.count("ga-cache-k:" + cfg)
                chk.traces_validated += 1
                if list(stored or []) != m["write"] or second != m["read"]:
                    chk.broke("correspondence", {"model": "GACache", "storage": cfg, "shift": shift, "ids": ids, "parents": parents,
                                                 "impl": {"stored": stored, "second_call": second}, "model_out": m})
                if m2["read"] != parents:
                    chk.broke("correspondence", {"model": "GACache(numbers)", "ids": ids, "parents": parents, "model_out": m2})
                if second != parents:
                    chk.violation(dict(F7_SIG, sampler="nsgaii", storage=cfg, effect="IndexError" if second is None else "wrong-parents", direct=True),
                                  {"storage": cfg, "shift": shift, "trial_ids": ids, "selected_parent_numbers": parents, "stored_in_study_attr": stored,
                                   "second_call_returns_numbers": second},
                                  "BaseGASampler.get_parent_population on %s (trial ids %s): first call selects trials %s and caches %s; the second call "
                                  "returns %s" % (cfg, ids, parents, stored, "IndexError" if second is None else "trials %s" % second))
            finally:
                h.close()
    finally:
        drv.close()


# ------------------------------------------------------------------------------------------------
# orchestration
# ------------------------------------------------------------------------------------------------

def _map_cells(jobs: list[Any], nproc: int, ctx: Any, timeout: float) -> list[dict[str, Any]]:
    """pool.map that survives the death of a worker process (a killed worker makes multiprocessing.Pool
    wait for ever): lost cells are re-run in a fresh pool; repeated loss is an infrastructure failure."""
    from concurrent.futures import ProcessPoolExecutor, as_completed
    from concurrent.futures import TimeoutError as FutTimeout
    from concurrent.futures.process import BrokenProcessPool

    pending = list(jobs)
    results: list[dict[str, Any]] = []
    deadline = time.time() + timeout
    for _attempt in range(3):
        if not pending:
            break
        done: set[int] = set()
        ex = ProcessPoolExecutor(max_workers=min(nproc, len(pending)), mp_context=ctx, max_tasks_per_child=8)
        try:
            futs = {ex.submit(run_cell, j): i for i, j in enumerate(pending)}
            try:
                for f in as_completed(futs, timeout=max(1.0, deadline - time.time())):
                    try:
                        results.append(f.result())
                        done.add(futs[f])
                    except BrokenProcessPool:
                        continue
            except FutTimeout:
                raise core.InfraError("differential matrix did not finish within %.0f s" % timeout)
        finally:
            ex.shutdown(wait=False, cancel_futures=True)
        pending = [j for i, j in enumerate(pending) if i not in done]
    if pending:
        raise core.InfraError("worker processes died repeatedly (%d cells lost)" % len(pending))
    return results


def run_matrix(chk: core.Check, cells: list[dict[str, Any]], do_model: bool = True) -> None:
    import multiprocessing as mp

    for c in cells:
        chk.count("cell:%s" % c["sk"])
        chk.count("cell-pruner:%s" % c["pk"])
    jobs = [(c, chk.tmp, do_model) for c in cells]
    # heavy cells first
    jobs.sort(key=lambda j: (j[0]["sk"] != "gp", -len(j[0]["variants"])))
    ctx = mp.get_context("spawn")
    nproc = min(len(jobs), int(os.environ.get("VERIF_PROCS", "12")))
    results = _map_cells(jobs, nproc, ctx, timeout=900 if chk.tier == "quick" else 5400)
    results.sort(key=lambda res: res["idx"])
    walls = []
    for res in results:
        walls.append((res.get("wall", 0), res["sk"], res["pk"]))
        for k, v in res["counts"].items():
            chk.count(k, v)
        for c in res["cases"]:
            chk.case(c["case"], nontrivial=c["nontrivial"])
            chk.traces_validated += 1
        for b in res["broke"]:
            chk.broke(b["what"], b["detail"])
        for f in res["findings"]:
            chk.violation(f["signature"], f["witness"], f["message"])
    chk.extra["slowest_cells"] = sorted(walls, reverse=True)[:5]


def search(chk: core.Check) -> None:
    """Something no longer checks (proof / translation / correspondence) but no concrete failing
    input is known yet: a larger, id-shift-heavy matrix on the real code."""
    from verif import repro_k as K

    r = random.Random(chk.seed * 7919 + 13)
    implicated = set()
    for b in chk.broken:
        t = json.dumps(b, default=str)
        for k, pats in {"tpe": ["_tpe"], "nsgaii": ["nsgaii", "_ga/"], "nsgaiii": ["nsgaiii"], "qmc": ["_qmc"], "grid": ["_grid"],
                        "brute": ["_brute_force"], "random": ["_random"], "partial": ["_partial_fixed"], "gp": ["_gp"]}.items():
            if any(p in t for p in pats):
                implicated.add(k)
    kinds = [k for k in K.SAMPLERS if k != "gp"]
    if implicated:
        kinds = sorted(implicated | {"tpe-mv" if "tpe" in implicated else "random"})
    pruner_hit = any("pruners/" in json.dumps(b, default=str) for b in chk.broken)
    cells = []
    for i in range(3 * len(kinds)):
        sk = kinds[i % len(kinds)]
        pk = r.choice(["hyperband", "sha", "median", "wilcoxon"]) if pruner_hit else r.choice(K.PRUNERS)
        cell = gen_cell(r, 1000 + i, sk, pk)
        n = cell["n"]
        cell["variants"] = [
            {"cfg": "mem", "shift": {"studies": 2, "trials": r.randint(3, 9), "interleave": True}, "split": gen_split(r, n, 3)},
            {"cfg": "rdb", "shift": gen_shift(r, False), "split": gen_split(r, n, 2)},
            {"cfg": "journal-symlink", "shift": gen_shift(r, True), "split": gen_split(r, n, 2)},
            {"cfg": "grpc(mem)", "shift": gen_shift(r, True), "split": [n]},
        ]
        cell["copy_from"] = 1
        cell["copy_to"] = ["mem", "journal-symlink"]
        cells.append(cell)
    # the cells on which the model and the implementation disagreed, on every kind of backend (a broken correspondence
    # on the in-memory reference is often a behaviour that differs between backends)
    planned = {c["idx"]: c for c in getattr(chk, "planned_cells", [])}
    seen_cells = set()
    for b in chk.broken:
        ci = (b.get("detail") or {}).get("cell") if isinstance(b.get("detail"), dict) else None
        if ci in planned and ci not in seen_cells and len(seen_cells) < 6:
            seen_cells.add(ci)
            cell = dict(planned[ci])
            n = cell["n"]
            cell["variants"] = [{"cfg": c, "shift": gen_shift(r, i % 2 == 0), "split": [n]}
                                for i, c in enumerate(["rdb", "journal-symlink", "grpc(mem)", "cached", "grpc(rdb)"]) if c in fleet.THOROUGH]
            cell["copy_to"] = []
            cell["hash_seeds"] = []
            cells.insert(0, cell)
    chk.search_log.append("search: %d cells (%d of them the cells with a broken correspondence, on every backend kind) over samplers %s" % (
        len(cells), len(seen_cells), kinds))
    before = len(chk.violations)
    run_matrix(chk, cells, do_model=False)
    chk.search_log.append("search found %d violation(s)" % (len(chk.violations) - before))


def main(chk: core.Check) -> int:
    chk.rule = RULE
    t = trial_id_sites.regenerate(chk)
    chk.extra["trial_id_sites"] = {"n": len(t["sites"]), "non_storage_arg": [s for s in t["sites"] if s["kind"] != "storageArg"],
                                   "reseed_sampler_rng_sequential": t["reseed"]}
    c09_gen.regenerate(chk)  # T-ga: Generated/GaMethods.lean from _ga/_base.py, nsgaii/_sampler.py, _nsgaiii/_sampler.py
    if not getattr(chk, "no_prove", False):
        chk.prove(["OptunaVerif.Props.C09", c09_gen.MODULE, "OptunaVerif.Props.C13Tpe"])  # + split_sorted_by_number / split_halves_strictly_sorted
        c09_gen.explain_proof_failure(chk)
    try:
        core.ensure_driver()
        ga_cache_k(chk)
        c09_gen.ga_methods_k(chk)  # real BaseGASampler methods on shifted-id studies vs generated interpreter vs hand model
        from verif.props import c13_tpe
        c13_tpe.id_independence(chk, 300 if chk.tier == "quick" else 6000)  # real _split_trials under rewritten _trial_id's
        cells = plan(chk.rng, chk.tier)
        chk.extra["cells"] = len(cells)
        chk.planned_cells = cells  # type: ignore[attr-defined]
        run_matrix(chk, cells)
    except core.DriverBroken as e:
        chk.broke("correspondence", {"driver": str(e)[:800]})
    chk.samples = chk.samples[:4]
    chk.assumptions += [
        "that every concrete sampler/pruner is a function of (its in-process state, the id-erased history) is NOT proved: it is supported by the regenerated "
        "_trial_id site inventory (decided in Lean) and by the differential matrix only (C09 is partial by nature)",
        "SQLite stands for every RDB dialect; fakeredis for Redis; CmaEsSampler is not installed and is covered by the site inventory only",
        "study.stop() is reset by every optimize call, so for cells in which the sampler stops the study (exhausted Grid / BruteForce) only one-call runs are compared",
        "objective programs use exact binary arithmetic; floats are compared exactly (as rationals); attribute payloads after one JSON round trip",
        "the objective catches only its own exception class; an exception raised by sampler / storage code ends the run and is part of the compared observation",
    ]
    chk.trusted.append("T-ga (verif/translators/tga.py): the whitelisted source shapes are mapped to the primitives of Model/GaIR.lean as documented there")
    chk.trusted.append("verif/repro_k.py (program interpreter, canonicaliser, harness-side GA-read / key-order repairs used only to attribute a difference)")
    return chk.finish(search=search)


def replay(chk: core.Check, path: str) -> int:
    from verif import repro_k as K

    doc = json.load(open(path))
    w = doc["witness"]
    if "cell" not in w:
        print("witness is not a matrix cell (direct GA-cache witness): %s" % json.dumps(w)[:600])
        chk2 = core.Check("C09", "quick", 0)
        c09_gen.regenerate(chk2)  # the sub-driver links the methods generated from the tree under test
        core.ensure_driver()
        ga_cache_k(chk2)
        hit = bool(chk2.known_hits or chk2.violations)
        print("REPRODUCED" if hit else "not reproduced")
        return 1 if hit else 0
    cell, var = w["cell"], w["variant"]
    n = cell["n"]
    ref = K.run_one(spec_of(cell, "mem", {}, [n]), chk.tmp)
    if "copy" in w:
        o = K.run_one(spec_of(cell, var["cfg"], var["shift"], var["split"], keep=True), chk.tmp)
        try:
            res = copy_check(cell, o, var["cfg"], [w["copy"]["to"]], chk.tmp)
        finally:
            o["handle"].close()
        bad = [c for c in res if c["field"] is not None]
        print("REPRODUCED copy_study %s -> %s: %s" % (var["cfg"], w["copy"]["to"], json.dumps(bad, default=str)[:600]) if bad else "not reproduced")
        return 1 if bad else 0
    o = K.run_one(spec_of(cell, var["cfg"], var.get("shift") or {}, var["split"]), chk.tmp)
    d = K.first_diff(ref["hist"], o["hist"])
    if d is not None or (ref["crash"] or {}).get("type") != (o["crash"] or {}).get("type"):
        print("REPRODUCED: %s/%s on %s differs from the in-memory reference at trial %s fields %s crash=%s ga_events=%d" % (
            cell["sk"], cell["pk"], var["cfg"], d and d["trial"], d and d["fields"], o["crash"], len(o["ga_events"])))
        return 1
    print("not reproduced")
    return 0
