"""C09, translator tie: the generation / parent-cache methods of the GA samplers as written in the source today -> Lean data -> proved
equal to the hand model (Model/GACache.lean).

regenerate(chk)   run verif/translators/tga.py on core.REPO, write lean/OptunaVerif/Generated/GaMethods.lean (only when the text changed),
                  record what was read, report every untranslatable method as chk.broke("translation", ...).  Call it BEFORE
                  chk.prove([..., MODULE]) and before core.ensure_driver() (the sub-driver `repro` links the generated methods).
explain_proof_failure(chk)   after a failed chk.prove: the NAMES of the obligations of Props/C09Gen.lean that no longer check.
gen_disagreement(resp)       the "gen" field of a `gacache` / `gamethods` answer of the `repro` sub-driver.
ga_methods_k(chk)            K stage: the real BaseGASampler methods (NSGAIISampler) on studies with shifted ids vs the interpreter of the
                             generated methods vs the hand model: generation + attr write, population, parent population (miss, stored
                             attr, hit).
"""
from __future__ import annotations

import os
import re
from typing import Any

from verif import core
from verif.translators import tga

OUT = os.path.join(core.LEAN_DIR, "OptunaVerif", "Generated", "GaMethods.lean")
MODULE = "OptunaVerif.Props.C09Gen"
SHAPE_OF = {"getTrialGeneration_shape": "interp_getTrialGeneration", "getPopulation_shape": "interp_getPopulation",
            "getParentPopulation_shape": "interp_getParentPopulation", "selectParent_shape": "interp_nsga2Parents",
            "sampleRelative_shape": "interp_sampleRelative"}

ASSUMPTIONS = [
    "T-ga: a trial is (_trial_id, number, generation attribute, state); study._get_trials(deepcopy=False[, states]) is the study's trial list "
    "ordered by number (filtered by state); the study system attributes are a map cache key -> list of ints (key = prefix + str(generation), "
    "injective in the generation); the elite-selection and child-generation strategies are parameters; NSGA-III is read at the level of its "
    "cache READ / WRITE / lookup / gate statements",
]


def regenerate(chk: "core.Check | None" = None) -> "dict[str, Any] | None":
    try:
        text, info, problems = tga.translate(core.REPO)
    except (tga.Untranslatable, SyntaxError, OSError) as e:
        if chk is None:
            raise
        chk.broke("translation", {"translator": "T-ga", "why": str(e)[:600]})
        return None
    changed = core.write_if_changed(OUT, text)
    if chk is not None:
        ms = info["methods"]
        chk.translated.append("GaMethods.lean: %d/%d methods as statement IR; NSGA-III cache sites %s%s" % (
            sum(1 for v in ms.values() if v is not None), len(ms), info["nsga3"], " (file changed)" if changed else ""))
        chk.extra["ga_ir"] = {"nodes": ms, "nsga3": info["nsga3"]}
        for p in problems:
            chk.broke("translation", dict(p, translator="T-ga"))
        for a in ASSUMPTIONS:
            if a not in chk.assumptions:
                chk.assumptions.append(a)
    return info


def explain_proof_failure(chk: core.Check) -> list[str]:
    """after chk.prove([..., MODULE]) failed: name the declarations of Props/C09Gen.lean whose proof no longer checks
    (the build log only has line numbers); recorded in chk.extra["c09gen_failed"]"""
    pr = chk.proof
    if pr is None or pr.ok:
        return []
    lines = sorted({int(m.group(1)) for m in re.finditer(r"Props/C09Gen\.lean:(\d+):\d+: error", pr.build_log)}
                   | {int(m.group(1)) for m in re.finditer(r"error: \S*Props/C09Gen\.lean:(\d+):", pr.build_log)})
    if not lines:
        return []
    src = open(os.path.join(core.LEAN_DIR, MODULE.replace(".", "/") + ".lean")).read().splitlines()
    # declarations with the line range they own (a doc comment belongs to the declaration after it: Lean reports
    # e.g. `rfl` failures of a one-line theorem at the start of its doc comment)
    decls: list[tuple[int, str]] = []   # (first line (1-based) of doc comment or declaration, name)
    doc_start = None
    last_doc_end = None
    for i, line in enumerate(src, 1):
        st = line.strip()
        if st.startswith("/--") and doc_start is None:
            doc_start = i
        if doc_start is not None and st.endswith("-/"):
            last_doc_end, last_doc_start = i, doc_start
            doc_start = None
            continue
        if doc_start is not None:
            continue
        m = re.match(r"\s*(?:@\[[^\]]*\]\s*)?(?:private\s+)?(?:theorem|def|example|lemma)\b\s*([^\s:(]*)", line)
        if m:
            name = m.group(1) or ("example at line %d: %s" % (i, st[:90]))
            first = last_doc_start if last_doc_end == i - 1 else i
            decls.append((first, name))
    names: list[str] = []
    for ln in lines:
        name = None
        for first, nm in decls:
            if first <= ln:
                name = nm
            else:
                break
        if name and name not in names:
            names.append(name)
    # a `<method>_shape` obligation pins the generated body; the equality `interp_<method>` is proved from it
    for shape, eq in SHAPE_OF.items():
        if shape in names and eq not in names:
            names.append("%s (unproved: rests on %s)" % (eq, shape))
    chk.extra["c09gen_failed"] = names
    chk.broke("proof", {"module": MODULE, "generated_methods_no_longer_equal_hand_model": names})
    return names


def ga_methods_k(chk: core.Check) -> None:
    """the real BaseGASampler methods on studies with shifted ids (another study in the same storage, SQLite ids from 1) vs the
    interpreter of the generated methods vs the hand model: outputs AND what is stored"""
    import optuna
    from optuna.samplers import NSGAIISampler
    from optuna.trial import TrialState, create_trial

    from verif import fleet
    from verif import repro_k as K

    optuna.logging.set_verbosity(optuna.logging.ERROR)
    drv = core.Driver("repro")
    try:
        scen = [("mem", {}), ("rdb", {}), ("mem", {"studies": 1, "trials": 5}), ("journal-symlink", {"studies": 2, "trials": 2})]
        for cfg, shift in scen:
            for pop in (2, 3):
                h = fleet.make(cfg, chk.tmp)
                try:
                    K.prepopulate(h.storage, shift)
                    sampler = NSGAIISampler(population_size=pop, seed=chk.seed + 1)
                    study = optuna.create_study(storage=h.storage, sampler=sampler, study_name="ga-methods-%d" % pop)
                    key = sampler._get_generation_key()
                    dist = {"x": optuna.distributions.FloatDistribution(0, 10)}
                    plan = [(TrialState.COMPLETE, 0), (TrialState.COMPLETE, 0), (TrialState.FAIL, 0), (TrialState.COMPLETE, 0),
                            (TrialState.COMPLETE, 1), (TrialState.COMPLETE, None), (TrialState.PRUNED, 1), (TrialState.COMPLETE, 1)]
                    for i, (st, g) in enumerate(plan):
                        study.add_trial(create_trial(state=st, value=float(i) if st == TrialState.COMPLETE else None, params={"x": float(i)},
                                                     distributions=dist, system_attrs={} if g is None else {key: g}))
                    tid = h.storage.create_new_trial(study._study_id)       # a RUNNING trial without the attribute, not made by the sampler

                    def snap() -> list[list[Any]]:
                        return [[t._trial_id, t.number, t.system_attrs.get(key), int(t.state)] for t in study.get_trials(deepcopy=False)]
                    before = snap()
                    cur = [i for i, t in enumerate(before) if t[0] == tid][0]
                    frozen = h.storage.get_trial(tid)
                    try:
                        g_real = sampler.get_trial_generation(study, frozen)
                    except Exception as e:  # noqa: BLE001 - the model never raises here
                        chk.broke("correspondence", {"what": "BaseGASampler.get_trial_generation raised %r; the hand model / generated interpreter do not" % (e,),
                                                     "storage": cfg, "shift": shift, "trials": before})
                        return
                    attr_after = h.storage.get_trial(tid).system_attrs.get(key)
                    # a trial that already carries the attribute: no write
                    t4 = study.get_trials(deepcopy=False)[4]
                    g4 = sampler.get_trial_generation(study, t4)
                    pops = {g: [t.number for t in sampler.get_population(study, g)] for g in (0, 1, 2)}
                    chosen_numbers = [0, 3]
                    all_trials = study.get_trials(deepcopy=False)
                    sampler.select_parent = lambda st_, generation, _c=[all_trials[n] for n in chosen_numbers]: list(_c)  # type: ignore[method-assign]
                    first = [t.number for t in sampler.get_parent_population(study, 1)]
                    stored = h.storage.get_study_system_attrs(study._study_id).get(sampler._get_parent_cache_key_prefix() + "1")
                    try:
                        second: Any = [t.number for t in sampler.get_parent_population(study, 1)]
                    except IndexError:
                        second = None
                    except Exception as e:  # noqa: BLE001
                        second = "raised %s" % type(e).__name__
                    m = drv.ask({"op": "gamethods", "trials": before, "cur": cur, "pop": pop, "g": 1, "parents": chosen_numbers})
                    m4 = drv.ask({"op": "gamethods", "trials": before, "cur": 4, "pop": pop, "g": 0, "parents": []})
                    m2 = drv.ask({"op": "gamethods", "trials": before, "cur": cur, "pop": pop, "g": 2, "parents": []})
                    chk.count("ga-methods-k:" + cfg)
                    chk.traces_validated += 1
                    chk.evaluations += 1
                    for mm in (m, m4, m2):
                        if gen_disagreement(mm) is not None or "generation" not in mm:
                            chk.broke("correspondence", {"what": "interpreter of the generated GA methods differs from the hand model (Model/GACache.lean)",
                                                         "storage": cfg, "shift": shift, "trials": before, "gen": mm.get("gen", mm)})
                            return
                    impl = {"generation": g_real, "attr_written": attr_after, "generation_of_attr_trial": g4, "population": [pops[1], pops[0], pops[2]],
                            "first": first, "stored": list(stored or []), "second": second}
                    model = {"generation": m["generation"], "attr_written": (m["writes"][0][1] if m["writes"] and m["writes"][0][0] == tid else None),
                             "generation_of_attr_trial": m4["generation"] if not m4["writes"] else "wrote",
                             "population": [m["population"], m4["population"], m2["population"]],
                             "first": m["first"], "stored": m["stored"], "second": m["second"]}
                    if impl != model:
                        chk.broke("correspondence", {"what": "BaseGASampler methods vs the hand model / generated interpreter", "storage": cfg, "shift": shift,
                                                     "population_size": pop, "trials": before, "impl": impl, "model": model})
                        return
                finally:
                    h.close()
    finally:
        drv.close()


def gen_disagreement(resp: Any) -> Any:
    if isinstance(resp, dict):
        return resp.get("gen")
    return None
