"""C10 — suggested values lie in the declared domain, are stable and are what gets stored.

prove:      Props/C10.lean (decision logic of Trial._suggest for all states / contexts / sampler answers; every
            projection at the end of a sampler path maps EVERY raw number into the domain).
correspond: (a) scripted suggest sequences on a real Study with a stub sampler (controlled relative search space /
            relative params / independent answers, enqueued fixed params) vs the Lean `suggest` model, call by call:
            returned value, branch taken, exception class, cached value, stored value;
            (b) each projection function of the real code fed with raw numbers (boundaries, half-way points,
            far-out values) vs the Lean projection: transform untransform, TPE discretisation
            (`_MixtureOfProductDistribution.sample` with `_truncnorm.rvs` scripted), TPE int rounding
            (`_ParzenEstimator._untransform` + `to_external_repr`), GP `get_unnormalized_param`, categorical indexes.
observe:    every importable built-in sampler (Random, TPE uni/multivariate/group/constant-liar, NSGA-II, NSGA-III, QMC
            sobol/halton, GP, Grid, BruteForce, PartialFixed; CmaEs is not installed) on adversarial distributions, with
            ranges that change between trials, enqueued values and RNGs replaced by extreme-value stubs; oracle: exact
            rational membership of every returned value, same value on a second ask, returned == trial.params ==
            storage on in-memory and SQLite.
"""
from __future__ import annotations

import json
import math
import os
import random
import traceback
import warnings
import zlib
from fractions import Fraction
from typing import Any

import numpy as np

from verif import core
from verif import dist_k as K
from verif.props import c11 as H11
from verif.props import c10_suggest_gen as SG

import optuna
from optuna import distributions as OD
from optuna.samplers import BaseSampler
from optuna.trial import TrialState

optuna.logging.set_verbosity(optuna.logging.ERROR)

RULE = (
    "three kinds of seeded cases: (1) suggest scripts = a context (enqueued fixed params incl. out-of-range / invalid, a "
    "stub sampler's relative search space and relative params incl. values outside the asked range and incompatible "
    "distributions, independent answers) + 3-10 suggest calls with repeated names and changing distributions, run on "
    "in-memory and SQLite; (2) projection probes = one distribution + raw numbers at/around bounds, half-way between grid "
    "points and far outside, through each projection function; (3) sampler runs = sampler configuration x storage x "
    "3-6 parameters (tiny/huge/negative ranges, steps not dividing the range, log ranges near 1, single points, ranges "
    "that change between trials) x 6-25 trials with enqueued trials and an extreme-value RNG stub. Non-trivial: a script "
    "that takes >= 2 different branches or an error; a probe that clips or rounds; a run in which a relative or "
    "model-based (post start-up) path produced a value. Distinct by SHA-1 of the case."
)


# ---------------------------------------------------------------------------------------------------------------
# exact membership oracle (model-free)
# ---------------------------------------------------------------------------------------------------------------
def member(d: OD.BaseDistribution, v: Any) -> str | None:
    why = H11.member_exact(d, v)
    if why is None:
        return None
    if isinstance(d, OD.FloatDistribution) and d.log and isinstance(v, float) and math.isfinite(v) and v > 0:
        edge = min(max(v, d.low), d.high)
        if K.ulps_apart(v, edge) <= H11.tol_log(v):
            return None
    return why


def same_value(a: Any, b: Any) -> bool:
    if isinstance(a, float) and isinstance(b, float) and math.isnan(a) and math.isnan(b):
        return True
    return a is b or (a == b and not (isinstance(a, bool) != isinstance(b, bool) and False))


# ---------------------------------------------------------------------------------------------------------------
# (1) suggest scripts on a real study with a stub sampler
# ---------------------------------------------------------------------------------------------------------------
class StubSampler(BaseSampler):
    def __init__(self, rel_space: dict[str, OD.BaseDistribution], rel_params: dict[str, Any]) -> None:
        self.rel_space = rel_space
        self.rel_params = rel_params
        self.next_indep: Any = None
        self.indep_calls = 0
        self.rel_calls = 0

    def infer_relative_search_space(self, study: Any, trial: Any) -> dict[str, OD.BaseDistribution]:
        return dict(self.rel_space)

    def sample_relative(self, study: Any, trial: Any, search_space: Any) -> dict[str, Any]:
        self.rel_calls += 1
        return dict(self.rel_params)

    def sample_independent(self, study: Any, trial: Any, param_name: str, param_distribution: Any) -> Any:
        self.indep_calls += 1
        return self.next_indep


_SQLITE: dict[str, Any] = {}


def make_storage(kind: str, tmp: str, tag: str) -> Any:
    if kind == "mem":
        return optuna.storages.InMemoryStorage()
    # one SQLite database per worker process (creating an RDBStorage costs ~1 s); every case gets its own study
    if tmp not in _SQLITE:
        path = os.path.join(tmp, "c10_%d.sqlite3" % os.getpid())
        _SQLITE[tmp] = optuna.storages.RDBStorage("sqlite:///" + path, engine_kwargs={"connect_args": {"timeout": 30}})
    return _SQLITE[tmp]


def tokv(v: Any) -> Any:
    return K.tok(v)


def eval_script(cx: H11.Ctx, case: dict[str, Any], tmp: str) -> None:
    rel_space = {n: K.build(c) for n, c in case["rel_space"]}
    rel_params = dict((n, v) for n, v in case["rel_params"])
    fixed = dict((n, v) for n, v in case["fixed"])
    sampler = StubSampler(rel_space, rel_params)
    storage = make_storage(case["storage"], tmp, "s%d" % random.getrandbits(40))
    study = optuna.create_study(storage=storage, sampler=sampler)
    if fixed:
        with warnings.catch_warnings():
            warnings.simplefilter("ignore")
            study.enqueue_trial(fixed)
    trial = study.ask()
    cx.ask({"op": "begin", "fixed": [[n, tokv(v)] for n, v in fixed.items()],
            "relSpace": [[n, K.mdist(d, "bin")] for n, d in rel_space.items()],
            "relParams": [[n, tokv(v)] for n, v in rel_params.items()]})
    branches: set[str] = set()
    first: dict[str, Any] = {}
    for call in case["calls"]:
        name, dc, indep = call["name"], call["dist"], call["indep"]
        d = K.build(dc)
        sampler.next_indep = indep
        n_ind = sampler.indep_calls
        try:
            with warnings.catch_warnings():
                warnings.simplefilter("ignore")
                got: Any = trial._suggest(name, d)
            err = None
        except Exception as e:
            got, err = None, H11.exc_name(e)
        m = cx.ask({"op": "suggest", "name": name, "d": K.mdist(d, "bin"), "ddec": K.mdist(d, "dec"), "indep": tokv(indep)})
        cx.count("script:call")
        if m.get("gen") is not None:  # interpreter of the IR generated from optuna/trial/_trial.py vs the hand model (driver `suggestgen`)
            cx.count("gen:differs")
            cx.broke("generated-vs-hand", "suggest(%r, %r): the interpreter of the generated Trial._suggest differs from the hand model: %s" % (
                name, d, json.dumps(m["gen"])[:500]))
        elif "gen" in m:
            cx.count("gen:side-by-side")
        if err is not None:
            branches.add("err")
            cx.count("script:err:" + err)
            if m.get("err") != err:
                cx.broke("suggest", "suggest(%r, %r): code raises %s, model %s" % (name, d, err, json.dumps(m)[:200]))
            continue
        if "err" in m:
            cx.broke("suggest", "suggest(%r, %r) = %r, model raises %s" % (name, d, got, m["err"]))
            continue
        branches.add(m["br"])
        cx.count("script:branch:" + m["br"])
        used_indep = sampler.indep_calls > n_ind
        if m["v"] != tokv(got) or (m["br"] == "independent") != used_indep:
            cx.broke("suggest", "suggest(%r, %r): code %r (independent sampler %s) / model %s via %s" % (
                name, d, got, "used" if used_indep else "not used", m["v"], m["br"]))
        # ---- the property itself, on the real objects -----------------------------------------------------------
        if name in first and not same_value(first[name], got):
            cx.viol("same-name-different-value", "suggest(%r) returned %r first and %r now" % (name, first[name], got))
        first.setdefault(name, got)
        if name in fixed and m["br"] != "reused" and not same_value(got, fixed[name]):
            cx.viol("fixed-does-not-win", "enqueued %r = %r but suggest returned %r" % (name, fixed[name], got))
        cached = trial.params.get(name, "<missing>")
        if not same_value(cached, got):
            cx.viol("cached-differs", "suggest(%r) returned %r but trial.params has %r" % (name, got, cached))
        ft = study._storage.get_trial(trial._trial_id)
        stored = ft.params.get(name, "<missing>")
        d_first = ft.distributions.get(name)
        internal = d_first.to_internal_repr(first[name]) if d_first is not None else None
        contained = d_first is not None and d_first._contains(internal)
        if contained and not (same_value(stored, got) or OD._categorical_choice_equal(stored, got)):
            cx.viol("stored-differs", "suggest(%r) returned %r but the storage (%s) holds %r" % (name, got, case["storage"], stored))
        if m.get("readBack") and contained and m["readBack"].get("ok") is not None:
            if m["readBack"]["ok"] != tokv(stored):
                cx.broke("suggest", "stored value: code %r / model %s" % (stored, m["readBack"]))
        src_ok = m["br"] in ("single", "relative") or (m["br"] == "fixed" and contained) or (m["br"] == "independent" and member(d, indep) is None)
        if m["br"] != "reused" and src_ok:
            shown = got
            if isinstance(d, OD.IntDistribution) and isinstance(got, float) and got.is_integer():
                # the script drives Trial._suggest directly; the public suggest_int hands int(<that value>) to the objective
                # (an enqueued 0.0 for an int parameter reaches it as 0)
                shown = int(got)
            if isinstance(d, OD.FloatDistribution) and type(got) is int and m["br"] == "fixed":
                # an int enqueued for a float parameter (enqueue_trial({"x": 1})) is handed over as that int: the property asks
                # for a member of [low, high] on the grid, and names a type only for integer parameters
                shown = float(got)
            why = member(d, shown)
            if why is not None:
                cx.viol("outside-domain", "suggest(%r, %r) = %r via %s: %s" % (name, d, got, m["br"], why))
    if len(branches) >= 2:
        cx.nontrivial = True



FALSY = [None, False, 0, 0.0, "", float("nan")]


def falsy_member(d: OD.BaseDistribution, r: random.Random) -> Any:
    """A member of the domain that is `None` or falsy, if there is one (None as a categorical choice, 0, 0.0, '',
    False): the values on which `if value:` / `.get(name) is None` shortcuts in the fixed-parameter path go wrong."""
    if isinstance(d, OD.CategoricalDistribution):
        c = [x for x in d.choices if x is None or (isinstance(x, (bool, int, float, str)) and not x)]
        return r.choice(c) if c else "<none>"
    if isinstance(d, OD.IntDistribution):
        return 0 if member(d, 0) is None else "<none>"
    return 0.0 if member(d, 0.0) is None else "<none>"


def off_grid_in_range(d: OD.BaseDistribution, r: random.Random) -> Any:
    """A number inside [low, high] that is NOT on the step grid (stepped floats, ints incl. step 1): optuna warns and
    hands an enqueued / fixed value of this kind to the objective as it is - it must not be 'repaired'."""
    if isinstance(d, OD.FloatDistribution) and d.step is not None and d.high > d.low:
        v = d.low + d.step * r.choice([0.3, 0.5, 0.7])
        return v if d.low < v < d.high and member(d, v) is not None else None
    if isinstance(d, OD.IntDistribution) and d.step >= 2 and d.low + 1 < d.high and not d.log:
        # an INTEGER between two grid points (a non-integer enqueued for an int parameter is truncated by suggest_int
        # while trial.params keeps the raw number: invalid input, warned about, outside what the property promises)
        return d.low + r.randrange(1, d.step)
    return None


def with_falsy_choice(c: dict[str, Any], r: random.Random) -> dict[str, Any]:
    if c["cls"] == "CategoricalDistribution" and r.random() < 0.5:
        c = dict(c)
        ch = list(c["choices"])
        ch.insert(r.randrange(len(ch) + 1), r.choice([None, None, False, 0, ""]))
        c["choices"] = ch
    return c


def gen_script(r: random.Random) -> dict[str, Any]:
    names = ["a", "b", "c", "d"][: r.randint(1, 4)]

    def dist_case() -> dict[str, Any]:
        k = r.random()
        if k < 0.35:
            c = K.gen_float_in15(r, log=r.random() < 0.2)
        elif k < 0.7:
            c = K.gen_int(r)
            if max(abs(c["low"]), abs(c["high"])) >= 2 ** 50:
                c = {"cls": "IntDistribution", "low": -5, "high": 20, "log": False, "step": 5}
        else:
            c = with_falsy_choice(K.gen_cat(r), r)
        return K.case_of(K.build(c))

    base = {n: dist_case() for n in names}

    def variant(c: dict[str, Any]) -> dict[str, Any]:
        """the same kind with another range (or the same), sometimes another kind"""
        k = r.random()
        if k < 0.45:
            return c
        if k < 0.55:
            return dist_case()
        c2 = dict(c)
        if c["cls"] == "CategoricalDistribution":
            ch = list(c["choices"])
            c2["choices"] = ch[:-1] if len(ch) > 1 and r.random() < 0.5 else ch + ["zz"]
        elif "Int" in c["cls"]:
            w = max((c["high"] - c["low"]) // 2, 0)
            c2["high"] = c["low"] + w
            if r.random() < 0.2 and c["low"] >= 1:
                c2["log"], c2["step"] = (not c["log"]), 1
        else:
            c2["high"] = c["low"] + (c["high"] - c["low"]) / 2
            if r.random() < 0.3:
                c2["step"] = None
        try:
            return K.case_of(K.build(c2))
        except Exception:
            return c

    def value_for(c: dict[str, Any], inside: float = 0.7) -> Any:
        d = K.build(c)
        if r.random() < 0.3:
            f = falsy_member(d, r)
            if not (isinstance(f, str) and f == "<none>"):
                return f
        off = off_grid_in_range(d, r)
        if off is not None and r.random() < 0.25:
            return off
        if r.random() < inside:
            return H11.values_for(d, r, 1)[0]
        if isinstance(d, OD.CategoricalDistribution):
            return r.choice(["not-a-choice", 12345, None, 1])
        if isinstance(d, OD.IntDistribution):
            return r.choice([d.low - d.step, d.high + d.step, d.low + 0.5, "x", d.high + 1, float("nan")])
        return r.choice([d.low - 1.0, d.high + abs(d.high) + 1.0, "x", float("nan"), -1.0, 0.0])

    fixed = [[n, value_for(base[n])] for n in names if r.random() < 0.35]
    rel_space, rel_params = [], []
    for n in names:
        k = r.random()
        if k < 0.55:
            rd = variant(base[n])
            rel_space.append([n, rd])
            rel_params.append([n, value_for(rd, 0.85)])
        elif k < 0.62:
            rel_params.append([n, value_for(base[n])])  # sampled but not in the relative search space -> ValueError
    calls = []
    for _ in range(r.randint(3, 10)):
        n = r.choice(names)
        dc = base[n] if r.random() < 0.6 else variant(base[n])
        calls.append({"name": n, "dist": dc, "indep": value_for(dc, 0.9)})
    # +-inf offered to a NUMERIC distribution (an infinite categorical choice re-used under a numeric variant of the name) is
    # invalid input outside the model: its internal values are rationals.  The real code hands it over like any other
    # uncontained value; a huge finite number exercises the same path.
    def fin(v: Any) -> Any:
        if isinstance(v, (str, bytes)):
            # a numeric-looking string ('1') is accepted by float() in to_internal_repr and handed over as the string; the
            # model's tokens do not parse strings - same class of invalid input, replaced by a string float() rejects
            try:
                float(v)
            except (TypeError, ValueError):
                return v
            return "x"
        return (1e300 if v > 0 else -1e300) if isinstance(v, float) and math.isinf(v) else v

    numeric = {c["name"] for c in calls if c["dist"]["cls"] != "CategoricalDistribution"} | {n for n, c in rel_space if c["cls"] != "CategoricalDistribution"}
    fixed = [[n, fin(v) if n in numeric else v] for n, v in fixed]
    rel_params = [[n, fin(v) if n in numeric else v] for n, v in rel_params]
    for c in calls:
        if c["dist"]["cls"] != "CategoricalDistribution":
            c["indep"] = fin(c["indep"])
    return {"k": "script", "fixed": fixed, "rel_space": rel_space, "rel_params": rel_params, "calls": calls,
            "storage": r.choice(["mem", "mem", "sqlite"])}


# ---------------------------------------------------------------------------------------------------------------
# (2) projection probes
# ---------------------------------------------------------------------------------------------------------------
def raw_numbers(d: OD.BaseDistribution, r: random.Random) -> list[float]:
    lo, hi = float(d.low), float(d.high)
    st = float(d.step) if d.step is not None else max((hi - lo) / 7, 1e-3 * max(abs(lo), abs(hi), 1.0))
    n = int(round((hi - lo) / st)) if st > 0 else 0
    ks = sorted({0, 1, n, max(n - 1, 0), n // 2, r.randint(0, max(n, 0))})
    out = [lo, hi, lo - 0.5 * st, hi + 0.5 * st, lo - 0.4999 * st, hi + 0.4999 * st, lo - 10 * st, hi + 10 * st,
           float(np.nextafter(lo, -math.inf)), float(np.nextafter(hi, math.inf)), lo - 1e12 * st, hi + 1e12 * st]
    for k in ks:
        out += [lo + k * st, lo + (k + 0.5) * st, lo + (k + 0.49) * st, lo + (k - 0.51) * st]
    out += [lo + (hi - lo) * r.random() for _ in range(4)]
    return [x for x in out if math.isfinite(x)]


def float_close(d: OD.FloatDistribution, got: float, want: Fraction) -> bool:
    return abs(K.fbin(got) - want) <= H11.TOL_GRID_ULP * Fraction(K.ulp(H11.grid_scale(d)))


def tie(x: float, lo: float, st: float) -> bool:
    k = (K.fbin(x) - K.fbin(lo)) / K.fbin(st)
    return abs(abs(k - math.floor(k)) - Fraction(1, 2)) < Fraction(1, 10 ** 7)


def eval_probe(cx: H11.Ctx, case: dict[str, Any], r: random.Random) -> None:
    from optuna import _transform as T
    from optuna._gp import search_space as GS
    from optuna.samplers._tpe import probability_distributions as PD
    from optuna.samplers._tpe.parzen_estimator import _ParzenEstimator
    from optuna.samplers import TPESampler

    d = K.build(case["dist"])
    md = K.mdist(d, "bin")
    if isinstance(d, OD.CategoricalDistribution):
        n = len(d.choices)
        # TPE categorical index
        w = np.array([[r.random() + 1e-3 for _ in range(n)]])
        w /= w.sum(axis=1, keepdims=True)
        for q in [0.0, 1.0 - 2 ** -53, 0.5, r.random(), float(np.cumsum(w[0])[0]), min(float(np.cumsum(w[0])[-1]), 1.0 - 2 ** -53)]:
            class QR(np.random.RandomState):
                def rand(self, *a: Any) -> Any:  # noqa: N802
                    return np.full(a, q)

                def choice(self, *a: Any, **kw: Any) -> Any:
                    return np.zeros(kw.get("size", 1), dtype=int)
            mix = PD._MixtureOfProductDistribution(weights=np.array([1.0]), distributions=[PD._BatchedCategoricalDistributions(weights=w)])
            idx = float(mix.sample(QR(0), 1)[0, 0])
            cum = np.cumsum(w[0]).tolist()
            cum[-1] = 1.0
            mi = cx.ask({"op": "catCum", "cum": [K.rs(K.fbin(c)) for c in cum], "q": K.rs(K.fbin(q))})
            cx.count("probe:cat-tpe")
            if not (idx == int(idx) and 0 <= int(idx) < n):
                cx.viol("projection-outside-domain", "TPE categorical index %r for quantile %r with %d choices" % (idx, q, n))
            elif int(idx) != mi:
                cx.broke("projection", "TPE categorical index: code %r / model %r (q=%r, cum=%r)" % (idx, mi, q, cum))
        # GP categorical index: floor(q * n)
        for q in [0.0, 1.0 - 2 ** -53, 0.5, r.random()]:
            idx = float(np.floor(np.array([q]) * float(n))[0])
            mi = int(cx.ask({"op": "catFloor", "n": n, "q": K.rs(K.fbin(q))}))
            cx.count("probe:cat-gp")
            v = GS.get_unnormalized_param({"x": d}, np.array([idx]))["x"]
            if member(d, v) is not None:
                cx.viol("projection-outside-domain", "GP categorical: index %r -> %r" % (idx, v))
            if int(idx) != mi and abs(q * n - round(q * n)) > 1e-9:
                cx.broke("projection", "GP categorical index: code %r / model %r (q=%r, n=%d)" % (idx, mi, q, n))
        # the transform's argmax
        for _ in range(4):
            cols = [r.choice([0.0, 1.0, r.random(), 0.5]) for _ in range(n)]
            tr = T._SearchSpaceTransform({"x": d})
            v = tr.untransform(np.array(cols))["x"]
            mo = cx.ask({"op": "untransform", "cfg": {"tlog": True, "tstep": True, "t01": False}, "space": [md],
                         "xs": [K.rs(K.fbin(c)) for c in cols]})
            cx.count("probe:cat-argmax")
            if member(d, v) is not None:
                cx.viol("projection-outside-domain", "argmax of %r -> %r not a choice" % (cols, v))
            elif "ok" not in mo or mo["ok"][0] != K.tok(v):
                cx.broke("projection", "argmax %r: code %r / model %s" % (cols, v, mo))
        cx.nontrivial = True
        return

    is_int = isinstance(d, OD.IntDistribution)
    raws = raw_numbers(d, r)
    lo, hi = float(d.low), float(d.high)
    st = float(d.step) if d.step is not None else None
    env_b = [[K.rs(K.fbin(hi)), K.rs(K.fbin(float(np.nextafter(hi, hi - 1))))]]

    # -- (a) _untransform_numerical_param: raw column values (log distributions: in log space) ---------------
    for x in raws:
        if d.log:
            if x <= 0:
                continue
            xx = math.log(x)
        else:
            xx = x
        try:
            v = T._untransform_numerical_param(xx, d, True)
        except OverflowError:
            continue
        cx.count("probe:untransform")
        envx = {"below": env_b, "ex": [[K.rs(K.fbin(xx)), K.rs(K.fbin(math.exp(xx)))]] if d.log and abs(xx) < 700 else []}
        mo = cx.ask({"op": "decode", "cfg": {"tlog": True, "tstep": True, "t01": False}, "d": md, "x": K.rs(K.fbin(xx)), "env": envx})
        inside = lo <= x <= hi
        clip_path = is_int or st is not None
        if clip_path or inside:
            why = member(d, v)
            if why is not None:
                cx.viol("projection-outside-domain", "_untransform_numerical_param(%r, %r) = %r: %s" % (xx, d, v, why))
                continue
        if not inside:
            cx.nontrivial = True
        if "ok" not in mo:
            cx.broke("projection", "untransform %r of %r: model has no value" % (xx, d))
        elif is_int:
            if mo["ok"] != K.tok(int(v)) and not (not d.log and tie(x, lo, st or 1.0)):
                cx.broke("projection", "_untransform_numerical_param(%r, %r) = %r / model %s" % (xx, d, v, mo["ok"]))
        elif st is not None:
            if not float_close(d, v, K.pr(mo["ok"]["f"])) and not tie(x, lo, st):
                cx.broke("projection", "_untransform_numerical_param(%r, %r) = %r / model %s" % (xx, d, v, mo["ok"]))
        elif K.fbin(v) != K.pr(mo["ok"]["f"]):
            cx.broke("projection", "_untransform_numerical_param(%r, %r) = %r / model %s" % (xx, d, v, mo["ok"]))

    # -- (b) TPE discretisation with scripted raw truncnorm samples (stepped floats and non-log ints) -------
    if st is not None and not d.log:
        arr = np.array(raws, dtype=np.float64)
        orig = PD._truncnorm.rvs
        try:
            PD._truncnorm.rvs = lambda **kw: arr  # type: ignore[assignment]
            mix = PD._MixtureOfProductDistribution(
                weights=np.array([1.0]),
                distributions=[PD._BatchedDiscreteTruncNormDistributions(mu=np.array([lo]), sigma=np.array([max(hi - lo, 1.0)]), low=lo, high=hi, step=st)])
            ret = mix.sample(np.random.RandomState(0), len(raws))[:, 0]
        finally:
            PD._truncnorm.rvs = orig  # type: ignore[assignment]
        for x, g in zip(raws, ret.tolist()):
            cx.count("probe:tpe-disc")
            v = d.to_external_repr(g)
            why = member(d, v)
            if why is not None:
                cx.viol("projection-outside-domain", "TPE discretisation of raw sample %r for %r gives %r: %s" % (x, d, v, why))
                continue
            m = K.pr(cx.ask({"op": "tpeDisc", "low": K.rs(K.fbin(lo)), "high": K.rs(K.fbin(hi)), "step": K.rs(K.fbin(st)), "s": K.rs(K.fbin(x))}))
            okv = (K.fbin(g) == m) if is_int else float_close(d, g, m)
            if not okv and not tie(x, lo, st):
                cx.broke("projection", "TPE discretisation of %r for %r: code %r / model %s" % (x, d, g, m))
    # -- (b') TPE continuous path (float without step): scripted raw truncnorm samples, and the smallest uniform draw ----
    if st is None and not is_int and not d.log and hi > lo:
        arr = np.array(raws, dtype=np.float64)
        orig = PD._truncnorm.rvs
        try:
            PD._truncnorm.rvs = lambda **kw: arr  # type: ignore[assignment]
            mix = PD._MixtureOfProductDistribution(
                weights=np.array([1.0]),
                distributions=[PD._BatchedTruncNormDistributions(mu=np.array([lo]), sigma=np.array([max(hi - lo, 1e-300)]), low=lo, high=hi)])
            ret = mix.sample(np.random.RandomState(0), len(raws))[:, 0]
        finally:
            PD._truncnorm.rvs = orig  # type: ignore[assignment]
        for x, g in zip(raws, ret.tolist()):
            cx.count("probe:tpe-cont")
            why = member(d, g)
            if why is not None:
                cx.viol("projection-outside-domain", "TPE continuous sample %r for %r is returned as %r: %s" % (x, d, g, why))
                continue
            m = K.pr(cx.ask({"op": "tpeCont", "low": K.rs(K.fbin(lo)), "high": K.rs(K.fbin(hi)), "s": K.rs(K.fbin(x))}))
            if K.fbin(g) != m:
                cx.broke("projection", "TPE continuous sample %r for %r: code %r / model %s" % (x, d, g, m))
        # the real `_truncnorm.rvs` with the extreme uniform draws 0 and 1 - 2^-53 (what numpy's generator can return): the
        # rescaling ppf(q) * sigma + mu may round outside [low, high]
        class _EdgeRNG(np.random.RandomState):
            def __init__(self, q: float) -> None:
                super().__init__(0)
                self.q = q

            def uniform(self, low: Any = 0.0, high: Any = 1.0, size: Any = None) -> Any:
                return np.full(size if size is not None else (), self.q)

        for q in (0.0, 1.0 - 2.0 ** -53):
            for _ in range(6):
                mu = lo + (hi - lo) * r.random()
                sg = (hi - lo) * r.choice([0.01, 0.1, 0.5, 1.0, 3.0]) * (0.5 + r.random())
                if not (sg > 0 and math.isfinite(sg)):
                    continue
                mix = PD._MixtureOfProductDistribution(
                    weights=np.array([1.0]),
                    distributions=[PD._BatchedTruncNormDistributions(mu=np.array([mu]), sigma=np.array([sg]), low=lo, high=hi)])
                with np.errstate(all="ignore"), warnings.catch_warnings():
                    warnings.simplefilter("ignore")
                    g = float(mix.sample(_EdgeRNG(q), 1)[0, 0])
                cx.count("probe:tpe-cont-edge")
                if math.isnan(g):
                    continue
                why = member(d, g)
                if why is not None:
                    cx.viol("projection-outside-domain", "TPE continuous path with uniform draw %r (mu=%r, sigma=%r) for %r returns %r: %s" % (q, mu, sg, d, g, why))
                    break
    # -- (c) TPE `_untransform` + to_external_repr (ints, incl. log ints) --------------------------------------------
    if is_int:
        pe = _ParzenEstimator({"x": np.array([])}, {"x": d}, TPESampler()._parzen_estimator_parameters)
        col = np.array([[math.log(x)] if d.log else [x] for x in raws if (x > 0 or not d.log)], dtype=np.float64)
        used = [x for x in raws if (x > 0 or not d.log)]
        with np.errstate(over="ignore"):
            res = pe._untransform(col)["x"]
        for x, g in zip(used, res.tolist()):
            cx.count("probe:tpe-int")
            if not math.isfinite(g):
                continue
            v = d.to_external_repr(g)
            why = member(d, v)
            if why is not None:
                cx.viol("projection-outside-domain", "TPE _untransform of raw %r for %r gives %r: %s" % (x, d, v, why))
                continue
            raw_after = math.exp(math.log(x)) if d.log else x
            m = int(cx.ask({"op": "tpeInt", "low": str(d.low), "high": str(d.high), "step": str(d.step), "s": K.rs(K.fbin(raw_after))}))
            slack = 0
            if d.log:
                # the code rounds np.exp(log x); the model gets math.exp(math.log(x)) as an exact rational. Both carry the error of
                # exp o log (about |x| (|log x| + 2) eps): near a rounding boundary, or once that error reaches half a step (ranges
                # around 1e15), neighbouring grid points are both correct roundings. Membership above is still exact.
                err = abs(raw_after) * (abs(math.log(raw_after)) + 2.0) * 4.6e-16 / float(d.step)
                kk = (raw_after - lo) / float(d.step)
                if abs(abs(kk - math.floor(kk)) - 0.5) <= err or err >= 0.5:
                    slack = (1 + int(math.ceil(err))) * d.step
            if m != v and abs(m - v) > slack and not tie(raw_after, lo, float(d.step)):
                cx.broke("projection", "TPE _untransform of %r for %r: code %r / model %r" % (x, d, v, m))
            elif m != v:
                cx.count("probe:tpe-int:rounding-boundary")
    # -- (d) GP get_unnormalized_param: raw normalised values ------------------------------------------------------
    step0 = 0.0 if d.step is None else float(d.step)
    scale = GS.ScaleType.LOG if d.log else GS.ScaleType.LINEAR
    for x in raws:
        if d.log and x - 0.5 * step0 <= 0:
            continue
        z = r.choice([0.0, 1.0, r.random(), -0.25, 1.25, 0.5])
        try:
            unn = float(GS.unnormalize_one_param(np.array(z), scale, (lo, hi), step0))
        except (OverflowError, ValueError):
            continue
        if not math.isfinite(unn):
            continue
        v = GS.get_unnormalized_param({"x": d}, np.array([z]))["x"]
        cx.count("probe:gp")
        if is_int:
            m = int(cx.ask({"op": "gpInt", "low": str(d.low), "high": str(d.high), "s": K.rs(K.fbin(unn))}))
            if not (isinstance(v, int) and d.low <= v <= d.high):
                cx.viol("projection-outside-domain", "GP get_unnormalized_param(%r) for %r gives %r" % (z, d, v))
            elif m != v:
                cx.broke("projection", "GP projection of %r for %r: code %r / model %r" % (unn, d, v, m))
            elif d.step == 1 and member(d, v) is not None:
                cx.viol("projection-outside-domain", "GP get_unnormalized_param(%r) for %r gives %r" % (z, d, v))
        else:
            m = K.pr(cx.ask({"op": "gpNum", "low": K.rs(K.fbin(lo)), "high": K.rs(K.fbin(hi)), "s": K.rs(K.fbin(unn))}))
            if not (lo <= v <= hi):
                cx.viol("projection-outside-domain", "GP get_unnormalized_param(%r) for %r gives %r" % (z, d, v))
            elif K.fbin(v) != m:
                cx.broke("projection", "GP projection of %r for %r: code %r / model %s" % (unn, d, v, m))
    # GP keeps grid points: normalise a grid value, round in normalised space as the sampler does, unnormalise
    if st is not None and not d.log:
        for v0 in H11.values_for(d, r, 4):
            z = GS.normalize_one_param(np.array([float(v0)]), scale, (lo, hi), step0)
            z = GS.round_one_normalized_param(z, scale, (lo, hi), step0)
            v = GS.get_unnormalized_param({"x": d}, z)["x"]
            cx.count("probe:gp-grid")
            why = member(d, v)
            if why is not None:
                cx.viol("projection-outside-domain", "GP round trip of the grid value %r of %r gives %r: %s" % (v0, d, v, why))


def gen_probe(r: random.Random) -> dict[str, Any]:
    while True:
        k = r.random()
        if k < 0.4:
            c = K.gen_float_in15(r, log=r.random() < 0.2)
        elif k < 0.85:
            c = K.gen_int(r)
        else:
            c = K.gen_cat(r)
        d = K.build(c)
        if isinstance(d, OD.FloatDistribution) and d.step is not None and (d.high - d.low) / d.step > 2 ** 40:
            continue
        if isinstance(d, OD.IntDistribution) and max(abs(d.low), abs(d.high), d.high - d.low + d.step) >= 2 ** 50:
            continue
        if isinstance(d, OD.FloatDistribution) and d.log and (d.high > 1e300 or d.low < 1e-300):
            continue
        return {"k": "probe", "dist": K.case_of(d)}


# ---------------------------------------------------------------------------------------------------------------
# (3) sampler runs
# ---------------------------------------------------------------------------------------------------------------
class ExtremeRNG(np.random.RandomState):
    """numpy RandomState whose uniform draws are, with probability p, pushed to the ends of the interval"""

    def __init__(self, seed: int, p: float) -> None:
        super().__init__(seed)
        self._p = p
        self._aux = np.random.RandomState(seed + 1)

    def _push(self, u: np.ndarray) -> np.ndarray:
        u = np.array(u, dtype=np.float64, copy=True)
        flat = u.reshape(-1)
        pick = self._aux.random_sample(flat.shape) < self._p
        ends = self._aux.choice([0.0, 1.0 - 2 ** -53, 2 ** -60, 0.5], size=flat.shape)
        flat[pick] = ends[pick]
        return flat.reshape(u.shape)

    def uniform(self, low: Any = 0.0, high: Any = 1.0, size: Any = None) -> Any:
        lo, hi = np.asarray(low, dtype=np.float64), np.asarray(high, dtype=np.float64)
        shape = size if size is not None else np.broadcast(lo, hi).shape
        u = self._push(super().random_sample(shape))
        one = self._aux.random_sample(np.shape(u)) < self._p * 0.3  # numpy documents that `high` itself can come out
        out = lo + (hi - lo) * u
        out = np.where(one, hi, out)
        return out if np.ndim(out) else float(out)

    def rand(self, *shape: int) -> Any:
        u = self._push(super().random_sample(shape if shape else None) if shape else np.array(super().random_sample()))
        return u if shape else float(u)

    def random_sample(self, size: Any = None) -> Any:  # used by _push through super(); keep the plain behaviour
        return super().random_sample(size)


def install_rng(obj: Any, seed: int, p: float, depth: int = 0, seen: set[int] | None = None) -> int:
    from optuna.samplers._lazy_random_state import LazyRandomState
    seen = seen if seen is not None else set()
    if id(obj) in seen or depth > 4:
        return 0
    seen.add(id(obj))
    n = 0
    if isinstance(obj, LazyRandomState):
        obj._rng = ExtremeRNG(seed + len(seen), p)
        return 1
    if not hasattr(obj, "__dict__") or not type(obj).__module__.startswith("optuna"):
        return 0
    for v in list(vars(obj).values()):
        n += install_rng(v, seed, p, depth + 1, seen)
    return n


def make_sampler(spec: dict[str, Any], grid: dict[str, list[Any]] | None) -> BaseSampler:
    S = optuna.samplers
    k, seed = spec["kind"], spec["seed"]
    with warnings.catch_warnings():
        warnings.simplefilter("ignore")
        if k == "random":
            return S.RandomSampler(seed=seed)
        if k == "tpe":
            return S.TPESampler(seed=seed, n_startup_trials=spec.get("startup", 3), n_ei_candidates=spec.get("cand", 8),
                                multivariate=spec.get("multivariate", False), group=spec.get("group", False),
                                constant_liar=spec.get("liar", False), consider_endpoints=spec.get("endpoints", False))
        if k == "nsga2":
            return S.NSGAIISampler(seed=seed, population_size=spec.get("pop", 4))
        if k == "nsga3":
            return S.NSGAIIISampler(seed=seed, population_size=spec.get("pop", 4))
        if k == "qmc":
            return S.QMCSampler(seed=seed, qmc_type=spec.get("qmc", "sobol"), scramble=spec.get("scramble", True))
        if k == "gp":
            return S.GPSampler(seed=seed, n_startup_trials=spec.get("startup", 2))
        if k == "grid":
            assert grid is not None
            return S.GridSampler(grid, seed=seed)
        if k == "brute":
            return S.BruteForceSampler(seed=seed)
        if k == "partial":
            base = make_sampler(dict(spec["base"], seed=seed), grid)
            return S.PartialFixedSampler(dict(spec["fixed"]), base)
    raise ValueError(k)


def eval_run(cx: H11.Ctx, case: dict[str, Any], tmp: str) -> None:
    params = case["params"]  # [{name, kind, variants: [dist case, ...]}]
    spec = case["sampler"]
    grid = None
    if spec["kind"] == "grid" or (spec["kind"] == "partial" and spec["base"]["kind"] == "grid"):
        grid = dict((p["name"], p["grid"]) for p in params)
    sampler = make_sampler(spec, grid)
    if case.get("stub_p", 0) > 0:
        cx.count("run:rng-stubs-installed", install_rng(sampler, spec["seed"], case["stub_p"]))
    storage = make_storage(case["storage"], tmp, "r%d" % random.getrandbits(40))
    n_obj = case.get("n_obj", 1)
    study = optuna.create_study(storage=storage, sampler=sampler, directions=["minimize"] * n_obj)
    enq = dict((int(k), v) for k, v in case.get("enqueue", {}).items())
    log: list[dict[str, Any]] = []
    partial_fixed = dict(spec["fixed"]) if spec["kind"] == "partial" else {}

    def objective(trial: optuna.trial.Trial) -> Any:
        acc = 0.0
        for p in params:
            dc = p["variants"][trial.number % len(p["variants"])]
            d = K.build(dc)
            with warnings.catch_warnings():
                warnings.simplefilter("ignore")
                if isinstance(d, OD.CategoricalDistribution):
                    v = trial.suggest_categorical(p["name"], d.choices)
                    v2 = trial.suggest_categorical(p["name"], d.choices)
                elif isinstance(d, OD.IntDistribution):
                    v = trial.suggest_int(p["name"], dc["low"], dc["high"], step=d.step, log=d.log)
                    v2 = trial.suggest_int(p["name"], dc["low"], dc["high"], step=d.step, log=d.log)
                else:
                    v = trial.suggest_float(p["name"], dc["low"], dc["high"], step=d.step, log=d.log)
                    v2 = trial.suggest_float(p["name"], dc["low"], dc["high"], step=d.step, log=d.log)
            stored = trial.study._storage.get_trial(trial._trial_id).params.get(p["name"], "<missing>")
            log.append({"trial": trial.number, "name": p["name"], "dist": dc, "v": v, "again": v2,
                        "cached": trial.params.get(p["name"], "<missing>"), "stored_now": stored})
            h = zlib.crc32(("%s=%r" % (p["name"], v)).encode()) % 1000  # deterministic across processes
            acc += h / 1000.0
        if n_obj == 1:
            return acc
        return [acc, 1.0 - acc / max(len(params), 1)][:n_obj] + [0.5] * max(n_obj - 2, 0)

    for i in range(case["n_trials"]):
        if i in enq:
            with warnings.catch_warnings():
                warnings.simplefilter("ignore")
                study.enqueue_trial(enq[i])
        try:
            with warnings.catch_warnings():
                warnings.simplefilter("ignore")
                study.optimize(objective, n_trials=1)
        except Exception as e:
            if spec["kind"] in ("grid", "brute") and isinstance(e, (RuntimeError,)):
                break
            cx.viol("crash", "%s sampler crashed in trial %d: %s" % (spec["kind"], i, traceback.format_exc()[-700:]))
            return
        if spec["kind"] in ("grid", "brute") and getattr(study, "_stop_flag", False):
            break
    frozen = {t.number: t for t in study.get_trials(deepcopy=False)}
    model_based = 0
    for e in log:
        d = K.build(e["dist"])
        v, tn, name = e["v"], e["trial"], e["name"]
        cx.count("run:suggest")
        cx.count("run:%s:%s" % (spec["kind"], type(d).__name__[:3]))
        ft = frozen[tn]
        fixed_here = dict(partial_fixed)  # PartialFixedSampler answers sample_independent only ...
        fixed_here.update(ft.system_attrs.get("fixed_params", {}))  # ... an enqueued value is taken first by _suggest
        is_fixed = name in fixed_here
        if is_fixed:
            cx.count("run:fixed-value")
            want = fixed_here[name]
            if isinstance(d, OD.IntDistribution) and isinstance(want, float) and math.isfinite(want):
                want = int(want)  # suggest_int returns int(<the enqueued value>): 3.7 is handed over as 3, never "repaired" to the grid
            if not same_value(v, want) and not (v == want):
                cx.viol("fixed-does-not-win", "%s: enqueued/fixed %r = %r but suggest returned %r" % (spec["kind"], name, fixed_here[name], v))
        contained_fixed = True
        if is_fixed:
            try:
                contained_fixed = bool(d._contains(d.to_internal_repr(fixed_here[name])))
            except Exception:
                contained_fixed = False
        if not (is_fixed and not contained_fixed):
            why = member(d, v)
            if why is not None:
                # (TPE's continuous path used to return ppf(q) * sigma + mu unclipped - defect F33, repaired in /repo
                # 56cb744; a value even one ulp outside [low, high] is a violation again)
                cx.viol("outside-domain", "%s sampler, trial %d: suggest(%r, %r) = %r: %s" % (spec["kind"], tn, name, d, v, why))
                continue
            if isinstance(d, OD.IntDistribution) and (isinstance(v, bool) or not isinstance(v, int)):
                cx.viol("outside-domain", "%s sampler: suggest_int returned %r of type %s" % (spec["kind"], v, type(v).__name__))
            if isinstance(d, OD.FloatDistribution) and not is_fixed and not isinstance(v, float):
                cx.viol("outside-domain", "%s sampler: suggest_float returned %r of type %s" % (spec["kind"], v, type(v).__name__))
        if not same_value(e["again"], v):
            cx.viol("same-name-different-value", "%s sampler, trial %d: %r gave %r then %r" % (spec["kind"], tn, name, v, e["again"]))
        if not same_value(e["cached"], v):
            cx.viol("cached-differs", "%s sampler, trial %d: returned %r, trial.params %r" % (spec["kind"], tn, v, e["cached"]))
        for where, sv in (("during the trial", e["stored_now"]), ("after the study", ft.params.get(name, "<missing>"))):
            if not (same_value(sv, v) or (not isinstance(sv, str) and not isinstance(v, str) and sv == v) or OD._categorical_choice_equal(sv, v)):
                if is_fixed and not contained_fixed:
                    cx.count("run:uncontained-fixed-stored-differently")
                else:
                    cx.viol("stored-differs", "%s sampler on %s, trial %d: returned %r for %r but the storage holds %r %s" % (
                        spec["kind"], case["storage"], tn, v, name, sv, where))
        if tn >= spec.get("startup", 3) and spec["kind"] not in ("random", "grid", "brute"):
            model_based += 1
    if model_based:
        cx.nontrivial = True
        cx.count("run:post-startup-suggests", model_based)
    cx.count("run:trials", len(frozen))


def degenerate(c: dict[str, Any]) -> bool:
    """a non-single float range that has zero (or subnormal) width in the space the samplers work in: linear width
    below 1e-300, or log(low) and log(high) fewer than 16 ulp apart.  There TPE's bandwidth underflows to 0 and, at an
    extreme quantile, it answers NaN (-> ValueError from suggest); observed only with the RNG stub, reported as an
    observation, kept out of the generated cases."""
    if "Float" not in c["cls"] or c["high"] == c["low"]:
        return False
    if c.get("log"):
        a, b = math.log(c["low"]), math.log(c["high"])
        return b - a < 16 * K.ulp(max(abs(a), abs(b)))
    return c["high"] - c["low"] < 1e-300


def gen_param(r: random.Random, i: int, finite: bool = False, allow_dynamic: bool = True) -> dict[str, Any]:
    p = _gen_param(r, i, finite, allow_dynamic)
    vs = [v for v in p["variants"] if not degenerate(v)]
    p["variants"] = vs or [{"cls": "FloatDistribution", "low": 1.0, "high": 1.0 + 2.0 ** -44, "log": True, "step": None}]
    return p


def _gen_param(r: random.Random, i: int, finite: bool = False, allow_dynamic: bool = True) -> dict[str, Any]:
    name = "p%d" % i
    k = r.random()
    variants: list[dict[str, Any]] = []
    if k < 0.4:
        m = r.random()
        if finite or m < 0.35:  # stepped float
            nst = r.choice([1, 2, 3, 7, 11]) if finite else r.choice([1, 2, 3, 7, 100, 100000])
            e = r.randint(-9, 3)
            st = r.randint(1, 999)
            lo = r.randint(-10 ** 6, 10 ** 6)
            extra = r.randint(0, st - 1) if r.random() < 0.5 else 0
            c = {"cls": "FloatDistribution", "low": K.dec_float(lo, e), "high": K.dec_float(lo + nst * st + extra, e), "log": False, "step": K.dec_float(st, e)}
        elif m < 0.6:  # log float, sometimes a range near 1
            lo = r.choice([1e-8, 1e-3, 0.5, 1.0, 3.7, 1e5, 1e-290])
            c = {"cls": "FloatDistribution", "low": lo, "high": lo * r.choice([1.0 + 2 ** -50, 1.0000001, 2.0, 1e3, 1e9]), "log": True, "step": None}
        else:  # plain float: tiny / huge / negative ranges
            # (subnormal widths are left out: there 0.2 * (high - low) underflows to 0 inside TPE's bandwidth and the
            # sampler answers NaN -> ValueError; reported as an observation, not part of "tiny ranges")
            lo = r.choice([0.0, -1.0, -1e-290, 1e-290, -1e300, 123.456, -7.25e10, 1.0])
            w = r.choice([0.0, 1e-280, 1e-12, 1.0, 1e3, 1e300, abs(lo) * 2 ** -50, abs(lo) * 2 ** -52])
            hi = lo + w
            if not math.isfinite(hi):
                hi = 1e300
            c = {"cls": "FloatDistribution", "low": lo, "high": max(hi, lo), "log": False, "step": None}
        variants.append(c)
    elif k < 0.8:
        m = r.random()
        if m < 0.25:
            lo = r.choice([1, 2, 7, 1000])
            c = {"cls": "IntDistribution", "low": lo, "high": lo + r.choice([0, 1, 3, 50] if finite else [0, 1, 3, 50, 10 ** 6]), "log": True, "step": 1}
        else:
            lo = r.choice([0, -5, -10 ** 9, 10 ** 12, 3])
            st = r.choice([1, 1, 2, 3, 10, 7])
            nst = r.choice([0, 1, 2, 5] if finite else [0, 1, 2, 5, 1000, 10 ** 9])
            c = {"cls": "IntDistribution", "low": lo, "high": lo + nst * st + r.choice([0, st - 1]), "log": False, "step": st}
        variants.append(c)
    else:
        c = K.gen_cat(r)
        c["choices"] = c["choices"][:4]
        variants.append(with_falsy_choice(c, r))
    if allow_dynamic and r.random() < 0.4 and "Categorical" not in variants[0]["cls"]:
        c0 = variants[0]
        c1 = dict(c0)
        if "Int" in c0["cls"]:
            c1["high"] = c0["low"] + max((c0["high"] - c0["low"]) // 3, 0)
        else:
            c1["high"] = c0["low"] + (c0["high"] - c0["low"]) / 3
        c2 = dict(c0)
        if "Int" in c0["cls"]:
            c2["low"] = c0["low"] + (c0["high"] - c0["low"]) // 2
        else:
            c2["low"] = c0["low"] + (c0["high"] - c0["low"]) / 2
        for cc in (c1, c2):
            try:
                K.build(cc)
                if r.random() < 0.7:
                    variants.append(cc)
            except Exception:
                pass
    return {"name": name, "variants": variants}


SAMPLER_SPECS: list[dict[str, Any]] = [
    {"kind": "random"},
    {"kind": "tpe"},
    {"kind": "tpe", "multivariate": True},
    {"kind": "tpe", "multivariate": True, "group": True},
    {"kind": "tpe", "liar": True, "endpoints": True},
    {"kind": "nsga2"},
    {"kind": "nsga3"},
    {"kind": "qmc", "qmc": "sobol"},
    {"kind": "qmc", "qmc": "halton", "scramble": False},
    {"kind": "grid"},
    {"kind": "brute"},
    {"kind": "partial", "base": {"kind": "random"}},
    {"kind": "partial", "base": {"kind": "tpe", "multivariate": True}},
    {"kind": "gp"},
]


def gen_run(r: random.Random, spec: dict[str, Any], quick: bool) -> dict[str, Any]:
    spec = json.loads(json.dumps(spec))
    spec["seed"] = r.randrange(2 ** 31)
    kind = spec["kind"]
    finite = kind in ("grid", "brute") or (kind == "partial" and spec["base"]["kind"] in ("grid", "brute"))
    npar = r.randint(2, 3) if kind in ("gp", "brute", "grid") else r.randint(3, 6)
    params = [gen_param(r, i, finite=finite, allow_dynamic=kind not in ("grid", "brute")) for i in range(npar)]
    n_trials = {"gp": 6, "grid": 12, "brute": 14}.get(kind, r.randint(10, 22))
    # NSGA-II/III on a storage whose trial ids differ from trial numbers hit finding F7 (GA parent cache; property
    # C09), which is not this property's business: they run on a fresh in-memory storage
    case: dict[str, Any] = {"k": "run", "sampler": spec, "params": params, "n_trials": n_trials,
                            "storage": "mem" if kind in ("nsga2", "nsga3") else r.choice(["mem", "mem", "sqlite"]), "n_obj": 2 if kind in ("nsga2", "nsga3") and r.random() < 0.7 else 1,
                            "stub_p": r.choice([0.0, 0.3, 0.6]) if kind not in ("gp",) else r.choice([0.0, 0.3])}
    if kind == "grid":
        for p in params:
            d = K.build(p["variants"][0])
            vals = H11.values_for(d, r, 3)
            p["grid"] = list(dict((repr(v), v) for v in vals).values())
    # enqueue contained values for a few trials (and sometimes one that is out of range: optuna only warns)
    enq: dict[str, Any] = {}
    if kind not in ("grid", "brute"):
        for t in r.sample(range(n_trials), k=min(3, n_trials)):
            fx = {}
            for p in params:
                if r.random() < 0.5:
                    d = K.build(p["variants"][t % len(p["variants"])])
                    f = falsy_member(d, r) if r.random() < 0.35 else "<none>"
                    fx[p["name"]] = H11.values_for(d, r, 1)[0] if isinstance(f, str) and f == "<none>" else f
                    off = off_grid_in_range(d, r)
                    if off is not None and r.random() < 0.2 and kind != "gp":
                        # (not for GP: its discrete line search asserts that every observed value of a stepped parameter
                        # lies on the grid, so an enqueued off-grid value - invalid input that optuna warns about - makes a
                        # LATER trial die with an AssertionError; recorded as an observation in DESIGN.md, not C10's subject)
                        fx[p["name"]] = off
            if fx:
                enq[str(t)] = fx
    case["enqueue"] = enq
    if kind == "partial":
        p0 = params[0]
        d0 = K.build(p0["variants"][0])
        p0["variants"] = p0["variants"][:1]
        spec["fixed"] = [[p0["name"], H11.values_for(d0, r, 1)[0]]]
    return case


# ---------------------------------------------------------------------------------------------------------------
EVAL = {"script": lambda cx, c, r, tmp: eval_script(cx, c, tmp), "probe": lambda cx, c, r, tmp: eval_probe(cx, c, r),
        "run": lambda cx, c, r, tmp: eval_run(cx, c, tmp)}


def run_case(drv: core.Driver, case: dict[str, Any], seed: int, tmp: str) -> H11.Ctx:
    cx = H11.Ctx(drv)
    r = random.Random(H11.case_seed(case))  # derived from the case itself, so that a replay sees the same probes
    try:
        EVAL[case["k"]](cx, case, r, tmp)
    except core.DriverBroken:
        raise
    except Exception as e:
        cx.viol("crash", "%s on case %s: %s" % (type(e).__name__, json.dumps(case, default=str)[:300], traceback.format_exc()[-700:]))
    return cx


def _pool_worker(args: tuple[list[dict[str, Any]], int, str]) -> list[dict[str, Any]]:
    cases, seed, tmp = args
    warnings.simplefilter("ignore")
    drv = core.Driver(SG.DRIVER)
    out = []
    r = random.Random(seed)
    try:
        for case in cases:
            try:
                import time as _t
                t0 = _t.time()
                cx = run_case(drv, case, r.randrange(2 ** 32), tmp)
                tag = case["k"] + (":" + case["sampler"]["kind"] if case["k"] == "run" else "")
                cx.counts["ms:" + tag] = cx.counts.get("ms:" + tag, 0) + int(1000 * (_t.time() - t0))
                out.append({"case": case, "counts": cx.counts, "nontrivial": cx.nontrivial,
                            "findings": [{"sev": f.sev, "kind": f.kind, "msg": f.msg} for f in cx.findings]})
            except core.DriverBroken as e:
                out.append({"case": case, "counts": {}, "nontrivial": False, "driver_broken": str(e)[:500], "findings": []})
                drv = core.Driver(SG.DRIVER)
    finally:
        drv.close()
    return out


def run_jobs(jobs: list[tuple[list[dict[str, Any]], int, str]], timeout: float) -> list[list[dict[str, Any]]]:
    """the chunks in a process pool; a chunk whose worker dies (the kernel's OOM killer on a loaded machine) or
    does not answer in time is run again in this process, so a lost worker can neither hang nor silently shrink the run"""
    import concurrent.futures as cf
    import multiprocessing as mp

    results: list[Any] = [None] * len(jobs)
    try:
        with cf.ProcessPoolExecutor(max_workers=len(jobs), mp_context=mp.get_context("spawn")) as ex:
            futs = {ex.submit(_pool_worker, j): i for i, j in enumerate(jobs)}
            try:
                for f in cf.as_completed(futs, timeout=timeout):
                    try:
                        results[futs[f]] = f.result()
                    except Exception:
                        pass
            except cf.TimeoutError:
                for f in futs:
                    f.cancel()
                raise core.InfraError("sampler runs did not finish within %d s" % timeout)
    except cf.process.BrokenProcessPool:
        pass
    for i, j in enumerate(jobs):
        if results[i] is None:
            results[i] = _pool_worker(j)
    return results


def gen_cases(r: random.Random, quick: bool) -> list[dict[str, Any]]:
    cases: list[Any] = list(core.corpus_cases("C10"))
    n_script, n_probe, reps = (150, 150, 1) if quick else (3000, 3000, 10)
    cases += [H11._safe(gen_script, r) for _ in range(n_script)]
    cases += [H11._safe(gen_probe, r) for _ in range(n_probe)]
    for _ in range(reps):
        for spec in SAMPLER_SPECS:
            k = 1 if spec["kind"] == "gp" else 2
            cases += [H11._safe(gen_run, r, spec, quick) for _ in range(k)]
    return [c for c in cases if c is not None]


def absorb(chk: core.Check, res: dict[str, Any]) -> None:
    case = res["case"]
    for k, v in res["counts"].items():
        chk.count(k, v)
    chk.case(case, nontrivial=res["nontrivial"])
    chk.count("cases:" + case["k"])
    if "driver_broken" in res:
        chk.broke("correspondence", {"driver": res["driver_broken"], "case": case})
    for f in res["findings"]:
        if f["sev"] == "violation":
            chk.violation({"kind": f["kind"]}, {"case": case}, f["msg"])
        elif f["sev"] == "known":
            if chk.hist.get("known:" + f["kind"], 0) < 25:
                chk.violation({"kind": f["kind"]}, {"case": case}, f["msg"])
            chk.count("known:" + f["kind"])
        else:
            chk.broke("correspondence", {"kind": f["kind"], "msg": f["msg"][:600], "case": case})


def search(chk: core.Check) -> None:
    from verif.props import c15_nsga
    c15_nsga.search(chk)
    if chk.violations:
        return
    SG.search(chk)  # the public suggest_* API / FixedTrial / FrozenTrial against the model-free oracles
    if chk.violations:
        return
    r = random.Random(chk.seed * 17 + 3)
    drv = core.Driver(SG.DRIVER)
    n = 0
    try:
        cases = [H11._safe(gen_script, r) for _ in range(600)] + [H11._safe(gen_probe, r) for _ in range(600)]
        for spec in SAMPLER_SPECS:
            if spec["kind"] != "gp":
                cases += [H11._safe(gen_run, r, spec, True) for _ in range(3)]
        for case in cases:
            if case is None:
                continue
            cx = run_case(drv, case, r.randrange(2 ** 32), chk.tmp)
            n += 1
            for f in cx.findings:
                if f.sev == "violation":
                    chk.violation({"kind": f.kind}, {"case": case}, f.msg)
                    chk.search_log.append("search found a violating input after %d cases" % n)
                    return
    except core.DriverBroken as e:
        chk.search_log.append("driver broken during search: %s" % str(e)[:200])
    finally:
        drv.close()
    chk.search_log.append("search: %d further cases, no property-level failure" % n)


def main(chk: core.Check) -> int:
    import multiprocessing as mp

    chk.rule = RULE
    H11.translate(chk)  # Props/C10 depends on the generated DistInt definitions through Model/Dist
    from verif.props import c11_gen
    c11_gen.regenerate(chk)  # T-transform: the projection _untransform_numerical_param as written today (Props/C11Gen, C10Gen)
    from verif.props import c15_nsga
    c15_nsga.translate(chk)  # T-nsga2: content keys of the NSGA-II functions mirrored by Model/Nsga2.lean
    SG.regenerate(chk)  # T-suggest: Trial._suggest & co. as written today (Props/C10SuggestGen)
    from verif.props import c10_proj_gen
    from verif.props import c10_compose
    c10_proj_gen.regenerate(chk)  # T-proj: the TPE / GP / QMC / Random projections as written today (Props/C10ProjGen)
    if not getattr(chk, "no_prove", False):
        chk.prove(c11_gen.prove_modules("C10") + [SG.MODULE, c10_proj_gen.MODULE, c10_compose.MODULE])
        c11_gen.explain_proof_failure(chk)
        SG.explain_proof_failure(chk)
        c10_proj_gen.explain_proof_failure(chk)
    try:
        core.ensure_driver()
        c10_proj_gen.side_by_side(chk)  # hand models vs the evaluator of the generated formulas; real GP normalisation functions
        c10_compose.pipelines(chk, chk.tier == "quick")  # the real sampler pipelines with stubbed raw sources vs proj (composition order)
        SG.differential(chk, 300 if chk.tier == "quick" else 3000)  # generated interpreter vs hand model, synthetic inputs
        SG.correspond(chk, chk.tier == "quick")  # the real suggest_* API / FixedTrial / FrozenTrial vs hand model vs interpreter
        c15_nsga.correspond(chk, chk.tier)  # NSGA-II crossover / mutation pipeline (+ whole-sampler replay)
        quick = chk.tier == "quick"
        cases = gen_cases(chk.rng, quick)
        for tb in H11.GEN_CRASHES:
            chk.broke("correspondence", {"kind": "real code crashed while a generator was shaping a case", "traceback": tb})
        nproc = 8 if quick else 12
        weight = {"gp": 9, "qmc": 5, "tpe": 4, "partial": 4, "nsga2": 3, "nsga3": 3}
        cases.sort(key=lambda c: -(weight.get(c["sampler"]["kind"], 2) if c["k"] == "run" else 0))  # heavy cases first
        chunks = [cases[i::nproc] for i in range(nproc)]
        jobs = [(ch, chk.seed * 1009 + i, chk.tmp) for i, ch in enumerate(chunks) if ch]
        results = run_jobs(jobs, timeout=900 if quick else 3000)
        for part in results:
            for res in part:
                absorb(chk, res)
        chk.traces_validated += chk.hist.get("script:call", 0) + chk.hist.get("run:suggest", 0)
    except core.DriverBroken as e:
        chk.broke("correspondence", {"driver": str(e)[:800]})
    chk.extra["samplers_run"] = sorted({k.split(":")[1] for k in chk.hist if k.startswith("run:") and k.count(":") == 2})
    chk.extra["samplers_not_available"] = ["CmaEsSampler (package cmaes is not installed)"]
    chk.assumptions += [
        "membership oracle: exact rationals; floats in [low, high]; stepped floats within max(1e-8 step, 2 ulp of max(|low|,|high|,high-low)) of a decimal grid point (what `_contains` tolerates / what a double can resolve); ints exact; log floats may leave [low, high] by <= 4 + 2|ln v| ulp (exp(log(.)) rounding, stated in the property)",
        "+-inf offered to a numeric distribution (invalid input) is outside the suggest model, whose internal values are rationals; scripts replace it by +-1e300, which takes the same 'not contained' path",
        "an enqueued / PartialFixed value that is not contained in the distribution is returned as is (optuna warns, by design) and is excluded from the membership oracle; it must still win",
        "returned == cached == stored is Python ==, or both NaN (a categorical choice may read back as an equal choice of another type, e.g. True for 1)",
        "the sampler is an arbitrary parameter of the suggest model; the projections are tied function by function, the sampler internals upstream of them are covered only by the sampler runs",
        "SQLite stands for every RDB (one database per worker process, one study per case); NSGA-II/III run on in-memory storage only (on shared storages they hit finding F7 of C09); GP runs are few (cost); CmaEsSampler is not installed",
    ]
    return chk.finish(search=search)


def replay(chk: core.Check, path: str) -> int:
    w = json.load(open(path))
    from verif.props import c15_nsga
    rc = c15_nsga.replay(chk, w)
    if rc is not None:
        return rc
    rc = SG.replay(chk, w)
    if rc is not None:
        return rc
    case = w["witness"]["case"] if "witness" in w else w["no_longer_checks"][0]["detail"]["case"]
    core.ensure_driver()
    drv = core.Driver(SG.DRIVER)
    try:
        cx = run_case(drv, case, 0, chk.tmp)
    finally:
        drv.close()
    bad = [f for f in cx.findings if f.sev in ("violation", "broke")]
    for f in bad:
        print("REPRODUCED [%s/%s]: %s" % (f.sev, f.kind, f.msg[:500]))
    if not bad:
        print("not reproduced")
    return 1 if bad else 0
