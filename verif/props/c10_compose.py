"""C10, composition (Props/C10Compose.lean): sampler path x distribution shape -> projection -> Trial._suggest.

MODULE                 "OptunaVerif.Props.C10Compose" - goes LAST in C10's chk.prove list (it imports C10Gen, C10ProjGen,
                       C10SuggestGen, C10Nsga, i.e. it is built after all four translators have regenerated their files).
pipelines(chk, quick)  K stage for the one thing the Lean file adds by hand: the ORDER in which the (translated) pieces are
                       composed along each path.  The REAL pipelines are run end to end with their raw sources stubbed
                         transform: _SearchSpaceTransform({x: d}); lo + u (hi - lo); .untransform(.)["x"]      (QMC / Random hand-off)
                         tpe:       TPESampler._sample(study, trial, {x: d}) on an empty history with `_truncnorm.rvs` answering
                                    the chosen draw / `rng.rand` the chosen quantile (kernel choice, weights and the
                                    acquisition argmax are irrelevant: every candidate is the same draw)
                         gp:        get_unnormalized_param({x: d}, [x]) with x = the REAL normalize_one_param of a grid
                                    point (`OnGrid`) / the REAL round_one_normalized_param of a Sobol-like coordinate
                       and compared (==) with a float mirror of `proj` that follows the Lean definitions `projTransform`,
                       `tpeVal`, `gpVal` line by line (np.log / np.exp / math.log as the code uses them).  A difference is
                       chk.broke("correspondence").  For raws that meet `Pre` the result is also put through the model-free
                       membership oracle of C10 (`c10.member`): a non-member on the transform / tpe path (the independent
                       branch of `_suggest` is unguarded) is chk.violation, on the gp path (relative only: `_suggest` tests
                       the value) chk.broke.
                       The four "Pre is needed" witnesses of the Lean file are replayed on the real code with the values
                       the theorems state.
"""
from __future__ import annotations

import math
from typing import Any

import numpy as np

from verif import core

MODULE = "OptunaVerif.Props.C10Compose"
RAISED = "<the real code raised>"  # sentinel (compared by identity)


# ---------------------------------------------------------------------------------------------------------------
# float mirror of `proj` (Props/C10Compose.lean), definition by definition
# ---------------------------------------------------------------------------------------------------------------
def _clip(x: float, lo: float, hi: float) -> float:
    return float(min(max(x, lo), hi))


def _disc(low: float, high: float, step: float, s: float) -> float:  # Suggest.tpeDisc
    return _clip(low + float(np.round((s - low) / step)) * step, low, high)


def mirror_transform(d: Any, us: list[float]) -> Any:  # projTransform: boundsOf c0, unscale01, decode c0
    from optuna import distributions as OD

    if isinstance(d, OD.CategoricalDistribution):
        if len(us) != len(d.choices):
            return RAISED
        cols = [0.0 + u * (1.0 - 0.0) for u in us]
        return d.choices[int(np.argmax(np.array(cols)))]
    if len(us) != 1:
        return RAISED
    tn = (lambda v: math.log(v)) if d.log else (lambda v: float(v))
    if isinstance(d, OD.FloatDistribution):
        h = 0.5 * d.step if d.step is not None else 0.0
        lo, hi = tn(d.low) - h, tn(d.high) + h
    else:
        h = 0.5 * d.step
        lo, hi = (tn(d.low - h), tn(d.high + h)) if d.log else (tn(d.low) - h, tn(d.high) + h)
    x = lo + us[0] * (hi - lo)
    if isinstance(d, OD.FloatDistribution):
        if d.step is not None and not d.log:
            return _clip(float(np.round((x - d.low) / d.step)) * d.step + d.low, d.low, d.high)
        p = math.exp(x) if d.log else x
        return p if d.single() else float(min(p, np.nextafter(d.high, d.high - 1)))
    if d.log:
        return int(_clip(float(np.round(math.exp(x))), d.low, d.high))
    return int(_clip(float(np.round((x - d.low) / d.step)) * d.step + d.low, d.low, d.high))


def mirror_tpe(d: Any, s: float, q: float, cum: list[float] | None) -> Any:  # tpeVal + to_external_repr
    from optuna import distributions as OD

    if isinstance(d, OD.CategoricalDistribution):
        assert cum is not None
        c = list(cum[:-1]) + [1.0]
        i = sum(1 for w in c if w < q)
        return d.choices[i] if i < len(d.choices) else RAISED
    if isinstance(d, OD.FloatDistribution):
        if d.log:
            h = d.step / 2 if d.step is not None else 0.0
            lo, hi = (np.log(d.low - h), np.log(d.high + h)) if d.step is not None else (np.log(d.low), np.log(d.high))
            return float(np.exp(_clip(s, float(lo), float(hi))))
        if d.step is None:
            return _clip(s, d.low, d.high)
        return _disc(d.low, d.high, d.step, s)
    if d.log:
        res = float(np.exp(_clip(s, float(np.log(d.low - d.step / 2)), float(np.log(d.high + d.step / 2)))))
        return int(_disc(d.low, d.high, d.step, res))
    return int(_disc(d.low, d.high, d.step, _disc(d.low, d.high, d.step, s)))


def mirror_gp(d: Any, x: float) -> Any:  # gpVal + to_external_repr
    from optuna import distributions as OD

    if isinstance(d, OD.CategoricalDistribution):
        i = int(x)
        return d.choices[i] if 0 <= i < len(d.choices) else RAISED
    step = 0.0 if d.step is None else d.step
    lo, hi = d.low - 0.5 * step, d.high + 0.5 * step
    if d.log:
        lo, hi = math.log(lo), math.log(hi)
    y = x * (hi - lo) + lo
    if d.log:
        y = float(np.exp(y))
    v = _clip(y, d.low, d.high)
    return round(v) if isinstance(d, OD.IntDistribution) else v


# ---------------------------------------------------------------------------------------------------------------
# the real pipelines with stubbed raw sources
# ---------------------------------------------------------------------------------------------------------------
class _Rng:
    def __init__(self, q: float) -> None:
        self.q = q

    def choice(self, n: Any, p: Any = None, size: Any = None) -> np.ndarray:
        return np.zeros(size, dtype=int)

    def rand(self, *shape: int) -> np.ndarray:
        return np.full(shape, self.q)


def real_transform(d: Any, us: list[float]) -> Any:
    from optuna._transform import _SearchSpaceTransform

    try:
        t = _SearchSpaceTransform({"x": d})
        sample = np.array([us])
        sample = t.bounds[:, 0] + sample * (t.bounds[:, 1] - t.bounds[:, 0])  # QMCSampler.sample_relative
        v = t.untransform(sample[0, :])["x"]
    except (ValueError, AssertionError, IndexError):
        return RAISED
    return v.item() if isinstance(v, np.generic) else v


def real_tpe(d: Any, s: float, q: float) -> Any:
    import optuna
    from optuna.samplers import TPESampler
    from optuna.samplers._tpe import probability_distributions as PD

    study = optuna.create_study(sampler=optuna.samplers.RandomSampler(seed=0))
    sm = TPESampler(seed=0, n_ei_candidates=3)
    sm._rng._rng = _Rng(q)  # type: ignore[assignment]
    old = PD._truncnorm.rvs
    PD._truncnorm.rvs = lambda a, b, loc, scale, random_state: np.full(np.shape(loc), float(s))  # type: ignore[assignment]
    try:
        tr = optuna.trial.create_trial(state=optuna.trial.TrialState.RUNNING, params={}, distributions={}, value=None)
        v = sm._sample(study, tr, {"x": d})["x"]
    except IndexError:
        return RAISED
    finally:
        PD._truncnorm.rvs = old  # type: ignore[assignment]
    return v.item() if isinstance(v, np.generic) else v


def real_gp(d: Any, x: float) -> Any:
    from optuna._gp.search_space import get_unnormalized_param

    try:
        v = get_unnormalized_param({"x": d}, np.array([x]))["x"]
    except IndexError:
        return RAISED
    return v.item() if isinstance(v, np.generic) else v


def _same(a: Any, b: Any) -> bool:
    if isinstance(a, float) and isinstance(b, float) and math.isnan(a) and math.isnan(b):
        return True
    return type(a) is type(b) and a == b or (a is b)


def _dists(r: Any, n: int) -> list[Any]:
    from optuna import distributions as OD

    out: list[Any] = [
        OD.FloatDistribution(0.0, 3.0), OD.FloatDistribution(123.456, 1123.456), OD.FloatDistribution(2.0, 2.0),
        OD.FloatDistribution(1e-3, 10.0, log=True), OD.FloatDistribution(0.999, 1.001, log=True), OD.FloatDistribution(3.0, 3.0, log=True),
        OD.FloatDistribution(0.0, 1.0, step=0.25), OD.FloatDistribution(0.0, 1.0, step=0.3), OD.FloatDistribution(-2.5, -2.0, step=2.0),
        OD.IntDistribution(0, 10), OD.IntDistribution(1, 9, step=4), OD.IntDistribution(0, 12, step=5),
        OD.IntDistribution(-1220944962, -1220944887, step=5), OD.IntDistribution(1, 8, log=True), OD.IntDistribution(7, 7),
        OD.IntDistribution(414926, 414927, log=True), OD.CategoricalDistribution(["a", "b", None]), OD.CategoricalDistribution([1.5]),
        OD.CategoricalDistribution([True, 1, float("nan"), "x"]),
    ]
    for _ in range(n):
        k = r.randrange(6)
        if k == 0:
            lo = r.uniform(-1e3, 1e3); out.append(OD.FloatDistribution(lo, lo + r.choice([0.0, 1e-9, 1.0, 1e6])))
        elif k == 1:
            lo = 10.0 ** r.uniform(-8, 3); out.append(OD.FloatDistribution(lo, lo * r.choice([1.0, 1.0000001, 3.0, 1e5]), log=True))
        elif k == 2:
            lo = r.randrange(-50, 50) / 8; st = r.choice([0.125, 0.3, 1.0, 2.5]); out.append(OD.FloatDistribution(lo, lo + r.uniform(0, 9), step=st))
        elif k == 3:
            lo = r.randrange(-10**9, 10**9); out.append(OD.IntDistribution(lo, lo + r.randrange(0, 200), step=r.choice([1, 1, 2, 5, 7, 10])))
        elif k == 4:
            lo = r.randrange(1, 10**6); out.append(OD.IntDistribution(lo, lo + r.randrange(0, 10**3), log=True))
        else:
            out.append(OD.CategoricalDistribution([r.choice(["a", "b", None, 0, 1.5, False]) for _ in range(r.randrange(1, 6))]))
    return out


def pipelines(chk: core.Check, quick: bool) -> None:
    import time
    import warnings

    t0 = time.time()
    with warnings.catch_warnings(), np.errstate(all="ignore"):
        warnings.simplefilter("ignore")
        _pipelines(chk, quick)
    chk.extra["compose_pipeline_wall_s"] = round(time.time() - t0, 2)


def _pipelines(chk: core.Check, quick: bool) -> None:
    from optuna import distributions as OD
    from optuna._gp.search_space import ScaleType, normalize_one_param, round_one_normalized_param
    from verif.props import c10 as H10

    r = chk.rng
    n = 0

    def judge(path: str, d: Any, raw: Any, real: Any, mir: Any, pre: bool) -> None:
        nonlocal n
        n += 1
        chk.count("compose:%s:%s" % (path, type(d).__name__ + (":log" if getattr(d, "log", False) else "") + (":step" if getattr(d, "step", None) not in (None, 1) else "")))
        case = {"k": "compose", "path": path, "dist": repr(d), "raw": raw, "pre": pre}
        chk.case(case, nontrivial=pre)
        if not _same(real, mir):
            chk.broke("correspondence", {"stage": "compose", "case": case, "real_pipeline": repr(real), "mirror_of_proj": repr(mir)})
            return
        if pre:
            why = "the real code raised" if real is RAISED else H10.member(d, real)
            if why is not None:
                msg = "%s path, raw %r meeting the precondition of Props/C10Compose.lean, %r gives %r: %s" % (path, raw, d, real, why)
                if path == "gp":
                    chk.broke("correspondence", {"stage": "compose", "case": case, "not_a_member": msg})
                else:
                    chk.violation({"property": "C10", "kind": "projection-not-member", "path": path, "shape": type(d).__name__}, case, msg)

    us_b = [0.0, 1.0, 0.5, 2.0 ** -53, 1.0 - 2.0 ** -53, 1 / 3]
    for d in _dists(r, 25 if quick else 400):
        cat = isinstance(d, OD.CategoricalDistribution)
        # transform: u in [0, 1] (Pre) and one outside (no Pre)
        for _ in range(4):
            us = [r.choice(us_b + [r.random()]) for _ in range(len(d.choices) if cat else 1)]
            judge("transform", d, us, real_transform(d, us), mirror_transform(d, us), True)
        us = [r.choice([-0.1, 1.25]) for _ in range(len(d.choices) if cat else 1)]
        judge("transform", d, us, real_transform(d, us), mirror_transform(d, us), False)
        # tpe: any draw (Pre holds for every draw); categorical: quantile in [0, 1)
        if cat:
            nch = len(d.choices)
            cum = list(np.cumsum(np.full((1, nch), fill_value=1.0 / nch), axis=-1)[0])
            for q in (0.0, 1.0 - 2.0 ** -53, r.random(), 1.0 / nch):
                judge("tpe", d, {"q": q}, real_tpe(d, 0.0, q), mirror_tpe(d, 0.0, q, cum), True)
        else:
            span = float(d.high) - float(d.low)
            lg = getattr(d, "log", False)
            pts = [float(d.low), float(d.high), float(np.nextafter(d.low, -np.inf)), float(np.nextafter(d.high, np.inf)), d.low - 10 * span - 1, d.high + 10 * span + 1, d.low + r.random() * span]
            for s in pts:
                s2 = float(np.log(s)) if lg and s > 0 else (-50.0 if lg else s)
                judge("tpe", d, {"s": s2}, real_tpe(d, s2, 0.0), mirror_tpe(d, s2, 0.0, None), True)
        # gp
        if cat:
            for i in range(len(d.choices)):
                judge("gp", d, {"x": float(i)}, real_gp(d, float(i)), mirror_gp(d, float(i)), True)
        else:
            st = ScaleType.LOG if d.log else ScaleType.LINEAR
            step = 0.0 if d.step is None else float(d.step)
            if step == 0.0:
                for x in (0.0, 1.0, -3.0, 2.0, r.random()):
                    judge("gp", d, {"x": x}, real_gp(d, x), mirror_gp(d, x), True)
            else:
                kmax = int(round((d.high - d.low) / d.step))
                for k in sorted({0, kmax, r.randrange(0, kmax + 1)}):
                    g = d.low + k * d.step
                    x = float(normalize_one_param(np.array([float(g)]), st, (float(d.low), float(d.high)), step)[0])  # OnGrid (b)
                    judge("gp", d, {"x": x, "grid": k}, real_gp(d, x), mirror_gp(d, x), True)
                for u in (0.0, 1.0 - 2.0 ** -53, r.random()):
                    x = float(round_one_normalized_param(np.array([u]), st, (float(d.low), float(d.high)), step)[0])  # OnGrid (a)
                    judge("gp", d, {"x": x, "sobol": u}, real_gp(d, x), mirror_gp(d, x), True)
                x = r.random()
                judge("gp", d, {"x": x, "box_only": True}, real_gp(d, x), mirror_gp(d, x), isinstance(d, OD.IntDistribution) and d.step == 1)
    # the "Pre is needed" witnesses of the Lean file, with the values the theorems state
    want = [
        ("transform_pre_needed", real_transform(OD.FloatDistribution(0, 1), [-0.1]), -0.1),
        ("gp_box_alone_not_enough(int)", real_gp(OD.IntDistribution(0, 10, step=5), 0.4), 4),
        ("gp_box_alone_not_enough(float)", real_gp(OD.FloatDistribution(0, 1, step=0.25), 0.4), 0.375),
        ("gp OnGrid 5/6", real_gp(OD.IntDistribution(0, 10, step=5), 5 / 6), 10),
        ("gp OnGrid 7/10", real_gp(OD.FloatDistribution(0, 1, step=0.25), 0.7), 0.75),
        ("tpe_cat_pre_needed q=2", real_tpe(OD.CategoricalDistribution(["a", "b"]), 0.0, 2.0), RAISED),
        ("tpe cat q=1", real_tpe(OD.CategoricalDistribution(["a", "b"]), 0.0, 1.0), "b"),
    ]
    for name, got, exp in want:
        chk.count("compose:witness")
        if not _same(got, exp) and not (isinstance(got, float) and isinstance(exp, float) and abs(got - exp) < 1e-12):
            chk.broke("correspondence", {"stage": "compose-witness", "theorem": name, "real": repr(got), "lean": repr(exp)})
    chk.extra["compose_pipeline_cases"] = n
    a = ("C10Compose: the raw sources themselves are trusted to stay in their documented ranges (rng.uniform / rng.rand / Sobol / Halton in "
         "[0, 1); optim_mixed writes a stepped GP coordinate only from rounded Sobol points, normalised grid points and normalised "
         "earlier parameters - read, not translated); exp(log(x)) = x is exact in the Lean statement, within a few ulp in doubles")
    if a not in chk.assumptions:
        chk.assumptions.append(a)
