"""C10, translator tie T-proj: the projections at the end of the TPE / GP / QMC / Random sampler paths as written in the
source today -> Lean data (Generated/ProjGen.lean) -> proved equal to the hand models (Props/C10ProjGen.lean).

regenerate(chk)            run verif/translators/tproj.py on core.REPO, write lean/OptunaVerif/Generated/ProjGen.lean (only
                           when the text changed), record what was read; an untranslatable source is chk.broke("translation").
                           Call it BEFORE chk.prove([..., MODULE]).
MODULE                     "OptunaVerif.Props.C10ProjGen"
explain_proof_failure(chk) after a failed chk.prove: the NAMED declarations of Props/C10ProjGen.lean that no longer check.
side_by_side(chk)          driver `projgen`: every projection on boundary raw numbers, hand model and evaluator of the generated
                           formula side by side (field "gen" must be null), and the GP normalisation functions
                           (`unnormalize_one_param`, `normalize_one_param`, `round_one_normalized_param`, linear scale, dyadic
                           inputs) of the REAL code against the hand models of Model/ProjIR.lean, exactly.
"""
from __future__ import annotations

import os
import re
from fractions import Fraction
from typing import Any

from verif import core
from verif.translators import tproj

OUT = os.path.join(core.LEAN_DIR, tproj.OUT_REL)
MODULE = "OptunaVerif.Props.C10ProjGen"
DRIVER = "projgen"

ASSUMPTION = ("T-proj: the IR's primitives mean what the hand models mean by them (np.exp / np.log / math.log = the abstract "
              "monotone pair, np.round and builtin round = round half to even, int() = truncation, np.clip = min(max(.)), np.floor and "
              "// = floor, np.cumsum / np.sum(cum < q) = count of cumulative weights below q); the hand-off call shapes of "
              "TPESampler._sample, QMCSampler.sample_relative, RandomSampler.sample_independent are pinned as text; _truncnorm.rvs, "
              "the kernel construction and the acquisition argmax are arbitrary inputs of the projections; float rounding is outside the IR")


def regenerate(chk: core.Check | None = None) -> dict[str, Any] | None:
    try:
        text, info = tproj.translate(core.REPO)
    except (tproj.Untranslatable, SyntaxError, OSError, IndexError, AttributeError, KeyError, StopIteration) as e:
        if chk is None:
            raise
        chk.broke("translation", {"translator": "T-proj", "sources": sorted(tproj.SOURCES.values()), "why": ("%s: %s" % (type(e).__name__, e))[:600]})
        return None
    changed = core.write_if_changed(OUT, text)
    if chk is not None:
        chk.translated.append(
            "T-proj: parzen_estimator._is_log/_transform/_untransform/_calculate_distributions/_calculate_numerical_distributions, "
            "probability_distributions._MixtureOfProductDistribution.sample (3 arms), TPESampler._sample hand-off, _gp/search_space "
            "(un)normalize_one_param/round_one_normalized_param/sample_normalized_params/get_unnormalized_param, QMC/Random hand-off "
            "-> lean/OptunaVerif/Generated/ProjGen.lean%s" % (" (file changed)" if changed else ""))
        chk.extra["proj_ir"] = {"sha1_of_sources": info["sha1_of_sources"], "shapes": info["shapes"],
                                "fields": {k: (v if len(v) <= 300 else v[:300] + " ...") for k, v in info["fields"].items()}}
        if ASSUMPTION not in chk.assumptions:
            chk.assumptions.append(ASSUMPTION)
    return info


def explain_proof_failure(chk: core.Check) -> list[str]:
    pr = chk.proof
    if pr is None or pr.ok:
        return []
    rel = MODULE.replace(".", "/") + ".lean"
    short = rel.split("OptunaVerif/", 1)[1]
    lines = sorted({int(m.group(1)) for m in re.finditer(re.escape(short) + r":(\d+):\d+: error", pr.build_log)}
                   | {int(m.group(1)) for m in re.finditer(r"error: \S*" + re.escape(short) + r":(\d+):", pr.build_log)})
    names: list[str] = []
    if lines:
        src = open(os.path.join(core.LEAN_DIR, rel)).read().splitlines()
        for ln in lines:
            for i in range(min(ln, len(src)) - 1, -1, -1):
                m = re.match(r"\s*(?:theorem|def|example)\b\s*([^\s:(]*)", src[i])
                if m:
                    name = m.group(1) or ("example at %s:%d: %s" % (short, i + 1, src[i].strip()[:90]))
                    if name not in names:
                        names.append(name)
                    break
    if names:
        chk.extra["c10projgen_failed"] = names
        chk.broke("proof", {"module": MODULE, "generated_projection_no_longer_equal_hand_model": names})
    return names


def rs(x: Any) -> str:
    q = Fraction(x)
    return "%d/%d" % (q.numerator, q.denominator)


def side_by_side(chk: core.Check, n: int | None = None) -> None:
    import numpy as np

    from verif import dist_k as K

    quick = chk.tier == "quick"
    n = n or (400 if quick else 8000)
    r = __import__("random").Random(chk.seed * 1000003 + 4242)
    reqs: list[dict[str, Any]] = []
    real: list[Any] = []
    try:
        from optuna._gp import search_space as gs
    except Exception as e:  # noqa: BLE001
        chk.broke("correspondence", {"stage": "projgen", "what": "cannot import optuna._gp.search_space: %s" % e})
        return

    def dy(lo: int, hi: int, den: int = 8) -> float:
        return r.randint(lo * den, hi * den) / den

    for _ in range(n):
        kind = r.choice(["tpeDisc", "tpeCont", "tpeInt", "catCum", "catFloor", "gpUnnorm", "gpNorm", "gpRound", "gpGet", "tpeTransform"])
        lo = dy(-8, 8)
        st = r.choice([0.25, 0.5, 1.0, 2.0, 3.0])
        hi = lo + st * r.randint(0, 6)
        s = r.choice([lo, hi, lo - dy(0, 4), hi + dy(0, 4), lo + st * (r.randint(-2, 8) + r.choice([0.0, 0.5, 0.25])), dy(-20, 20)])
        if kind == "tpeDisc":
            reqs.append({"op": kind, "low": rs(lo), "high": rs(hi), "step": rs(st), "s": rs(s)}); real.append(None)
        elif kind == "tpeCont":
            reqs.append({"op": kind, "low": rs(lo), "high": rs(hi), "s": rs(s)}); real.append(None)
        elif kind in ("tpeInt", "gpGet", "tpeTransform"):
            ilo, ist = r.randint(-9, 9), r.randint(1, 4)
            d = {"k": "int", "c": "int", "low": str(ilo), "high": str(ilo + ist * r.randint(0, 5)), "log": False, "step": str(ist)}
            if kind == "gpGet" and r.random() < 0.4:
                d = {"k": "flt", "c": "float", "low": rs(lo), "high": rs(hi), "log": False, "step": None if r.random() < 0.5 else rs(st)}
            key = "x" if kind == "gpGet" else "s"
            reqs.append({"op": kind, "d": d, key: rs(r.choice([s, dy(-2, 3, 16)]))}); real.append(None)
        elif kind == "catCum":
            m = r.randint(1, 5)
            w = [r.randint(0, 4) for _ in range(m)]
            tot = max(1, sum(w))
            cum = [Fraction(sum(w[:i + 1]), tot) for i in range(m)]
            if r.random() < 0.3:
                cum[-1] -= Fraction(1, 10 ** 6)
            q = r.choice([Fraction(0), Fraction(1), cum[r.randrange(m)], Fraction(r.randint(0, 16), 16), 1 - Fraction(1, 2 ** 53)])
            reqs.append({"op": kind, "cum": [rs(c) for c in cum], "q": rs(q)}); real.append(None)
        elif kind == "catFloor":
            reqs.append({"op": kind, "n": r.randint(0, 6), "q": rs(r.choice([Fraction(0), 1 - Fraction(1, 2 ** 53), Fraction(r.randint(0, 15), 16)]))}); real.append(None)
        else:
            sc = r.choice(["linear", "linear", "cat", "log"])
            step = r.choice([0.0, st])
            x = r.choice([0.0, 1.0, 0.5, dy(-1, 2, 16), s])
            reqs.append({"op": kind, "st": sc, "b0": rs(lo), "b1": rs(hi), "step": rs(step), "x": rs(x)})
            val = None
            if sc != "log" and not (kind == "gpRound" and sc == "cat"):
                fn = {"gpUnnorm": gs.unnormalize_one_param, "gpNorm": gs.normalize_one_param, "gpRound": gs.round_one_normalized_param}[kind]
                stype = gs.ScaleType.LINEAR if sc == "linear" else gs.ScaleType.CATEGORICAL
                try:
                    with np.errstate(all="ignore"):
                        val = float(np.asarray(fn(np.array([x]), stype, (lo, hi), step))[0])
                except Exception as e:  # noqa: BLE001
                    val = "exc:" + type(e).__name__
            real.append(val)
    ms = core.driver_batch(DRIVER, reqs)
    for req, m, rv in zip(reqs, ms, real):
        chk.count("projgen:" + req["op"])
        chk.case({"fn": "projgen", "req": req}, nontrivial=True)
        if "r" not in m:
            chk.broke("correspondence", {"stage": "projgen", "req": req, "what": "driver answer %s" % str(m)[:200]})
            continue
        if m.get("gen") is not None:
            chk.broke("correspondence", {"stage": "projgen", "req": req, "what": "generated formula and hand model disagree: %s" % m["gen"]})
            continue
        if rv is not None and not isinstance(rv, str) and rv == rv and abs(rv) != float("inf"):
            # exact on dyadic inputs unless the float division of normalize rounds: accept 1e-12 there, exact elsewhere
            hand = Fraction(m["r"]) if isinstance(m["r"], str) else Fraction(m["r"])
            err = abs(Fraction(rv) - hand)
            tol = Fraction(1, 10 ** 12) if req["op"] in ("gpNorm", "gpRound") else 0
            if err > tol * max(1, abs(hand)):
                chk.broke("correspondence", {"stage": "projgen", "req": req, "what": "real %s = %r, hand model %s" % (req["op"], rv, m["r"])})
            else:
                chk.count("projgen:real-code-compared")
        chk.traces_validated += 1
