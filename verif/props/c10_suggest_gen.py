"""C10, translator tie: the suggest path of a trial as written in the source today -> Lean data -> proved equal to the hand
models (Model/Suggest.lean, Model/SuggestApi.lean).

regenerate(chk)   run verif/translators/tsuggest.py on core.REPO, write lean/OptunaVerif/Generated/SuggestMethods.lean (only when
                  the text changed), record what was read in chk.translated / chk.extra, and report every untranslatable
                  function as chk.broke("translation", ...).  Call it BEFORE chk.prove([..., MODULE]).
MODULE            the Props module with the `interp generated = hand model` equalities and the restated C10 theorems.
DRIVER            sub-driver that speaks the protocol of `suggest` and runs the interpreter of the generated bodies side by
                  side with the hand model (field "gen" of every suggest / api / given answer).
explain_proof_failure(chk)   after a failed chk.prove: the NAMED declarations of Props/C10SuggestGen.lean that no longer check.
differential(chk, n)    seeded synthetic states / contexts / calls (no real optuna involved) through that driver: "gen" must be null.
correspond(chk, quick)  K stage: the REAL public API (`Trial.suggest_float / suggest_int / suggest_categorical`, the deprecated
                  forwards) on a real study with a scripted sampler, enqueued fixed params and a storage whose parameter write
                  can be made to raise, and the real `FixedTrial._suggest` / `FrozenTrial._suggest`, call by call against the
                  hand model AND the interpreter of the generated code: value (type-strict), exception class, warnings, sampler
                  calls, cache, stored internal value, recorded distribution.  Property oracles on the real objects, independent
                  of the model, report violations.
search(chk) / replay(chk, witness)

Used by verif/props/c10.py (helper module, like c11_gen.py / c02_gen.py).
"""
from __future__ import annotations

import json
import math
import os
import random
import re
import warnings
from fractions import Fraction
from typing import Any

from verif import core
from verif import dist_k as K
from verif.translators import tsuggest

import optuna
from optuna import distributions as OD
from optuna.samplers import BaseSampler

OUT = os.path.join(core.LEAN_DIR, "OptunaVerif", "Generated", "SuggestMethods.lean")
MODULE = "OptunaVerif.Props.C10SuggestGen"
DRIVER = "suggestgen"
ASSUMPTION = (
    "T-suggest: the IR's leaves mean what Model/SuggestIR.lean says: self._fixed_params / relative_params / relative_search_space "
    "are the trial's context (pinned texts of Trial.__init__, the relative_params property and _get_latest_trial are compared "
    "literally: `pinned_sources`); trial = self._get_latest_trial() shares the cache's dictionaries (copy.copy); to_internal_repr / "
    "_contains / __eq__ / the distribution constructors are Model/Dist.lean (tied by C11); single() and sample_independent are "
    "parameters; storage.set_trial_param either records (name, internal value, distribution) or raises and leaves the storage as it "
    "was; warnings are classified by the constant part of their message; pruners._filter_study, logging and decorators "
    "(convert_positional_args on keyword calls, deprecated_func beyond its warning) have no effect on the trial")
RULE = ("suggest-gen K cases: a context (enqueued fixed params: members, out-of-range, off-grid, falsy, None choices, integral floats "
        "for int parameters, invalid; a scripted sampler's relative search space / params incl. other ranges, other kinds, names missing "
        "from the space; scripted independent answers) + 3-8 calls of the public suggest_* API (dyadic floats so that decimal and binary "
        "views coincide; repeated names with the same / another range / another kind; invalid constructor arguments; a storage whose "
        "parameter write raises once) ; FixedTrial / FrozenTrial._suggest sequences.  Non-trivial: >= 2 different outcomes "
        "(branches / exceptions / warnings) in one case.")


# ---------------------------------------------------------------------------------------------------------------------------
# regenerate / proof failure names
# ---------------------------------------------------------------------------------------------------------------------------
def regenerate(chk: core.Check | None = None) -> dict[str, Any] | None:
    try:
        text, info, problems = tsuggest.translate(core.REPO)
    except (tsuggest.Untranslatable, SyntaxError, OSError) as e:
        if chk is None:
            raise
        chk.broke("translation", {"translator": "T-suggest", "why": str(e)[:600]})
        return None
    changed = core.write_if_changed(OUT, text)
    if chk is not None:
        fs = info["functions"]
        n_ok = sum(1 for v in fs.values() if v is not None)
        line = ("SuggestMethods: %d/%d function bodies of optuna/trial/{_trial,_fixed,_frozen}.py + optuna/distributions.py as statement IR (%s); "
                "%d pinned texts; keyword defaults of suggest_float / suggest_int / the constructors%s" % (
                    n_ok, len(fs), ", ".join("%s:%s" % (k, v) for k, v in fs.items()), len(info["pins"]), " (file changed)" if changed else ""))
        if line not in chk.translated:
            chk.translated.append(line)
        chk.extra["suggest_ir"] = {"statements": fs, "pins": info["pins"], "defaults": info["defaults"]}
        for p in problems:
            chk.broke("translation", dict(p, translator="T-suggest"))
        if ASSUMPTION not in chk.assumptions:
            chk.assumptions.append(ASSUMPTION)
    return info


def explain_proof_failure(chk: core.Check) -> list[str]:
    """after chk.prove([..., MODULE]) failed: name the declarations of Props/C10SuggestGen.lean whose proof no longer checks
    (the build log only has line numbers); recorded in chk.extra and as one more broke("proof", ...) that carries the names"""
    pr = chk.proof
    if pr is None or pr.ok:
        return []
    rel = MODULE.replace(".", "/") + ".lean"
    base = re.escape(rel.split("OptunaVerif/", 1)[1])
    lines = sorted({int(m.group(1)) for m in re.finditer(base + r":(\d+):\d+: error", pr.build_log)}
                   | {int(m.group(1)) for m in re.finditer(r"error: \S*" + base + r":(\d+):", pr.build_log)})
    if not lines:
        return []
    src = open(os.path.join(core.LEAN_DIR, rel)).read().splitlines()
    decl = re.compile(r"\s*(?:theorem|def|example|lemma)\b\s*([^\s:(]*)")
    names: list[str] = []
    for ln in lines:
        name = None
        i0 = min(ln, len(src)) - 1
        # an error reported at the doc comment of a declaration (`:= rfl` proofs) belongs to the declaration that FOLLOWS
        j = i0
        while j >= 0 and not decl.match(src[j]) and not src[j].lstrip().startswith("/--"):
            j -= 1
        rng = range(i0, len(src)) if (j >= 0 and src[j].lstrip().startswith("/--") and not decl.match(src[i0])) else range(i0, -1, -1)
        for i in rng:
            m = decl.match(src[i])
            if m:
                name = m.group(1) or ("example at line %d: %s" % (i + 1, src[i].strip()[:90]))
                break
        if name and name not in names:
            names.append(name)
    chk.extra["C10SuggestGen_failed"] = names
    chk.broke("proof", {"module": MODULE, "generated_bodies_no_longer_equal_hand_model": names})
    return names


# ---------------------------------------------------------------------------------------------------------------------------
# small vocabulary shared by the generators
# ---------------------------------------------------------------------------------------------------------------------------
NAMES = ["a", "b", "c"]
DY = [x / 8 for x in range(-24, 65)]          # dyadic: Decimal(str(x)) is the binary value
STEPS = [0.25, 0.5, 0.75, 1.0, 1.5, 2.0]
CHOICE_POOLS = [["x", "y", "z"], [None, "x"], [1, 0], [2, 0, 1], [True, False], [0.5, 1.5, 2.5], [None], ["only"], [5, 7, 9],
                [False, None, "", 0.5], [3, 1, 2, 0], ["x", 1, 2.5, None, True]]


class StorageWriteError(RuntimeError):
    pass


def exn_name(e: BaseException) -> str:
    if isinstance(e, StorageWriteError):
        return "StorageError"
    n = type(e).__name__
    return n if n in ("ValueError", "TypeError", "KeyError", "OverflowError", "IndexError", "AssertionError") else "other:" + n


def warn_kinds(ws: list[warnings.WarningMessage]) -> list[str]:
    out = []
    for w in ws:
        t = str(w.message)
        if t.startswith("Fixed parameter"):
            out.append("fixedOutOfRange")
        elif "Inconsistent parameter values" in t:
            out.append("inconsistent")
        elif "is out of the range of the distribution" in t:
            out.append("outOfRange")
        elif issubclass(w.category, FutureWarning) and "deprecated" in t:
            out.append("deprecated")
        # (the high adjustment's "range is not divisible by `step`" UserWarning is raised by the constructor: not in the IR)
    return out


def same_value(a: Any, b: Any) -> bool:
    if isinstance(a, float) and isinstance(b, float) and math.isnan(a) and math.isnan(b):
        return True
    return a is b or a == b


def member(d: OD.BaseDistribution, v: Any) -> str | None:
    from verif.props import c11 as H11
    return H11.member_exact(d, v)


def build(dc: dict[str, Any]) -> OD.BaseDistribution:
    with warnings.catch_warnings():
        warnings.simplefilter("ignore")
        if dc["fn"] == "float":
            return OD.FloatDistribution(dc["low"], dc["high"], log=dc["log"], step=dc["step"])
        if dc["fn"] == "int":
            return OD.IntDistribution(dc["low"], dc["high"], log=dc["log"], step=dc["step"])
        return OD.CategoricalDistribution(dc["choices"])


def try_build(dc: dict[str, Any]) -> OD.BaseDistribution | None:
    try:
        return build(dc)
    except Exception:  # noqa: BLE001
        return None


def gen_dist(r: random.Random, fn: str | None = None, invalid: float = 0.0) -> dict[str, Any]:
    fn = fn or r.choice(["float", "float", "int", "int", "cat"])
    if fn == "float":
        low = r.choice(DY)
        k = r.random()
        high = low if k < 0.12 else low + r.choice([0.125, 0.25, 0.5, 1.0, 2.0, 3.0, 5.5])
        step = r.choice(STEPS) if r.random() < 0.45 else None
        log = step is None and low > 0 and r.random() < 0.25
        if r.random() < invalid:
            t = r.randrange(4)
            if t == 0:
                low, high = high + 1.0, low
            elif t == 1:
                log, low = True, r.choice([0.0, -1.0])
                step = None
            elif t == 2:
                step = r.choice([0.0, -0.5])
            else:
                log, step, low, high = True, 0.5, 1.0, 4.0
        return {"fn": "float", "low": low, "high": high, "step": step, "log": log}
    if fn == "int":
        low = r.randrange(-6, 9)
        high = low if r.random() < 0.12 else low + r.choice([1, 2, 3, 5, 8, 13])
        step = r.choice([1, 1, 2, 3, 5])
        log = step == 1 and low >= 1 and r.random() < 0.25
        if r.random() < invalid:
            t = r.randrange(4)
            if t == 0:
                low, high = high + 1, low
            elif t == 1:
                log, low, step = True, r.choice([0, -2]), 1
            elif t == 2:
                step = r.choice([0, -1])
            else:
                log, step, low, high = True, 2, 1, 9
        return {"fn": "int", "low": low, "high": high, "step": step, "log": log}
    ch = list(r.choice(CHOICE_POOLS))
    if r.random() < invalid:
        ch = []
    return {"fn": "cat", "choices": ch}


def values_of(d: OD.BaseDistribution, r: random.Random) -> list[Any]:
    """a few members of the domain"""
    if isinstance(d, OD.CategoricalDistribution):
        return list(d.choices)
    if isinstance(d, OD.IntDistribution):
        n = (d.high - d.low) // d.step
        return sorted({d.low + d.step * r.randrange(0, n + 1) for _ in range(3)} | {d.low, d.high})
    if d.step is not None:
        n = int(round((d.high - d.low) / d.step))
        return sorted({d.low + d.step * r.randrange(0, n + 1) for _ in range(3)} | {d.low, d.high})
    c = [x for x in DY if d.low <= x <= d.high]
    return sorted(set(r.sample(c, min(3, len(c)))) | {d.low, d.high})


def gen_value(d: OD.BaseDistribution | None, r: random.Random, inside: float, sloppy: bool = False) -> Any:
    """a value offered for a parameter with (possibly) distribution d: member / out of range / off grid / invalid.
    `sloppy` (user input: enqueued / fixed values) also offers numerically fine values of another Python type: an integral
    float for an int parameter (enqueue_trial({"n": 4.0})), an int or bool for a float parameter; a sampler's answers
    (relative / independent) are of the parameter's own type or plainly invalid."""
    if d is None:
        return r.choice([0.5, 1, "x", None, 2.0])
    if r.random() < inside:
        v = r.choice(values_of(d, r))
        if sloppy and isinstance(d, OD.IntDistribution) and r.random() < 0.3:
            return float(v)
        if sloppy and isinstance(d, OD.FloatDistribution) and float(v).is_integer() and r.random() < 0.2:
            return int(v)
        return v
    if isinstance(d, OD.CategoricalDistribution):
        return r.choice(["not-a-choice", 12345, None, 1, 0.5, True])
    if isinstance(d, OD.IntDistribution):
        off = d.low + 1 if d.step >= 2 and d.low + 1 < d.high else d.high + 1
        return r.choice([d.low - d.step, d.high + d.step, off, "x", float("nan"), None] + ([True, float(d.high + 2)] if sloppy else []))
    off = d.low + d.step * 0.5 if d.step is not None and d.high > d.low else d.high + 0.125
    return r.choice([d.low - 1.0, d.high + 1.0, off, "x", float("nan"), None] + ([0, False] if sloppy else []))


def variant(dc: dict[str, Any], r: random.Random) -> dict[str, Any]:
    """the same kind with another range / step / log, or another kind"""
    k = r.random()
    if k < 0.4:
        return dict(dc)
    if k < 0.55:
        return gen_dist(r)
    d2 = dict(dc)
    if dc["fn"] == "cat":
        ch = list(dc["choices"])
        d2["choices"] = ch[:-1] if len(ch) > 1 and r.random() < 0.5 else ch + ["zz"] if r.random() < 0.7 else list(reversed(ch))
    elif dc["fn"] == "int":
        t = r.randrange(4)
        if t == 0:
            d2["high"] = dc["low"] + max((dc["high"] - dc["low"]) // 2, 0)
        elif t == 1:
            d2["step"] = r.choice([1, 2, 3])
            d2["log"] = False
        elif t == 2 and dc["low"] >= 1:
            d2["log"], d2["step"] = (not dc["log"]), 1
        else:
            d2["low"] = dc["low"] - 2
            d2["log"] = False
    else:
        t = r.randrange(4)
        if t == 0:
            d2["high"] = dc["low"] + (dc["high"] - dc["low"]) / 2
        elif t == 1:
            d2["step"], d2["log"] = (r.choice(STEPS) if dc["step"] is None else None), False
        elif t == 2 and dc["low"] > 0 and dc["step"] is None:
            d2["log"] = not dc["log"]
        else:
            d2["low"], d2["log"] = dc["low"] - 1.0, False
    return d2 if try_build(d2) is not None else dict(dc)


def gen_case(r: random.Random) -> dict[str, Any]:
    names = NAMES[: r.randint(1, 3)]
    base = {}
    for n in names:
        dc = gen_dist(r)
        while try_build(dc) is None:
            dc = gen_dist(r)
        base[n] = dc
    fixed = [[n, gen_value(build(base[n]), r, 0.6, sloppy=True)] for n in names if r.random() < 0.4]
    rel_space, rel_params = [], []
    for n in names:
        k = r.random()
        if k < 0.5:
            rd = variant(base[n], r)
            rel_space.append([n, rd])
            rel_params.append([n, gen_value(build(rd), r, 0.85)])
        elif k < 0.58:
            rel_params.append([n, gen_value(build(base[n]), r, 0.8)])   # sampled but not in the relative search space
    calls = []
    for _ in range(r.randint(3, 8)):
        n = r.choice(names)
        k = r.random()
        dc = dict(base[n]) if k < 0.6 else variant(base[n], r) if k < 0.9 else gen_dist(r, base[n]["fn"], invalid=1.0)
        d = try_build(dc)
        call: dict[str, Any] = {"name": n, "indep": gen_value(d, r, 0.85), "wf": r.random() < 0.1, "omit": r.random() < 0.5}
        call.update(dc)
        if dc["fn"] == "float" and r.random() < 0.15:
            if dc["step"] is None and not dc["log"]:
                call["fn"] = "uniform"
            elif dc["step"] is None:
                call["fn"] = "loguniform"
            elif not dc["log"]:
                call["fn"] = "discrete"
        calls.append(call)
    return {"k": "sgen", "fixed": fixed, "rel_space": rel_space, "rel_params": rel_params, "calls": calls}


def gen_given(r: random.Random) -> dict[str, Any]:
    cls = r.choice(["fixed", "frozen"])
    names = NAMES[: r.randint(1, 3)]
    base = {}
    for n in names:
        dc = gen_dist(r)
        while try_build(dc) is None:
            dc = gen_dist(r)
        base[n] = dc
    if cls == "frozen":
        # create_trial validates: every parameter has a distribution that contains it
        params = [[n, r.choice(values_of(build(base[n]), r))] for n in names if r.random() < 0.8]
        dists0 = [[n, base[n]] for n, _ in params]
    else:
        params = [[n, gen_value(build(base[n]), r, 0.7, sloppy=True)] for n in names if r.random() < 0.8]
        dists0 = []
    calls = []
    for _ in range(r.randint(2, 6)):
        n = r.choice(names + ["zz"]) if r.random() < 0.15 else r.choice(names)
        dc = dict(base.get(n, base[names[0]])) if r.random() < 0.5 else variant(base.get(n, base[names[0]]), r)
        calls.append({"name": n, "dist": dc})
    return {"k": "given", "cls": cls, "params": params, "dists0": dists0, "calls": calls}


# ---------------------------------------------------------------------------------------------------------------------------
# the real objects
# ---------------------------------------------------------------------------------------------------------------------------
class ScriptedSampler(BaseSampler):
    def __init__(self, rel_space: dict[str, OD.BaseDistribution], rel_params: dict[str, Any]) -> None:
        self.rel_space = rel_space
        self.rel_params = rel_params
        self.next_indep: Any = None
        self.indep_calls = 0

    def infer_relative_search_space(self, study: Any, trial: Any) -> dict[str, OD.BaseDistribution]:
        return dict(self.rel_space)

    def sample_relative(self, study: Any, trial: Any, search_space: Any) -> dict[str, Any]:
        return dict(self.rel_params)

    def sample_independent(self, study: Any, trial: Any, param_name: str, param_distribution: Any) -> Any:
        self.indep_calls += 1
        return self.next_indep


class WriteGate:
    """counts `set_trial_param` calls of one storage object and can make the next one raise (before anything is written)"""

    def __init__(self, storage: Any) -> None:
        self.writes = 0
        self.fail_next = False
        orig = storage.set_trial_param

        def gated(trial_id: int, name: str, q: float, d: OD.BaseDistribution) -> None:
            self.writes += 1
            if self.fail_next:
                self.fail_next = False
                raise StorageWriteError("injected failure of set_trial_param(%r)" % name)
            return orig(trial_id, name, q, d)

        storage.set_trial_param = gated


def call_api(trial: Any, c: dict[str, Any]) -> Any:
    fn, n = c["fn"], c["name"]
    if fn == "float":
        if c["omit"] and c["step"] is None and not c["log"]:
            return trial.suggest_float(n, c["low"], c["high"])
        return trial.suggest_float(n, c["low"], c["high"], step=c["step"], log=c["log"])
    if fn == "int":
        if c["omit"] and c["step"] == 1 and not c["log"]:
            return trial.suggest_int(n, c["low"], c["high"])
        return trial.suggest_int(n, c["low"], c["high"], step=c["step"], log=c["log"])
    if fn == "cat":
        return trial.suggest_categorical(n, c["choices"])
    if fn == "uniform":
        return trial.suggest_uniform(n, c["low"], c["high"])
    if fn == "loguniform":
        return trial.suggest_loguniform(n, c["low"], c["high"])
    if fn == "discrete":
        return trial.suggest_discrete_uniform(n, c["low"], c["high"], c["step"])
    raise ValueError(fn)


def api_query(c: dict[str, Any]) -> dict[str, Any]:
    q: dict[str, Any] = {"op": "api", "fn": c["fn"], "name": c["name"], "indep": K.tok(c["indep"]), "wf": bool(c["wf"])}
    if c["fn"] == "cat":
        q["choices"] = [K.tok(x) for x in c["choices"]]
    elif c["fn"] == "int":
        q.update({"low": str(c["low"]), "high": str(c["high"]), "step": str(c["step"]), "log": bool(c["log"])})
    else:
        q.update({"low": K.rs(K.fbin(float(c["low"]))), "high": K.rs(K.fbin(float(c["high"])))})
        if c["fn"] == "float":
            q.update({"step": None if c["step"] is None else K.rs(K.fbin(float(c["step"]))), "log": bool(c["log"])})
        elif c["fn"] == "discrete":
            q["q"] = K.rs(K.fbin(float(c["step"])))
    return q


def declared(c: dict[str, Any]) -> OD.BaseDistribution | None:
    """the distribution a call declares (None: the constructor rejects the arguments)"""
    dc = dict(c)
    if c["fn"] in ("uniform", "loguniform", "discrete"):
        dc["fn"] = "float"
        dc["log"] = c["fn"] == "loguniform"
        dc["step"] = c["step"] if c["fn"] == "discrete" else None
    return try_build(dc)


class Out:
    """findings of one case"""

    def __init__(self) -> None:
        self.viol: list[tuple[str, str]] = []
        self.broke: list[tuple[str, str]] = []
        self.counts: dict[str, int] = {}
        self.outcomes: set[str] = set()

    def count(self, k: str, n: int = 1) -> None:
        self.counts[k] = self.counts.get(k, 0) + n


def ask(drv: core.Driver, q: dict[str, Any]) -> dict[str, Any]:
    r = drv.ask(q)
    if not isinstance(r, dict) or "r" not in r:
        raise core.DriverBroken("driver %s rejected %s: %s" % (DRIVER, json.dumps(q)[:300], r))
    return r["r"]


def eval_case(drv: core.Driver, case: dict[str, Any], out: Out) -> None:
    if case["k"] == "given":
        return eval_given(drv, case, out)
    rel_space = {n: build(dc) for n, dc in case["rel_space"]}
    rel_params = {n: v for n, v in case["rel_params"]}
    fixed = {n: v for n, v in case["fixed"]}
    sampler = ScriptedSampler(rel_space, rel_params)
    storage = optuna.storages.InMemoryStorage()
    gate = WriteGate(storage)
    study = optuna.create_study(storage=storage, sampler=sampler)
    with warnings.catch_warnings():
        warnings.simplefilter("ignore")
        if fixed:
            study.enqueue_trial(fixed)
        trial = study.ask()
    tid = trial._trial_id
    ask(drv, {"op": "begin", "fixed": [[n, K.tok(v)] for n, v in fixed.items()],
              "relSpace": [[n, K.mdist(d, "bin")] for n, d in rel_space.items()],
              "relParams": [[n, K.tok(v)] for n, v in rel_params.items()]})
    first: dict[str, Any] = {}          # name -> value the objective received first
    first_dist: dict[str, OD.BaseDistribution] = {}
    for i, c in enumerate(case["calls"]):
        name = c["name"]
        d = declared(c)
        sampler.next_indep = c["indep"]
        gate.fail_next = bool(c["wf"])
        n_ind, n_wr = sampler.indep_calls, gate.writes
        cache_before = (dict(trial._cached_frozen_trial.params), dict(trial._cached_frozen_trial.distributions))
        stored_before = dict(storage.get_trial(tid).params)
        was_cached = name in cache_before[0]
        try:
            with warnings.catch_warnings(record=True) as ws:
                warnings.simplefilter("always")
                got: Any = call_api(trial, c)
            err = None
        except Exception as e:  # noqa: BLE001
            got, err = None, exn_name(e)
        gate.fail_next = False
        kinds = warn_kinds(ws)
        used_indep = sampler.indep_calls - n_ind
        wrote = gate.writes - n_wr
        m = ask(drv, api_query(c))
        out.count("sgen:call")
        out.count("sgen:fn:" + c["fn"])
        tag = "call %d %s(%r, %s)" % (i, c["fn"], name, {k: c[k] for k in ("low", "high", "step", "log", "choices") if k in c})
        # ---- generated interpreter vs hand model (the driver ran both on the model's state) ------------------------
        if m.get("gen") is not None:
            out.broke.append(("generated-vs-hand", "%s: the interpreter of the generated suggest path differs from the hand model: %s" % (
                tag, json.dumps(m["gen"])[:700])))
        # ---- hand model vs real code --------------------------------------------------------------------------------
        cached_now = trial._cached_frozen_trial.params
        dists_now = trial._cached_frozen_trial.distributions
        ft_now = storage.get_trial(tid)
        back_now: Any = {"ok": K.tok(ft_now.params[name])} if name in ft_now.params else None
        diffs = []
        if err is not None:
            out.outcomes.add("err:" + err)
            out.count("sgen:err:" + err)
            if m.get("err") != err:
                diffs.append("code raises %s, model %s" % (err, {k: m.get(k) for k in ("err", "v")}))
        elif "err" in m:
            diffs.append("code returns %r, model raises %s" % (got, m["err"]))
        else:
            if m.get("v") != K.tok(got):
                diffs.append("value: code %r (%s), model %s" % (got, type(got).__name__, m.get("v")))
        if not diffs:
            if kinds != m["warns"]:
                diffs.append("warnings: code %s, model %s" % (kinds, m["warns"]))
            if used_indep != m["sampled"]:
                diffs.append("sample_independent calls: code %d, model %d" % (used_indep, m["sampled"]))
            if K.tok(cached_now.get(name)) != m["cached"]:
                diffs.append("trial.params[%r]: code %r, model %s" % (name, cached_now.get(name), m["cached"]))
            if back_now != m["readBack"]:
                # (what a reader of the storage gets: to_external_repr of the stored internal value)
                diffs.append("study.trials[.].params[%r]: code %s, model %s" % (name, back_now, m["readBack"]))
            dn = dists_now.get(name)
            if (None if dn is None else K.mdist(dn, "bin")) != m["dist"]:
                diffs.append("recorded distribution: code %r, model %s" % (dn, m["dist"]))
        for k in kinds:
            out.outcomes.add("warn:" + k)
            out.count("sgen:warn:" + k)
        if diffs:
            out.broke.append(("suggest-api", "%s: %s" % (tag, "; ".join(diffs))))
        # ---- the property itself, on the real objects (no model involved) ----------------------------------------
        if err is not None:
            # a failed call must not leave a parameter in the trial that the study does not have
            stored_now = storage.get_trial(tid).params
            for n2, v2 in cached_now.items():
                if n2 not in stored_now:
                    out.viol.append(("cache-without-storage", "%s raised %s and left trial.params[%r] = %r although the storage has no such parameter" % (
                        tag, err, n2, v2)))
            if (dict(cached_now), dict(dists_now)) != cache_before and not any(k == "cache-without-storage" for k, _ in out.viol):
                out.broke.append(("suggest-api", "%s raised %s but changed the trial-local cache" % (tag, err)))
            if diffs:
                break
            continue
        src = "reused" if was_cached else "fixed" if name in fixed else "sampler" if used_indep else "single-or-relative"
        out.outcomes.add(src)
        out.count("sgen:src:" + src)
        if name in first and not same_value(first[name], got):
            out.viol.append(("same-name-different-value", "%s returned %r but the first call for %r returned %r" % (tag, got, name, first[name])))
        if was_cached and (wrote or used_indep):
            out.viol.append(("reuse-wrote", "%s: %r was already suggested, yet the call wrote %d parameter(s) and asked the sampler %d time(s)" % (
                tag, name, wrote, used_indep)))
        # (an int handed over for a float parameter - the reused value of an int / categorical one - is judged as a number:
        #  the property names a type only for integer parameters)
        as_num = float(got) if isinstance(d, OD.FloatDistribution) and type(got) is int else got
        if was_cached and d is not None and name in first_dist and type(first_dist[name]) is not type(d) and member(d, as_num) is not None:
            out.viol.append(("outside-domain", "%s returned %r, the value suggested earlier for a %s: %s" % (
                tag, got, type(first_dist[name]).__name__, member(d, as_num))))
        if not was_cached and name in fixed:
            want = fixed[name]
            if c["fn"] == "int" and isinstance(want, (int, float)) and not isinstance(want, bool) and math.isfinite(want):
                want = int(want)     # suggest_int hands int(<the enqueued number>) to the objective
            if not same_value(got, want):
                out.viol.append(("fixed-does-not-win", "enqueued %r = %r but %s returned %r" % (name, fixed[name], tag, got)))
        if c["fn"] == "int" and type(got) is not int:
            out.viol.append(("int-parameter-not-int", "%s returned %r of type %s" % (tag, got, type(got).__name__)))
        if not was_cached and d is not None:
            why = None
            if src == "single-or-relative":
                why = member(d, got)
            elif src == "sampler" and member(d, c["indep"]) is None:
                why = member(d, got)
            if why is not None:
                out.viol.append(("outside-domain", "%s = %r via %s: %s" % (tag, got, src, why)))
        cv = cached_now.get(name, "<missing>")
        frac_for_int = c["fn"] == "int" and isinstance(cv, float) and math.isfinite(cv) and not cv.is_integer()
        # (a non-integral number enqueued for an int parameter is truncated by suggest_int while trial.params keeps the raw
        #  number: invalid input, warned about, outside what the property promises - same exclusion as in c10.py)
        if not frac_for_int and not same_value(cv, got):
            out.viol.append(("cached-differs", "%s returned %r but trial.params has %r" % (tag, got, cached_now.get(name, "<missing>"))))
        ft = storage.get_trial(tid)
        d_first = ft.distributions.get(name)
        if d_first is None:
            out.viol.append(("stored-differs", "%s returned %r but the storage has no parameter %r" % (tag, got, name)))
        else:
            try:
                contained = d_first._contains(d_first.to_internal_repr(cached_now.get(name)))
            except Exception:  # noqa: BLE001
                contained = False
            stored = ft.params.get(name, "<missing>")
            if contained and not (same_value(stored, got) or OD._categorical_choice_equal(stored, got)):
                out.viol.append(("stored-differs", "%s returned %r but the storage holds %r" % (tag, got, stored)))
        first.setdefault(name, got)
        if d is not None:
            first_dist.setdefault(name, d)
        if diffs or out.viol:
            break


def eval_given(drv: core.Driver, case: dict[str, Any], out: Out) -> None:
    params = {n: v for n, v in case["params"]}
    dists0 = {n: build(dc) for n, dc in case["dists0"]}
    if case["cls"] == "fixed":
        obj: Any = optuna.trial.FixedTrial(dict(params))
    else:
        obj = optuna.trial.create_trial(value=0.0, params=dict(params), distributions=dict(dists0))
    ask(drv, {"op": "begin2", "fixed": [[n, K.tok(v)] for n, v in params.items()],
              "params": [[n, K.tok(v)] for n, v in params.items()] if case["cls"] == "frozen" else [],
              "dists": [[n, K.mdist(d, "bin")] for n, d in dists0.items()]})
    for i, c in enumerate(case["calls"]):
        name, d = c["name"], build(c["dist"])
        try:
            with warnings.catch_warnings(record=True) as ws:
                warnings.simplefilter("always")
                got: Any = obj._suggest(name, d)
            err = None
        except Exception as e:  # noqa: BLE001
            got, err = None, exn_name(e)
        kinds = warn_kinds(ws)
        m = ask(drv, {"op": "given", "cls": case["cls"], "name": name, "d": K.mdist(d, "bin")})
        out.count("given:call:" + case["cls"])
        tag = "%sTrial._suggest(%r, %r) (call %d)" % (case["cls"].capitalize(), name, d, i)
        if m.get("gen") is not None:
            out.broke.append(("generated-vs-hand", "%s: generated interpreter differs from the hand model: %s" % (tag, json.dumps(m["gen"])[:600])))
        diffs = []
        if err is not None:
            out.outcomes.add("err:" + err)
            if m.get("err") != err:
                diffs.append("code raises %s, model %s" % (err, {k: m.get(k) for k in ("err", "v")}))
        elif "err" in m:
            diffs.append("code returns %r, model raises %s" % (got, m["err"]))
        elif m.get("v") != K.tok(got):
            diffs.append("value: code %r, model %s" % (got, m.get("v")))
        if not diffs:
            if kinds != m["warns"]:
                diffs.append("warnings: code %s, model %s" % (kinds, m["warns"]))
            dn = obj._distributions.get(name)
            if (None if dn is None else K.mdist(dn, "bin")) != m["dist"]:
                diffs.append("recorded distribution: code %r, model %s" % (dn, m["dist"]))
            if K.tok(obj.params.get(name)) != m["cached"]:
                diffs.append("params[%r]: code %r, model %s" % (name, obj.params.get(name), m["cached"]))
        for k in kinds:
            out.outcomes.add("warn:" + k)
        if diffs:
            out.broke.append(("given-suggest", "%s: %s" % (tag, "; ".join(diffs))))
            break
        if err is None:
            out.outcomes.add("ok")
            # the property: the given value is what comes back (and, for FixedTrial, what `params` shows)
            if name not in params or not same_value(params[name], got):
                out.viol.append(("given-value-not-returned", "%s returned %r, given %r" % (tag, got, params.get(name, "<missing>"))))
                break
            if not same_value(obj.params.get(name, "<missing>"), got):
                out.viol.append(("cached-differs", "%s returned %r but .params has %r" % (tag, got, obj.params.get(name, "<missing>"))))
                break


def run_case(drv: core.Driver, case: dict[str, Any]) -> Out:
    out = Out()
    try:
        eval_case(drv, case, out)
    except core.DriverBroken:
        raise
    except Exception as e:  # noqa: BLE001
        import traceback
        out.broke.append(("crash", "%s on case %s: %s" % (type(e).__name__, json.dumps(case, default=str)[:300], traceback.format_exc()[-700:])))
    return out


def absorb(chk: core.Check, case: dict[str, Any], out: Out) -> None:
    for k, v in out.counts.items():
        chk.count(k, v)
    chk.case(case, nontrivial=len(out.outcomes) >= 2)
    chk.count("cases:" + case["k"])
    for kind, msg in out.viol:
        chk.violation({"kind": kind, "stage": "suggest-gen"}, {"case": case}, msg)
    for kind, msg in out.broke:
        chk.broke("correspondence", {"kind": kind, "msg": msg[:900], "case": case})


def correspond(chk: core.Check, quick: bool) -> None:
    r = random.Random(chk.seed * 7919 + 10)
    n_api, n_given = (260, 80) if quick else (4000, 1200)
    drv = core.Driver(DRIVER)
    try:
        st = ask(drv, {"op": "static"})
        chk.extra.setdefault("suggest_ir", {})["pins_in_driver"] = len(st["pins"])
        cases = [gen_case(r) for _ in range(n_api)] + [gen_given(r) for _ in range(n_given)]
        n_bad = 0
        for case in cases:
            out = run_case(drv, case)
            absorb(chk, case, out)
            if out.viol or out.broke:
                n_bad += 1
                if n_bad >= 5:
                    break
        chk.traces_validated += chk.hist.get("sgen:call", 0) + chk.hist.get("given:call:fixed", 0) + chk.hist.get("given:call:frozen", 0)
    finally:
        drv.close()
    if RULE not in chk.rule:
        chk.rule = (chk.rule + "  ||  " + RULE) if chk.rule else RULE


# ---------------------------------------------------------------------------------------------------------------------------
# differential on synthetic inputs (no real optuna involved)
# ---------------------------------------------------------------------------------------------------------------------------
def _rat(r: random.Random) -> str:
    return K.rs(Fraction(r.randrange(-40, 60), r.choice([1, 1, 2, 3, 4, 7, 10])))


def _tok(r: random.Random) -> Any:
    k = r.random()
    if k < 0.3:
        return {"f": _rat(r)}
    if k < 0.55:
        return {"i": str(r.randrange(-6, 14))}
    if k < 0.65:
        return {"b": r.random() < 0.5}
    if k < 0.75:
        return None
    if k < 0.9:
        return {"s": r.choice(["x", "y", "", "zz"])}
    return r.choice(["nan", "inf", "-inf"])


def _mdist(r: random.Random) -> dict[str, Any]:
    k = r.random()
    if k < 0.4:
        lo = Fraction(r.randrange(-20, 30), r.choice([1, 2, 4, 10]))
        hi = lo + Fraction(r.choice([0, 0, 1, 2, 5, 7]), r.choice([1, 2, 3]))
        step = None if r.random() < 0.5 else K.rs(Fraction(r.choice([1, 1, 2, 3, 5, 20]), r.choice([1, 2, 4, 10])))
        return {"k": "flt", "c": r.choice(["float", "float", "float", "uniform", "logUniform", "discreteUniform"]), "low": K.rs(lo), "high": K.rs(hi),
                "log": r.random() < 0.2, "step": step}
    if k < 0.75:
        lo = r.randrange(-6, 9)
        return {"k": "int", "c": r.choice(["int", "int", "int", "intUniform", "intLogUniform"]), "low": str(lo), "high": str(lo + r.choice([0, 0, 1, 2, 5, 9])),
                "log": r.random() < 0.2, "step": str(r.choice([1, 1, 2, 3, 20]))}
    n = r.choice([0, 1, 1, 2, 3, 4])
    return {"k": "cat", "choices": [_tok(r) for _ in range(n)]}


def synthetic(r: random.Random) -> list[dict[str, Any]]:
    names = ["a", "b", "c"]
    dists = {n: _mdist(r) for n in names}
    some = lambda p: [n for n in names if r.random() < p]  # noqa: E731
    begin = {"op": "begin2", "fixed": [[n, _tok(r)] for n in some(0.4)],
             "relSpace": [[n, dists[n] if r.random() < 0.6 else _mdist(r)] for n in some(0.5)],
             "relParams": [[n, _tok(r)] for n in some(0.5)],
             "params": [[n, _tok(r)] for n in some(0.25)],
             "dists": [[n, dists[n] if r.random() < 0.6 else _mdist(r)] for n in some(0.25)]}
    ops = [begin]
    for _ in range(r.randint(2, 6)):
        n = r.choice(names)
        k = r.random()
        d = dists[n] if r.random() < 0.6 else _mdist(r)
        if k < 0.5:
            q: dict[str, Any] = {"op": "suggest", "name": n, "d": d, "indep": _tok(r), "wf": r.random() < 0.15}
            if r.random() < 0.3:
                q["ddec"] = _mdist(r)          # `single()` answered on another view
        elif k < 0.62:
            q = {"op": "given", "cls": r.choice(["fixed", "frozen"]), "name": n, "d": d}
        else:
            fn = r.choice(["float", "float", "int", "int", "cat", "uniform", "loguniform", "discrete"])
            q = {"op": "api", "fn": fn, "name": n, "indep": _tok(r), "wf": r.random() < 0.15}
            if r.random() < 0.3:
                q["sg"] = r.random() < 0.5
            if fn == "cat":
                q["choices"] = [_tok(r) for _ in range(r.choice([0, 1, 2, 3]))]
            elif fn == "int":
                lo = r.randrange(-4, 8)
                q.update({"low": str(lo), "high": str(lo + r.choice([-1, 0, 1, 4, 9])), "step": str(r.choice([0, 1, 1, 2, 3])), "log": r.random() < 0.25})
            else:
                q.update({"low": _rat(r), "high": _rat(r), "step": None if r.random() < 0.5 else _rat(r), "log": r.random() < 0.25, "q": _rat(r)})
        ops.append(q)
    return ops


def differential(chk: core.Check, n: int) -> None:
    """generated interpreter vs hand model on seeded synthetic suggest / api / given commands"""
    r = random.Random(chk.seed * 31337 + 5)
    drv = core.Driver(DRIVER)
    try:
        for _ in range(n):
            for q in synthetic(r):
                resp = drv.ask(q)
                if not isinstance(resp, dict) or "r" not in resp:
                    raise core.DriverBroken("driver %s rejected %s: %s" % (DRIVER, json.dumps(q)[:300], resp))
                if q["op"] == "begin2":
                    continue
                chk.count("gen-differential:" + q["op"])
                m = resp["r"]
                if m.get("gen") is not None:
                    chk.broke("correspondence", {"what": "interpreter of the generated suggest path differs from the hand model (Model/Suggest.lean, SuggestApi.lean)",
                                                 "first": m["gen"], "input": q})
                    return
                if m.get("handsAgree") is False:
                    chk.broke("correspondence", {"what": "the two hand models disagree (Suggest.suggestS vs SuggestApi.suggestFull)", "input": q})
                    return
    finally:
        drv.close()


# ---------------------------------------------------------------------------------------------------------------------------
def search(chk: core.Check) -> None:
    """failing-input search of this stage: more K cases, until a property-level failure shows"""
    r = random.Random(chk.seed * 104729 + 77)
    drv = core.Driver(DRIVER)
    n = 0
    try:
        for _ in range(3000):
            case = gen_case(r) if r.random() < 0.8 else gen_given(r)
            out = run_case(drv, case)
            n += 1
            if out.viol:
                kind, msg = out.viol[0]
                chk.violation({"kind": kind, "stage": "suggest-gen"}, {"case": case}, msg)
                chk.search_log.append("suggest-gen search found a violating input after %d cases" % n)
                return
    except core.DriverBroken as e:
        chk.search_log.append("suggest-gen search: driver broken: %s" % str(e)[:200])
    finally:
        drv.close()
    chk.search_log.append("suggest-gen search: %d further cases, no property-level failure" % n)


def replay(chk: core.Check, w: dict[str, Any]) -> int | None:
    """None = not a witness of this stage"""
    case = None
    if isinstance(w.get("witness"), dict) and isinstance(w["witness"].get("case"), dict):
        case = w["witness"]["case"]
    elif w.get("no_longer_checks"):
        det = w["no_longer_checks"][0].get("detail")
        if isinstance(det, dict) and isinstance(det.get("case"), dict):
            case = det["case"]
    if case is None or case.get("k") not in ("sgen", "given"):
        return None
    try:
        regenerate()          # the driver must run the bodies of the tree under test, not those of the previous run
    except Exception as e:  # noqa: BLE001
        print("T-suggest: cannot translate the tree under test (%s); the side-by-side field compares against the last generated bodies" % str(e)[:200])
    core.ensure_driver()
    drv = core.Driver(DRIVER)
    try:
        out = run_case(drv, case)
    finally:
        drv.close()
    for kind, msg in out.viol:
        print("REPRODUCED [violation/%s]: %s" % (kind, msg[:500]))
    for kind, msg in out.broke:
        print("REPRODUCED [broke/%s]: %s" % (kind, msg[:500]))
    if not out.viol and not out.broke:
        print("not reproduced")
    return 1 if (out.viol or out.broke) else 0
