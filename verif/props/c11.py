"""C11 — distributions and parameter values round-trip through every encoding.

prove:      Props/C11.lean; the integer high adjustment / IntDistribution.single / _contains are REGENERATED from
            optuna/distributions.py by verif/translators/tint.py into Generated/DistInt.lean before the build.
correspond: generated distributions / values / documents / search spaces run through the real
            optuna.distributions + optuna._transform and through the Lean model (driver `dist`), compared exactly
            as rationals (decimal value for what the code does with Decimal(str(x)), binary value elsewhere).
observe:    the property itself (model-free oracles): JSON round trip equality and idempotence, internal/external
            round trip, same contains/single/compat answers after a round trip, untransform(transform(v)) == v,
            every box point untransforms into the domain (exact rational membership).
A model/code disagreement is `broke` (then a larger search); a failed oracle is a violation with the case as replay.
"""
from __future__ import annotations

import itertools
import json
import math
import os
import random
import warnings
from fractions import Fraction
from typing import Any

import numpy as np

from verif import core
from verif import dist_k as K
from verif.translators import tint
from verif.props import c11_gen as G11
from verif.props import c11_dist_gen as DG

import optuna
from optuna import distributions as OD
from optuna._transform import _SearchSpaceTransform

RULE = (
    "seeded cases of six kinds — int triples (low, high, step incl. negative / > 2^64 / step > range), float "
    "distributions with <= 15 significant digits on one decimal quantum (in-hypothesis) and with up to 17 digits / wide "
    "exponents (out-of-hypothesis, measured), categorical choice tuples with duplicates-by-equality and NaN, JSON "
    "documents (full, abbreviated, malformed), distribution pairs (compatibility), search spaces of 1-4 distributions "
    "x 8 transform configurations with contained configurations and box points; a case is non-trivial when it exercises "
    "an adjustment of high, a grid / endpoint value, a duplicate choice, an error path or a clamp/round path; distinct by "
    "SHA-1 of the case"
)

TOL_LOG_ULP = 4          # log-scaled floats: exp(log(v)) within this many ulps
TOL_GRID_ULP = 2         # stepped floats recomputed on the binary grid (known finding F10b)
TOL_01_ULP = 4           # 0-1 scaling: affine map rounding, in ulps of the larger bound
BEYOND15_AS_VIOLATION = False   # out-of-hypothesis JSON high drop: evidence only (see module docstring of the report)


class Finding:
    def __init__(self, sev: str, kind: str, msg: str, extra: dict[str, Any] | None = None) -> None:
        self.sev, self.kind, self.msg, self.extra = sev, kind, msg, extra or {}


class Ctx:
    """one evaluation context: driver + counters + findings of the current case"""

    def __init__(self, drv: core.Driver) -> None:
        self.drv = drv
        self.counts: dict[str, int] = {}
        self.findings: list[Finding] = []
        self.nontrivial = False
        self.last: Any = None

    def count(self, k: str, n: int = 1) -> None:
        self.counts[k] = self.counts.get(k, 0) + n

    def ask(self, obj: dict[str, Any]) -> Any:
        r = self.drv.ask(obj)
        if "r" not in r:
            raise core.DriverBroken("driver: %s on %s" % (r, json.dumps(obj)[:300]))
        self.last = r
        bad = G11.gen_disagreement(r)
        if bad is not None:  # interpreter of the IR generated from optuna/_transform.py vs the hand model (driver `distgen`)
            self.count("gen:differs")
            self.broke("generated-vs-hand", "%s: the interpreter of the generated transform IR differs from the hand model: %s on %s" % (
                obj.get("op"), json.dumps(bad)[:400], json.dumps({k: v for k, v in obj.items() if k != "env"})[:300]))
        elif "gen" in r:
            self.count("gen:side-by-side")
        return r["r"]

    def viol(self, kind: str, msg: str, **extra: Any) -> None:
        self.findings.append(Finding("violation", kind, msg, extra))

    def broke(self, kind: str, msg: str) -> None:
        self.findings.append(Finding("broke", kind, msg))

    def known(self, kind: str, msg: str) -> None:
        self.findings.append(Finding("known", kind, msg))


def quiet(f: Any, *a: Any, **kw: Any) -> Any:
    with warnings.catch_warnings():
        warnings.simplefilter("ignore")
        return f(*a, **kw)


def exc_name(e: BaseException) -> str:
    for n in ("ValueError", "TypeError", "KeyError"):
        if type(e).__name__ == n:
            return n
    return "other:" + type(e).__name__


# ---------------------------------------------------------------------------------------------------------------
# int triples: _adjust_int_uniform_high vs the GENERATED definition + the spec itself
# ---------------------------------------------------------------------------------------------------------------
def eval_int_triple(cx: Ctx, case: dict[str, Any]) -> None:
    low, high, step = case["low"], case["high"], case["step"]
    got = quiet(OD._adjust_int_uniform_high, low, high, step)
    want = int(cx.ask({"op": "adjustInt", "low": str(low), "high": str(high), "step": str(step)}))
    cx.count("int:adjust")
    if (high - low) % step != 0:
        cx.nontrivial = True
        cx.count("int:adjusted")
    ok = isinstance(got, int) and not isinstance(got, bool) and low <= got <= high and (got - low) % step == 0 and high - got < step
    if ok:
        ok = quiet(OD._adjust_int_uniform_high, low, got, step) == got
    if not ok:
        cx.viol("adjust-int", "_adjust_int_uniform_high(%d, %d, %d) = %r violates low <= h' <= high, (h'-low)%%step == 0, maximal, idempotent" % (low, high, step, got))
    elif got != want:
        cx.broke("adjust-int", "model %d / code %r for (%d, %d, %d)" % (want, got, low, high, step))


# ---------------------------------------------------------------------------------------------------------------
# one distribution: constructor, JSON, single, contains, internal/external
# ---------------------------------------------------------------------------------------------------------------
def probes_for(d: OD.BaseDistribution, r: random.Random) -> list[float]:
    """internal-representation probe values: endpoints, grid points and near misses, outside points"""
    from decimal import Decimal
    if isinstance(d, OD.CategoricalDistribution):
        n = len(d.choices)
        return [-1.0, -0.5, 0.0, 0.5, float(n - 1), n - 0.5, float(n), n + 3.0]
    if isinstance(d, OD.IntDistribution):
        lo, hi, st = d.low, d.high, d.step
        n = (hi - lo) // st
        ks = sorted({0, 1, n, max(n - 1, 0), n // 2, r.randint(0, n)})
        vs = [lo + k * st for k in ks] + [lo - st, hi + st, lo + 1, hi - 1, lo - 1, hi + 1]
        out = [float(v) for v in vs if abs(v) < 2 ** 53]
        return out + ([lo + 0.5] if abs(lo) < 2 ** 52 else [])
    lo, hi = d.low, d.high
    if d.step is None:
        return [lo, hi, float(np.nextafter(lo, -math.inf)), float(np.nextafter(hi, math.inf)),
                float(np.nextafter(hi, -math.inf)), lo + (hi - lo) * r.random(), lo + (hi - lo) / 2]
    dl, ds = Decimal(repr(lo)), Decimal(repr(d.step))
    n = int((Decimal(repr(hi)) - dl) // ds)
    ks = sorted({0, 1, n, max(n - 1, 0), n // 2, r.randint(0, n), r.randint(0, n)})
    vs: list[float] = []
    for k in ks:
        g = float(dl + k * ds)
        vs += [g, float(np.nextafter(g, math.inf)), float(np.nextafter(g, -math.inf)),
               g + d.step * 1e-6, g + d.step * 0.3, g - d.step * 1e-10]
    return vs + [lo - d.step, hi + d.step]


def contains_agrees(cx: Ctx, d: OD.BaseDistribution, md_bin: dict[str, Any], v: float) -> tuple[bool, bool]:
    """(code answer, agrees with the model).  Stepped floats: inside the rounding band around the 1e-8
    threshold either answer is accepted."""
    code = bool(d._contains(v))
    info = cx.ask({"op": "containsInfo", "d": md_bin, "v": K.rs(K.fbin(v))})
    if info["c"] == code:
        return code, True
    if isinstance(d, OD.FloatDistribution) and d.step is not None and d.low <= v <= d.high:
        dist = K.pr(info["dist"])
        kf = abs((v - d.low) / d.step)
        band = 8 * Fraction(K.ulp(kf + 1.0))
        # the exact distance may also sit at 1/2 - band (float rounds to the other neighbour)
        if abs(dist - Fraction(1, 10 ** 8)) <= band or dist <= band or dist >= Fraction(1, 2) - band:
            cx.count("contains:rounding-band")
            return code, True
    return code, False


def eval_dist(cx: Ctx, case: dict[str, Any], r: random.Random) -> None:
    stream = case.get("stream", "in15")
    try:
        d = K.build(case)
    except Exception as e:  # the constructor rejected it: compare the error with the model's constructor
        cx.count("ctor:rejected")
        eval_ctor_error(cx, case, e)
        return
    name = type(d).__name__
    cx.count("cls:" + name)
    is_f, is_i, is_c = name in K.FCLS, name in K.ICLS, name == "CategoricalDistribution"
    hyp = True
    if is_f and d.step is not None:
        hyp = K.in15({"low": d.low, "high": d.high, "step": d.step}) and K.in15({"low": case["low"], "high": case["high"], "step": case["step"]})
    elif is_f:
        hyp = K.sig_digits(d.low) <= 15 and K.sig_digits(d.high) <= 15
    if is_i:
        hyp = max(abs(d.low), abs(d.high), d.step, d.high - d.low) < 2 ** 52
    cx.count("hypothesis:" + ("in" if hyp else "out"))
    md = K.mdist(d, "dec")
    mdb = K.mdist(d, "bin")

    # -- constructor / high adjustment -------------------------------------------------------------------------
    if is_f:
        if d.step is not None:
            lo, hi0, st = K.fdec(case["low"]), K.fdec(case["high"]), K.fdec(case["step"])
            hi = K.fdec(d.high)
            adjusted = hi != hi0
            if adjusted:
                cx.nontrivial = True
                cx.count("float:adjusted")
            k = (hi - lo) / st
            spec_ok = lo <= hi <= hi0 and k.denominator == 1 and hi0 - hi < st
            if hyp and not spec_ok:
                cx.viol("adjust-discrete", "FloatDistribution(%r, %r, step=%r).high = %r is not the largest grid point <= high (decimal arithmetic)" % (case["low"], case["high"], case["step"], d.high))
            if not hyp and not spec_ok:
                cx.count("beyond15:adjust-spec-miss")
            m = cx.ask({"op": "mkFlt", "c": K.FCLS[name], "low": K.rs(lo), "high": K.rs(hi0), "log": bool(d.log), "step": K.rs(st)})
            if "ok" not in m or m["ok"] != md:
                if hyp:
                    cx.broke("ctor", "model constructor %s / code %s" % (json.dumps(m)[:200], json.dumps(md)[:200]))
                else:
                    cx.count("beyond15:ctor-differs")
            # idempotent (in floats) — the fact the JSON round trip rests on
            again = quiet(OD._adjust_discrete_uniform_high, d.low, d.high, d.step)
            if again != d.high:
                if hyp:
                    cx.viol("adjust-discrete", "adjusting the adjusted high again changes it: %r -> %r (low=%r, step=%r)" % (d.high, again, d.low, d.step))
                else:
                    cx.count("beyond15:adjust-not-idempotent")
    if is_i:
        m = cx.ask({"op": "mkInt", "c": K.ICLS[name], "low": str(case["low"]), "high": str(case["high"]), "log": bool(d.log), "step": str(d.step)})
        if (case["high"] - case["low"]) % d.step != 0:
            cx.nontrivial = True
        if "ok" not in m or m["ok"] != md:
            cx.broke("ctor", "model constructor %s / code %s" % (json.dumps(m)[:200], json.dumps(md)[:200]))
        if not (d.low <= d.high <= case["high"] and (d.high - d.low) % d.step == 0 and case["high"] - d.high < d.step):
            cx.viol("adjust-int", "IntDistribution(%d, %d, step=%d).high = %r is not the largest grid point <= high" % (case["low"], case["high"], d.step, d.high))

    # -- both endpoints belong to the domain ("low/high is included in the range") ---------------------------
    if hyp and not is_c and not (d._contains(float(d.low)) and d._contains(float(d.high))):
        if is_f and d.step is not None:
            # (high - low) / step computed in floats: when step is tiny against |low| the quotient misses an
            # integer by more than the 1e-8 that `_contains` tolerates; the exact model agrees (checked below)
            cx.count("stepped-float-endpoint-not-contained(float resolution)")
        else:
            cx.viol("endpoint-not-contained", "%r does not contain its own low/high" % (d,))

    # -- JSON ------------------------------------------------------------------------------------------------------
    s = OD.distribution_to_json(d)
    doc = json.loads(s)
    mprint = cx.ask({"op": "print", "d": md})
    if K.canon_doc(mprint) != K.canon_doc(K.jdoc(doc)):
        cx.broke("print", "model %s / code %s" % (json.dumps(mprint)[:300], s[:300]))
    try:
        d2 = quiet(OD.json_to_distribution, s)
    except Exception as e:
        cx.viol("json-roundtrip", "json_to_distribution(distribution_to_json(d)) raises %r for %r" % (e, d))
        return
    mparse = cx.ask({"op": "parse", "doc": K.jdoc(doc)})
    same = type(d2) is type(d) and d2 == d
    if not same:
        drop = (is_f and d.step is not None and type(d2) is type(d) and d2.low == d.low and d2.step == d.step
                and d2.log == d.log and d2.high < d.high)
        if not hyp and drop:
            cx.count("beyond15:json-high-drops")
            cx.findings.append(Finding("beyond15", "json-high-drops", "%r reloads as %r" % (d, d2), {"case": case}))
        else:
            cx.viol("json-roundtrip", "json_to_distribution(distribution_to_json(d)) = %r != d = %r" % (d2, d))
    else:
        if ("ok" not in mparse or mparse["ok"] != K.mdist(d2, "dec")) and not hyp:
            cx.count("beyond15:parse-differs")
        elif "ok" not in mparse or mparse["ok"] != K.mdist(d2, "dec"):
            cx.broke("parse", "model %s / code %s" % (json.dumps(mparse)[:300], json.dumps(K.mdist(d2, 'dec'))[:300]))
        if is_c:  # stronger than ==: JSON keeps the scalar types
            if [K.tok(c) for c in d2.choices] != [K.tok(c) for c in d.choices]:
                cx.viol("json-roundtrip", "choices change type/value through JSON: %r -> %r" % (d.choices, d2.choices))
    s2 = OD.distribution_to_json(d2)
    d3 = quiet(OD.json_to_distribution, s2)
    if not (type(d3) is type(d2) and d3 == d2) or OD.distribution_to_json(d3) != s2:
        if hyp or not (is_f and d.step is not None):
            cx.viol("json-idempotent", "parse is not idempotent: %s -> %s" % (s2, OD.distribution_to_json(d3)))
        else:
            cx.count("beyond15:json-not-idempotent")

    # -- single ------------------------------------------------------------------------------------------------------
    sg = bool(d.single())
    if cx.ask({"op": "single", "d": md}) != sg:
        cx.broke("single", "model %s / code %s for %r" % (not sg, sg, d))
    if same and bool(d2.single()) != sg:
        cx.viol("answers-after-roundtrip", "single() differs after the JSON round trip for %r" % (d,))
    if sg:
        cx.count("single")

    # -- contains + internal/external -----------------------------------------------------------------------
    ps = probes_for(d, r)
    n_in = 0
    for v in ps:
        code, agree = contains_agrees(cx, d, mdb, v)
        cx.count("contains:probe")
        if not agree and is_i and not hyp:
            cx.count("beyond2^52:int-contains-differs")  # float arithmetic on ints that a double cannot hold
        elif not agree:
            cx.broke("contains", "%r._contains(%r) = %s, model says otherwise" % (d, v, code))
        if same and bool(d2._contains(v)) != code:
            cx.viol("answers-after-roundtrip", "_contains(%r) differs after the JSON round trip for %r" % (v, d))
        if sg and code and not is_c and v != d.low:
            # a stepped float "contains" whatever lies within 1e-8 step of its only grid point
            if is_f and d.step is not None and abs(K.fbin(v) - K.fbin(d.low)) <= K.fbin(d.step) / 10 ** 8 + Fraction(K.ulp(d.low)):
                pass
            elif not hyp:
                cx.count("beyond15:single-but-contains-another-point")
            else:
                cx.viol("single", "%r is single() but contains %r != low" % (d, v))
        if not code:
            continue
        n_in += 1
        ext = d.to_external_repr(v)
        mext = cx.ask({"op": "toExternal", "d": mdb, "v": K.rs(K.fbin(v))})
        if "ok" not in mext or mext["ok"] != K.tok(ext):
            cx.broke("toExternal", "%r.to_external_repr(%r) = %r, model %s" % (d, v, ext, mext))
        try:
            back = d.to_internal_repr(ext)
        except Exception as e:
            cx.viol("internal-external", "%r: to_internal_repr(to_external_repr(%r)) raises %r" % (d, v, e))
            continue
        mback = cx.ask({"op": "toInternal", "d": mdb, "v": K.tok(ext)})
        if is_c and isinstance(ext, float) and math.isnan(ext):
            cx.count("cat:nan-identity-not-modelled")  # tuple.index finds the identical NaN object first
        elif "ok" not in mback or K.pr(mback["ok"]) != K.fbin(back):
            cx.broke("toInternal", "%r.to_internal_repr(%r) = %r, model %s" % (d, ext, back, mback))
        if is_c:
            # the index of the FIRST equal choice comes back; its choice must equal the original one
            j = int(back)
            if not (0 <= j <= int(v) and OD._categorical_choice_equal(d.choices[j], ext)):
                cx.viol("internal-external", "%r: index %r -> %r -> %r is not the first equal choice" % (d, v, ext, back))
            if j != int(v):
                cx.count("cat:duplicate-resolved-to-first")
                cx.nontrivial = True
        elif back != v and not (is_i and back == float(int(v))):
            cx.viol("internal-external", "%r: to_internal_repr(to_external_repr(%r)) = %r" % (d, v, back))
    if n_in:
        cx.count("contained-probes", n_in)
        cx.nontrivial = True
    if is_c:
        eval_cat_values(cx, d, mdb)
    # -- the deprecated classes map to the base classes without changing an answer -----------------------
    if name not in ("FloatDistribution", "IntDistribution", "CategoricalDistribution"):
        cx.nontrivial = True
        new = OD._convert_old_distribution_to_new_distribution(d, suppress_warning=True)
        mnew = cx.ask({"op": "convertOld", "d": md})
        if mnew != K.mdist(new, "dec"):
            cx.broke("convertOld", "model %s / code %r" % (mnew, new))
        for v in ps:
            if bool(new._contains(v)) != bool(d._contains(v)) or new.single() != d.single():
                cx.viol("deprecated-mapping", "%r and its base-class form %r answer differently at %r" % (d, new, v))


def eval_ctor_error(cx: Ctx, case: dict[str, Any], e: BaseException) -> None:
    cls = case["cls"]
    try:
        if cls in K.FCLS:
            m = cx.ask({"op": "mkFlt", "c": K.FCLS[cls], "low": K.rs(K.fdec(case["low"])), "high": K.rs(K.fdec(case["high"])),
                        "log": bool(case.get("log", False)), "step": None if case.get("step") is None else K.rs(K.fdec(case["step"]))})
        elif cls in K.ICLS:
            m = cx.ask({"op": "mkInt", "c": K.ICLS[cls], "low": str(case["low"]), "high": str(case["high"]),
                        "log": bool(case.get("log", False)), "step": str(case.get("step", 1))})
        else:
            m = cx.ask({"op": "mkCat", "choices": [K.tok(c) for c in case["choices"]]})
    except (TypeError, ValueError, OverflowError):
        return
    cx.nontrivial = True
    if type(e).__name__ == "InvalidOperation":
        cx.count("ctor:decimal-invalid-operation")  # > 28 digits: outside the model (exact decimals)
        return
    if m.get("err") != exc_name(e):
        cx.broke("ctor", "constructor raised %r, model %s for %s" % (e, m, case))


def eval_cat_values(cx: Ctx, d: OD.CategoricalDistribution, mdb: dict[str, Any]) -> None:
    """external -> internal -> external for the choices themselves and for equal-but-different spellings"""
    variants: list[Any] = list(d.choices)
    for c in d.choices:
        if isinstance(c, bool):
            variants += [int(c), float(c)]
        elif isinstance(c, int) and abs(c) < 2 ** 53:
            variants += [float(c)] + ([bool(c)] if c in (0, 1) else [])
        elif isinstance(c, float) and math.isfinite(c) and c == int(c):
            variants += [int(c)]
    variants += ["not-a-choice", 123456789]
    for v in variants:
        if isinstance(v, float) and math.isnan(v):
            v = float("nan")  # a fresh object: identity of NaN choices is not modelled
        try:
            idx: Any = d.to_internal_repr(v)
        except ValueError:
            idx = "ValueError"
        m = cx.ask({"op": "toInternal", "d": mdb, "v": K.tok(v)})
        mi: Any = int(K.pr(m["ok"])) if "ok" in m else m["err"]
        cx.count("cat:value")
        if idx != mi:
            cx.broke("toInternal", "%r.to_internal_repr(%r) = %r, model %r" % (d, v, idx, mi))
        if idx == "ValueError":
            continue
        if not d._contains(idx):
            cx.viol("internal-external", "%r.to_internal_repr(%r) = %r is not contained" % (d, v, idx))
            continue
        ext = d.to_external_repr(idx)
        if not OD._categorical_choice_equal(ext, v):
            cx.viol("internal-external", "%r: %r -> index %r -> %r is not equal to what went in" % (d, v, idx, ext))


# ---------------------------------------------------------------------------------------------------------------
# JSON documents (abbreviated form, malformed)
# ---------------------------------------------------------------------------------------------------------------
def eval_doc(cx: Ctx, case: dict[str, Any]) -> None:
    doc = case["doc"]
    s = json.dumps(doc)
    try:
        d: Any = quiet(OD.json_to_distribution, s)
        got: Any = K.mdist(d, "dec")
    except Exception as e:
        d, got = None, exc_name(e)
        if type(e).__name__ == "InvalidOperation":
            cx.count("doc:decimal-invalid-operation")
            return
    m = cx.ask({"op": "parse", "doc": K.jdoc(json.loads(s))})
    mm = m["ok"] if "ok" in m else m["err"]
    cx.count("doc:" + ("ok" if d is not None else str(got)))
    if mm != got:
        cx.broke("parse", "document %s: code %s / model %s" % (s[:200], json.dumps(got)[:200], json.dumps(mm)[:200]))
    if d is None:
        cx.nontrivial = True
        return
    if "type" in doc:
        cx.nontrivial = True
    # print . parse is idempotent
    s1 = OD.distribution_to_json(d)
    d1 = quiet(OD.json_to_distribution, s1)
    if not (type(d1) is type(d) and d1 == d and OD.distribution_to_json(d1) == s1):
        hyp = True
        if isinstance(d, OD.FloatDistribution) and d.step is not None:
            hyp = K.in15({"low": d.low, "high": d.high, "step": d.step})
        if hyp:
            cx.viol("json-idempotent", "after parsing %s, print/parse changes the distribution: %r -> %r" % (s[:200], d, d1))
        else:
            cx.count("beyond15:json-not-idempotent")
    # the abbreviated form denotes the base class with the same arguments
    if "type" in doc and doc["type"] in ("float", "int", "categorical"):
        try:
            if doc["type"] == "float":
                ref: Any = quiet(OD.FloatDistribution, doc["low"], doc["high"], log=doc.get("log", False), step=doc.get("step"))
            elif doc["type"] == "int":
                ref = quiet(OD.IntDistribution, doc["low"], doc["high"], log=doc.get("log", False), step=doc.get("step") or 1)
            else:
                ref = OD.CategoricalDistribution(doc["choices"])
        except Exception:
            ref = None
        if ref is not None and not (type(ref) is type(d) and ref == d):
            cx.viol("json-abbreviated", "abbreviated %s parses to %r, the constructor gives %r" % (s[:200], d, ref))


# ---------------------------------------------------------------------------------------------------------------
# compatibility
# ---------------------------------------------------------------------------------------------------------------
def eval_compat(cx: Ctx, case: dict[str, Any]) -> None:
    a, b = K.build(case["a"]), K.build(case["b"])

    def comp(x: Any, y: Any) -> bool:
        try:
            OD.check_distribution_compatibility(x, y)
            return True
        except ValueError:
            return False

    c0 = comp(a, b)
    cx.count("compat:" + ("yes" if c0 else "no"))
    m = cx.ask({"op": "compat", "o": K.mdist(a, "dec"), "n": K.mdist(b, "dec")})
    if m != c0:
        cx.broke("compat", "check_distribution_compatibility(%r, %r): code %s / model %s" % (a, b, c0, m))
    meq = cx.ask({"op": "pyEq", "o": K.mdist(a, "dec"), "n": K.mdist(b, "dec")})
    if meq != (a == b):
        cx.broke("eq", "%r == %r: code %s / model %s" % (a, b, a == b, meq))
    a2 = quiet(OD.json_to_distribution, OD.distribution_to_json(a))
    b2 = quiet(OD.json_to_distribution, OD.distribution_to_json(b))
    if comp(a2, b2) != c0 or comp(a, b2) != c0 or comp(a2, b) != c0:
        cx.viol("answers-after-roundtrip", "compatibility of %r and %r changes after a JSON round trip" % (a, b))
    if not comp(a, a2):
        cx.viol("answers-after-roundtrip", "%r is incompatible with its own reloaded copy %r" % (a, a2))
    if type(a) is type(b):
        cx.nontrivial = True


# ---------------------------------------------------------------------------------------------------------------
# the search-space transform
# ---------------------------------------------------------------------------------------------------------------
def member_exact(d: OD.BaseDistribution, v: Any) -> str | None:
    """model-free oracle: is the external value `v` a member of the declared domain (exact rationals)?"""
    if isinstance(d, OD.CategoricalDistribution):
        ok = any(v is c or OD._categorical_choice_equal(v, c) for c in d.choices)
        return None if ok else "%r is not one of the choices" % (v,)
    if isinstance(d, OD.IntDistribution):
        if isinstance(v, bool) or not isinstance(v, (int, np.integer)):
            return "%r is not an int" % (v,)
        if not (d.low <= v <= d.high and (int(v) - d.low) % d.step == 0):
            return "%r is outside [%d, %d] or off the step-%d grid" % (v, d.low, d.high, d.step)
        return None
    if isinstance(v, bool) or not isinstance(v, (float, np.floating)) or math.isnan(v):
        return "%r is not a float" % (v,)
    q = K.fbin(v)
    if not (K.fbin(d.low) <= q <= K.fbin(d.high)):
        return "%r is outside [%r, %r]" % (v, d.low, d.high)
    if d.step is not None:
        lo, st = K.fdec(d.low), K.fdec(d.step)
        k = (q - lo) / st
        off = abs(q - (lo + round(k) * st))
        # on the grid up to what `_contains` itself tolerates, or up to the float resolution at this magnitude
        if off > st / 10 ** 8 and off > TOL_GRID_ULP * Fraction(K.ulp(grid_scale(d))):
            return "%r is not within 1e-8 step / %d ulp of a grid point of low=%r step=%r" % (v, TOL_GRID_ULP, d.low, d.step)
    return None


def grid_scale(d: OD.FloatDistribution) -> float:
    """magnitude whose ulp bounds the error of `round(k) * step + low` in floats: k*step reaches high - low"""
    return max(abs(d.low), abs(d.high), abs(d.high - d.low))


def grid_value_ok(d: OD.FloatDistribution, v: float, back: float) -> int | None:
    """stepped float: how many ulps the recomputed grid value is from the original (None = not the same grid point)"""
    if back == v:
        return 0
    u = abs(K.fbin(v) - K.fbin(back)) / Fraction(K.ulp(grid_scale(d)))
    return int(math.ceil(u)) if u <= TOL_GRID_ULP else None


def env_tables(dists: list[OD.BaseDistribution], cfg: dict[str, bool], params: list[Any] | None, xs: list[float] | None) -> dict[str, Any]:
    lg: dict[str, str] = {}
    ex: dict[str, str] = {}
    below: dict[str, str] = {}

    def addlg(x: Any) -> None:
        q = Fraction(x) if not isinstance(x, float) else K.fbin(x)
        if q > 0:
            lg[K.rs(q)] = K.rs(K.fbin(math.log(x)))

    col = 0
    for i, d in enumerate(dists):
        if isinstance(d, OD.CategoricalDistribution):
            col += len(d.choices)
            continue
        if isinstance(d, OD.FloatDistribution) and d.step is None:
            below[K.rs(K.fbin(d.high))] = K.rs(K.fbin(float(np.nextafter(d.high, d.high - 1))))
        if d.log:
            h = 0.5 * d.step if (cfg["tstep"] and isinstance(d, OD.IntDistribution)) else 0.0
            for x in (d.low, d.high, d.low - h, d.high + h):
                addlg(x)
            if params is not None:
                addlg(params[i])
            if xs is not None:
                x = float(xs[col])
                try:
                    ex[K.rs(K.fbin(x))] = K.rs(K.fbin(math.exp(x)))
                except OverflowError:
                    pass
        col += 1
    return {"lg": [[a, b] for a, b in lg.items()], "ex": [[a, b] for a, b in ex.items()], "below": [[a, b] for a, b in below.items()]}


def tol_log(v: float, t01: bool = False) -> float:
    """ulps allowed between v and exp(log(v)): log() is off by <= 1 ulp of |ln v|, which exp() turns into a relative
    error of |ln v| * 2^-52, i.e. up to 2|ln v| ulps of v; plus a few ulps for exp itself (and the affine 0-1 map)."""
    a = abs(math.log(abs(v))) if v not in (0.0,) and math.isfinite(v) else 0.0
    return (TOL_LOG_ULP + 2.0 * a) * (2.0 if t01 else 1.0) + (TOL_01_ULP if t01 else 0)


def close_enough(a: float, q: Fraction, scale: float, n_ulp: int) -> bool:
    return abs(K.fbin(a) - q) <= n_ulp * Fraction(K.ulp(scale))


def eval_space(cx: Ctx, case: dict[str, Any], r: random.Random) -> None:
    dists = [K.build(c) for c in case["dists"]]
    cfg = case["cfg"]
    names = ["p%d" % i for i in range(len(dists))]
    space = dict(zip(names, dists))
    tr = _SearchSpaceTransform(space, transform_log=cfg["tlog"], transform_step=cfg["tstep"], transform_0_1=cfg["t01"])
    mspace = [K.mdist(d, "bin") for d in dists]
    raw = tr._raw_bounds
    cx.count("space:cfg:%d%d%d" % (cfg["tlog"], cfg["tstep"], cfg["t01"]))
    has_log = any(getattr(d, "log", False) for d in dists)

    # -- bounds ----------------------------------------------------------------------------------------------------
    env0 = env_tables(dists, cfg, None, None)
    mb = cx.ask({"op": "rawBounds", "cfg": cfg, "space": mspace, "env": env0})
    # `low - 0.5 * step` is rounded once in floats: compare within 1 ulp
    for (mlo, mhi), (lo, hi) in zip(mb, raw.tolist()):
        if abs(K.pr(mlo) - K.fbin(lo)) > Fraction(K.ulp(lo)) or abs(K.pr(mhi) - K.fbin(hi)) > Fraction(K.ulp(hi)):
            cx.broke("bounds", "raw bounds differ: model %s / code %s for %s" % (str(mb)[:300], raw.tolist(), dists))
            break
    if len(mb) != raw.shape[0]:
        cx.broke("bounds", "number of columns: model %d / code %d for %s" % (len(mb), raw.shape[0], dists))
    why_cols = G11.bookkeeping_agrees(cx.last, tr)   # generated column_to_encoded_columns / encoded_column_to_column vs the object's
    if why_cols is not None:
        cx.broke("bookkeeping", "%s for %s" % (why_cols, dists))
    elif isinstance(cx.last, dict) and "c2e" in cx.last:
        cx.count("gen:bookkeeping-equal")
    md = cx.ask({"op": "bounds", "cfg": cfg, "space": mspace, "env": env0})   # the `bounds` property (unit rows under 0-1 scaling)
    if cfg["t01"] and [[K.pr(a), K.pr(b)] for a, b in md] != [[K.fbin(a), K.fbin(b)] for a, b in tr.bounds.tolist()]:
        cx.broke("bounds", "declared bounds under 0-1 scaling: model %s / code %s" % (str(md)[:200], tr.bounds.tolist()))
    if any(lo > hi for lo, hi in raw.tolist()):
        cx.viol("bounds", "a lower bound exceeds its upper bound: %s for %s" % (raw.tolist(), dists))
    bnd = tr.bounds
    if cfg["t01"] and not (np.all(bnd[:, 0] == 0.0) and np.all(bnd[:, 1] == 1.0) and bnd.shape == raw.shape):
        cx.viol("bounds", "0-1 bounds are not the unit cube")
    scale_cols = [max(abs(lo), abs(hi), 1e-300) for lo, hi in raw.tolist()]

    # -- forward + round trip on contained configurations --------------------------------------------------------
    for params in case["configs"]:
        # a fresh NaN object: `tuple.index` would find the identical object first (identity is not modelled)
        params = [float("nan") if isinstance(p, float) and math.isnan(p) else p for p in params]
        pd = dict(zip(names, params))
        x = tr.transform(pd)
        cx.count("space:transform")
        env = env_tables(dists, cfg, params, None)
        mx = cx.ask({"op": "transform", "cfg": cfg, "space": mspace, "params": [K.tok(p) for p in params], "env": env})
        if "ok" not in mx:
            cx.broke("transform", "model rejects %s for %s" % (params, dists))
        else:
            for j, (a, b) in enumerate(zip(x.tolist(), mx["ok"])):
                q = K.pr(b)
                if not cfg["t01"]:
                    okj = K.fbin(a) == q
                else:  # (x - lo) / (hi - lo) in floats: error ~ ulp(scale) / (hi - lo)
                    lo_j, hi_j = float(raw[j, 0]), float(raw[j, 1])
                    tol = Fraction(1, 2 ** 49)
                    if hi_j > lo_j:
                        tol += 4 * Fraction(K.ulp(max(abs(lo_j), abs(hi_j)))) / (K.fbin(hi_j) - K.fbin(lo_j))
                    okj = abs(K.fbin(a) - q) <= tol
                if not okj:
                    cx.broke("transform", "column %d: code %r / model %s for %s in %s cfg %s" % (j, a, b, params, dists, cfg))
                    break
        lo_b, hi_b = bnd[:, 0], bnd[:, 1]
        if not (np.all(x >= lo_b) and np.all(x <= hi_b)):
            cx.viol("transform-in-bounds", "transform(%s) = %s leaves the declared bounds %s for %s cfg %s" % (params, x.tolist(), bnd.tolist(), dists, cfg))
        back = tr.untransform(x)
        cx.nontrivial = True
        for nme, d, v in zip(names, dists, params):
            w = back[nme]
            why = member_exact(d, w)
            if why is not None and not (isinstance(d, OD.FloatDistribution) and d.log and K.ulps_apart(w, min(max(w, d.low), d.high)) <= tol_log(w, cfg["t01"])):
                cx.viol("untransform-in-domain", "untransform(transform(%r)) = %r: %s (%r, cfg %s)" % (v, w, why, d, cfg))
                continue
            if isinstance(d, OD.CategoricalDistribution):
                same = w is v or OD._categorical_choice_equal(w, v)
                if not same:
                    cx.viol("untransform-transform", "categorical %r comes back as %r (%r)" % (v, w, d))
                continue
            if isinstance(d, OD.IntDistribution):
                if w != v or isinstance(w, bool) or not isinstance(w, int):
                    if d.log and cfg["tlog"] and d.high > 2 ** 40:
                        cx.count("space:log-int-beyond-2^40-inexact")
                    else:
                        cx.viol("untransform-transform", "int %r comes back as %r (%r, cfg %s)" % (v, w, d, cfg))
                continue
            if w == v:
                continue
            u = K.ulps_apart(v, w)
            if d.log:
                if u <= tol_log(v, cfg["t01"]):
                    cx.count("space:log-float-within-ulps")
                else:
                    cx.viol("untransform-transform", "log float %r comes back as %r (%.1f ulp; %r, cfg %s)" % (v, w, u, d, cfg))
            elif d.step is not None:
                if grid_value_ok(d, v, w) is not None:
                    cx.known("stepped-float-grid-2ulp", "FloatDistribution(%r, %r, step=%r): value %r untransforms to %r (%.2f ulp)" % (d.low, d.high, d.step, v, w, u))
                else:
                    cx.viol("untransform-transform", "stepped float %r comes back as %r (%r, cfg %s)" % (v, w, d, cfg))
            else:
                hc = float(np.nextafter(d.high, d.high - 1))
                if v == d.high and w == hc and not cfg["t01"]:
                    cx.known("untransform-high-endpoint-1ulp", "FloatDistribution(%r, %r): untransform(transform(high)) = %r" % (d.low, d.high, w))
                elif cfg["t01"] and (close_enough(w, K.fbin(v), max(abs(d.low), abs(d.high)), TOL_01_ULP) or (v == d.high and w == hc)):
                    cx.count("space:t01-float-within-ulps")
                    if v == d.high and w == hc:
                        cx.known("untransform-high-endpoint-1ulp", "FloatDistribution(%r, %r) with 0-1 scaling: untransform(transform(high)) = %r" % (d.low, d.high, w))
                else:
                    cx.viol("untransform-transform", "float %r comes back as %r (%.1f ulp; %r, cfg %s)" % (v, w, u, d, cfg))

    # -- backward: box points --------------------------------------------------------------------------------------
    contract = cfg["tlog"] or not cfg["tstep"]
    for xs in case["points"]:
        xa = np.array(xs, dtype=np.float64)
        try:
            out = tr.untransform(xa)
        except OverflowError:
            cx.count("space:exp-overflow")
            continue
        cx.count("space:untransform")
        envx = env_tables(dists, cfg, None, list(xa if not cfg["t01"] else (raw[:, 0] + xa * (raw[:, 1] - raw[:, 0]))))
        if not cfg["t01"]:
            mo = cx.ask({"op": "untransform", "cfg": cfg, "space": mspace, "xs": [K.rs(K.fbin(float(t))) for t in xa], "env": envx})
        else:
            mo = None
        for j, (nme, d) in enumerate(zip(names, dists)):
            w = out[nme]
            why = member_exact(d, w)
            if why is not None:
                if isinstance(d, OD.FloatDistribution) and d.log and K.ulps_apart(w, min(max(w, d.low), d.high)) <= tol_log(w, cfg["t01"]):
                    cx.count("space:log-float-edge-within-ulps")
                elif not contract and isinstance(d, OD.IntDistribution) and d.log:
                    cx.count("space:out-of-contract-config-log-int-outside")
                else:
                    cx.viol("untransform-in-domain", "box point %s untransforms to %s = %r: %s (%r, cfg %s)" % (xs, nme, w, why, d, cfg))
                continue
            if mo is None:
                continue
            if "ok" not in mo:
                cx.broke("untransform", "model rejects the point %s for %s" % (xs, dists))
                break
            mt = mo["ok"][j]
            if isinstance(d, OD.FloatDistribution):
                q = K.pr(mt["f"])
                if d.step is None:
                    okj = K.fbin(w) == q
                else:
                    okj = abs(K.fbin(w) - q) <= TOL_GRID_ULP * Fraction(K.ulp(grid_scale(d)))
                    if not okj:  # a rounding tie decided differently in floats and in exact arithmetic
                        k = (K.fbin(float(xa[sum(len(dd.choices) if isinstance(dd, OD.CategoricalDistribution) else 1 for dd in dists[:j])])) - K.fbin(d.low)) / K.fbin(d.step)
                        if abs(abs(k - math.floor(k)) - Fraction(1, 2)) < Fraction(1, 10 ** 9):
                            cx.count("space:rounding-tie")
                            okj = True
            elif isinstance(d, OD.IntDistribution):
                okj = mt == K.tok(int(w))
                if not okj:
                    col = sum(len(dd.choices) if isinstance(dd, OD.CategoricalDistribution) else 1 for dd in dists[:j])
                    xv = float(xa[col])
                    if not d.log:
                        k = (K.fbin(xv) - d.low) / d.step
                        if abs(abs(k - math.floor(k)) - Fraction(1, 2)) < Fraction(1, 10 ** 9):
                            cx.count("space:rounding-tie")
                            okj = True
            else:
                okj = mt == K.tok(w)
            if not okj:
                cx.broke("untransform", "box point %s -> %s: code %r / model %s (%r, cfg %s)" % (xs, nme, w, mt, d, cfg))


# ---------------------------------------------------------------------------------------------------------------
# case generation
# ---------------------------------------------------------------------------------------------------------------
def gen_int_triple(r: random.Random) -> dict[str, Any]:
    mag = r.choice([5, 50, 10 ** 4, 2 ** 31, 2 ** 63, 2 ** 64 + 7, 10 ** 30])
    low = r.randint(-mag, mag)
    step = r.choice([1, 2, 3, 7, r.randint(1, 20), r.randint(1, mag), mag * 3])
    high = low + r.choice([0, 1, step - 1, step, step + 1, r.randint(0, 5) * step, r.randint(0, mag), r.randint(0, 50) * step + r.randint(0, step)])
    return {"k": "int3", "low": low, "high": high, "step": step}


def gen_dist_case(r: random.Random) -> dict[str, Any]:
    k = r.random()
    if k < 0.42:
        c = K.gen_float_in15(r, log=r.random() < 0.15)
        c["stream"] = "in15"
    elif k < 0.52:
        c = K.gen_float_wild(r)
        c["stream"] = "beyond15"
    elif k < 0.77:
        c = K.gen_int(r, big=r.random() < 0.1)
    else:
        c = K.gen_cat(r)
    c["k"] = "dist"
    return c


def gen_bad_dist_case(r: random.Random) -> dict[str, Any]:
    """arguments a constructor must reject (or that sit on the edge of rejection)"""
    k = r.randrange(8)
    if k == 0:
        c: dict[str, Any] = {"cls": "FloatDistribution", "low": 2.0, "high": 1.0, "log": False, "step": None}
    elif k == 1:
        c = {"cls": "FloatDistribution", "low": r.choice([0.0, -1.0, 1e-9]), "high": 1.0, "log": True, "step": None}
    elif k == 2:
        c = {"cls": "FloatDistribution", "low": 0.0, "high": 1.0, "log": False, "step": r.choice([0.0, -0.5, 0.25])}
    elif k == 3:
        c = {"cls": "FloatDistribution", "low": 1.0, "high": 2.0, "log": True, "step": 0.5}
    elif k == 4:
        c = {"cls": "IntDistribution", "low": r.choice([0, 1, 5]), "high": 9, "log": True, "step": r.choice([1, 2])}
    elif k == 5:
        c = {"cls": "IntDistribution", "low": 3, "high": r.choice([2, 3, 4]), "log": False, "step": r.choice([0, -1, 1])}
    elif k == 6:
        c = {"cls": "CategoricalDistribution", "choices": r.choice([[], [1]])}
    else:
        c = {"cls": "IntLogUniformDistribution", "low": r.choice([0, 1, 2]), "high": 7, "log": True, "step": r.choice([1, 3])}
    c["k"] = "dist"
    return c


def gen_doc(r: random.Random) -> dict[str, Any]:
    k = r.random()
    if k < 0.45:  # abbreviated, well-formed
        t = r.choice(["float", "int", "categorical"])
        if t == "float":
            c = K.gen_float_in15(r, log=r.random() < 0.2)
            doc: dict[str, Any] = {"type": "float", "low": c["low"], "high": c["high"]}
            if c["step"] is not None or r.random() < 0.3:
                doc["step"] = c["step"]
            if c["log"] or r.random() < 0.3:
                doc["log"] = c["log"]
        elif t == "int":
            c = K.gen_int(r)
            doc = {"type": "int", "low": c["low"], "high": c["high"]}
            if c["step"] != 1 or r.random() < 0.3:
                doc["step"] = c["step"] if r.random() < 0.9 else None
            if c["log"] or r.random() < 0.3:
                doc["log"] = c["log"]
        else:
            doc = {"type": "categorical", "choices": K.gen_cat(r)["choices"]}
        return {"k": "doc", "doc": doc}
    if k < 0.7:  # full form with defaults omitted / hand-written attribute sets
        t = r.choice(["FloatDistribution", "IntDistribution", "IntUniformDistribution", "DiscreteUniformDistribution",
                      "UniformDistribution", "LogUniformDistribution", "IntLogUniformDistribution", "CategoricalDistribution"])
        if t in ("FloatDistribution", "UniformDistribution", "LogUniformDistribution", "DiscreteUniformDistribution"):
            c = K.gen_float_in15(r, log=(t == "LogUniformDistribution") or (t == "FloatDistribution" and r.random() < 0.2),
                                 stepped=(t == "DiscreteUniformDistribution") or (t == "FloatDistribution" and r.random() < 0.5))
            attrs: dict[str, Any] = {"low": c["low"], "high": c["high"]}
            if t == "FloatDistribution":
                if c["step"] is not None or r.random() < 0.5:
                    attrs["step"] = c["step"] if not c["log"] else None
                if r.random() < 0.7:
                    attrs["log"] = c["log"]
            elif t == "DiscreteUniformDistribution":
                attrs["q"] = c["step"] if c["step"] is not None else 1.0
        elif t == "CategoricalDistribution":
            attrs = {"choices": K.gen_cat(r)["choices"]}
        else:
            c = K.gen_int(r)
            if t == "IntLogUniformDistribution":
                c["low"] = abs(c["low"]) + 1
                c["high"] = c["low"] + abs(c["high"])
                c["step"] = 1
            attrs = {"low": c["low"], "high": c["high"]}
            if r.random() < 0.7:
                attrs["step"] = c["step"]
            if t == "IntDistribution" and r.random() < 0.6:
                attrs["log"] = False
        return {"k": "doc", "doc": {"name": t, "attributes": attrs}}
    # malformed
    bad = r.choice([
        {"name": "NoSuchDistribution", "attributes": {"low": 0, "high": 1}},
        {"type": "nosuch", "low": 0, "high": 1},
        {"type": "float", "low": 0.0},
        {"type": "int", "high": 3},
        {"type": "categorical"},
        {"name": "FloatDistribution", "attributes": {"low": 0.0, "high": 1.0, "q": 0.5}},
        {"name": "UniformDistribution", "attributes": {"low": 0.0, "high": 1.0, "log": False}},
        {"name": "IntDistribution", "attributes": {"low": 0}},
        {"name": "FloatDistribution", "attributes": {"high": 1.0}},
        {"name": "CategoricalDistribution", "attributes": {"choices": []}},
        {"name": "FloatDistribution", "attributes": {"low": 1.0, "high": 0.0}},
        {"name": "IntDistribution", "attributes": {"low": 0, "high": 9, "step": 0}},
        {"name": "IntDistribution", "attributes": {"low": 0, "high": 9, "step": 2, "log": True}},
        {"type": "float", "low": 0.0, "high": 1.0, "step": 0.3, "log": True},
        {"low": 0, "high": 1},
    ])
    return {"k": "doc", "doc": bad}


def gen_compat(r: random.Random) -> dict[str, Any]:
    def one() -> dict[str, Any]:
        k = r.random()
        if k < 0.35:
            return K.gen_float_in15(r, log=r.random() < 0.4)
        if k < 0.7:
            return K.gen_int(r)
        return K.gen_cat(r)
    a = one()
    k = r.random()
    if k < 0.35:
        b = dict(a)
        if a["cls"] == "CategoricalDistribution":
            ch = list(a["choices"])
            m = r.random()
            if m < 0.3 and ch:  # equal-by-== spelling of one choice
                i = r.randrange(len(ch))
                c = ch[i]
                if isinstance(c, bool):
                    ch[i] = int(c)
                elif isinstance(c, int) and abs(c) < 2 ** 53:
                    ch[i] = float(c)
            elif m < 0.5:
                ch = ch[::-1]
            elif m < 0.6:
                ch = ch + [r.choice(K.CHOICE_POOL)]
            b = {"cls": "CategoricalDistribution", "choices": ch}
        elif r.random() < 0.5 and "Float" in a["cls"] and not a["log"]:
            b["high"] = a["high"] + abs(a["high"]) + 1.0
            b["step"] = None
    else:
        b = one()
    return {"k": "compat", "a": a, "b": b}


def values_for(d: OD.BaseDistribution, r: random.Random, n: int) -> list[Any]:
    """contained external values: endpoints, grid points, interior"""
    from decimal import Decimal
    if isinstance(d, OD.CategoricalDistribution):
        return [d.choices[r.randrange(len(d.choices))] for _ in range(n)]
    if isinstance(d, OD.IntDistribution):
        kmax = (d.high - d.low) // d.step
        ks = [0, kmax, 1 if kmax >= 1 else 0, max(kmax - 1, 0)] + [r.randint(0, kmax) for _ in range(n)]
        return [d.low + k * d.step for k in ks[:n]] if n <= 4 else [d.low + k * d.step for k in r.sample(ks, n)]
    if d.step is not None:
        dl, ds = Decimal(repr(d.low)), Decimal(repr(d.step))
        kmax = int((Decimal(repr(d.high)) - dl) // ds)
        ks = [0, kmax, 1 if kmax >= 1 else 0, max(kmax - 1, 0)] + [r.randint(0, kmax) for _ in range(n)]
        r.shuffle(ks)
        return [min(max(float(dl + k * ds), d.low), d.high) for k in ks[:n]]
    if d.log:
        cand = [d.low, d.high, math.sqrt(d.low * d.high)] + [math.exp(r.uniform(math.log(d.low), math.log(d.high))) for _ in range(n)]
    else:
        cand = [d.low, d.high, d.low + (d.high - d.low) / 2, float(np.nextafter(d.high, -math.inf))] + [d.low + (d.high - d.low) * r.random() for _ in range(n)]
    cand = [min(max(c, d.low), d.high) for c in cand]
    r.shuffle(cand)
    return cand[:n]


def gen_space(r: random.Random, cfg: dict[str, bool] | None = None) -> dict[str, Any]:
    n = r.choice([1, 1, 2, 3, 4])
    dcs: list[dict[str, Any]] = []
    while len(dcs) < n:
        k = r.random()
        if k < 0.45:
            c = K.gen_float_in15(r, log=r.random() < 0.25)
        elif k < 0.8:
            c = K.gen_int(r)
            if c["log"] and c["high"] > 2 ** 40:
                c["high"] = c["low"] + 1000
        else:
            c = K.gen_cat(r)
            c["choices"] = c["choices"][:5]
        try:
            d = K.build(c)
        except Exception:
            continue
        # keep the grid small enough for float arithmetic to resolve a step (ordinary magnitudes)
        if isinstance(d, OD.FloatDistribution) and d.step is not None and (d.high - d.low) / d.step > 2 ** 40:
            continue
        if isinstance(d, OD.IntDistribution) and max(abs(d.low), abs(d.high), d.high - d.low + d.step) >= 2 ** 51:
            continue
        dcs.append(K.case_of(d))
    dists = [K.build(c) for c in dcs]
    if cfg is None:
        cfg = {"tlog": r.random() < 0.8, "tstep": r.random() < 0.8, "t01": r.random() < 0.35}
    ncfg = r.choice([2, 3, 5])
    cols = [values_for(d, r, ncfg) for d in dists]
    configs = [[cols[i][j] for i in range(len(dists))] for j in range(ncfg)]
    space = dict(("p%d" % i, d) for i, d in enumerate(dists))
    tr = _SearchSpaceTransform(space, transform_log=cfg["tlog"], transform_step=cfg["tstep"], transform_0_1=cfg["t01"])
    b = tr.bounds
    pts: list[list[float]] = []
    dim = b.shape[0]
    corners = list(itertools.product([0, 1], repeat=dim)) if dim <= 4 else [tuple(r.randint(0, 1) for _ in range(dim)) for _ in range(12)]
    for cr in corners:
        pts.append([float(b[i, c]) for i, c in enumerate(cr)])
    for _ in range(r.choice([4, 8])):
        p = []
        for i in range(dim):
            lo, hi = float(b[i, 0]), float(b[i, 1])
            m = r.random()
            if m < 0.5:
                p.append(lo + (hi - lo) * r.random())
            elif m < 0.65:
                p.append(float(np.nextafter(lo, math.inf)))
            elif m < 0.8:
                p.append(float(np.nextafter(hi, -math.inf)))
            else:
                p.append(lo + (hi - lo) * r.choice([0.5, 0.25, 0.75]))
            p[-1] = min(max(p[-1], lo), hi)
        pts.append(p)
    # half-way points between grid values (rounding ties) for the first stepped column
    return {"k": "space", "dists": dcs, "cfg": cfg, "configs": configs, "points": pts}


# ---------------------------------------------------------------------------------------------------------------
# driver of the whole thing
# ---------------------------------------------------------------------------------------------------------------
EVAL = {"int3": lambda cx, c, r: eval_int_triple(cx, c), "dist": eval_dist, "doc": lambda cx, c, r: eval_doc(cx, c),
        "compat": lambda cx, c, r: eval_compat(cx, c), "space": eval_space}


def case_seed(case: dict[str, Any]) -> int:
    import hashlib
    return int(hashlib.sha1(core.canon(case).encode()).hexdigest()[:12], 16)


def run_case(drv: core.Driver, case: dict[str, Any], seed: int) -> Ctx:
    cx = Ctx(drv)
    r = random.Random(case_seed(case))  # derived from the case itself, so that a replay sees the same probes
    try:
        EVAL[case["k"]](cx, case, r)
    except core.DriverBroken:
        raise
    except Exception as e:  # the real code crashed on a valid case: that is a finding, not an infra failure
        import traceback
        cx.viol("crash", "%s on case %s: %s" % (type(e).__name__, json.dumps(case, default=str)[:300], traceback.format_exc()[-600:]))
    return cx


def absorb(chk: core.Check, case: dict[str, Any], cx: Ctx, beyond: list[Any]) -> None:
    for k, v in cx.counts.items():
        chk.count(k, v)
    chk.case(case, nontrivial=cx.nontrivial)
    chk.count("cases:" + case["k"])
    for f in cx.findings:
        if f.sev == "violation":
            chk.violation({"kind": f.kind}, {"case": case}, f.msg)
        elif f.sev == "known":
            if chk.hist.get("known:" + f.kind, 0) < 25:
                chk.violation({"kind": f.kind}, {"case": case}, f.msg)
            chk.count("known:" + f.kind)
        elif f.sev == "beyond15":
            if BEYOND15_AS_VIOLATION:
                chk.violation({"kind": "json-high-drops-whole-steps", "stream": "beyond-15-digits"}, {"case": case}, f.msg)
            elif len(beyond) < 3:
                beyond.append({"case": case, "what": f.msg})
        else:
            chk.broke("correspondence", {"kind": f.kind, "msg": f.msg[:500], "case": case})


def translate(chk: core.Check) -> None:
    path = os.path.join(core.LEAN_DIR, "OptunaVerif", "Generated", "DistInt.lean")
    try:
        src = tint.generate_dist_int(core.REPO)
    except tint.Untranslatable as e:
        chk.broke("translation", {"translator": "tint", "source": "optuna/distributions.py", "why": str(e)})
        return
    except Exception as e:
        chk.broke("translation", {"translator": "tint", "source": "optuna/distributions.py", "why": repr(e)})
        return
    core.write_if_changed(path, src)
    chk.translated.append("optuna/distributions.py: _adjust_int_uniform_high, IntDistribution.single, IntDistribution._contains -> lean/OptunaVerif/Generated/DistInt.lean")


GEN_CRASHES: list[str] = []


def _safe(f: Any, *a: Any) -> dict[str, Any] | None:
    """generators call the real constructors to shape their cases; if the real code crashes there, that is a
    finding about the code (reported by the caller), not an infrastructure failure"""
    try:
        return f(*a)
    except core.DriverBroken:
        raise
    except Exception:
        import traceback
        if len(GEN_CRASHES) < 5:
            GEN_CRASHES.append(traceback.format_exc()[-900:])
        return None


def gen_cases(r: random.Random, scale: int) -> list[dict[str, Any]]:
    cases: list[Any] = list(c for c in core.corpus_cases("C11"))
    cases += [gen_int_triple(r) for _ in range(60 * scale)]
    cases += [_safe(gen_dist_case, r) for _ in range(260 * scale)]
    cases += [gen_bad_dist_case(r) for _ in range(16 * scale)]
    cases += [_safe(gen_doc, r) for _ in range(80 * scale)]
    cases += [_safe(gen_compat, r) for _ in range(60 * scale)]
    all_cfgs = [{"tlog": a, "tstep": b, "t01": c} for a in (True, False) for b in (True, False) for c in (False, True)]
    cases += [_safe(gen_space, r, cfg) for cfg in all_cfgs for _ in range(2)]
    cases += [_safe(gen_space, r) for _ in range(60 * scale)]
    return [c for c in cases if c is not None]


FIXED_CASES: list[dict[str, Any]] = [
    # DESIGN F10 witnesses and the source's own remark about True/1
    {"k": "space", "dists": [{"cls": "FloatDistribution", "low": 0.0, "high": 1.0, "log": False, "step": None}],
     "cfg": {"tlog": True, "tstep": True, "t01": False}, "configs": [[1.0], [0.0], [0.5]], "points": [[1.0], [0.0]]},
    {"k": "space", "dists": [{"cls": "FloatDistribution", "low": 0.1, "high": 1.0, "log": False, "step": 0.3}],
     "cfg": {"tlog": True, "tstep": True, "t01": False}, "configs": [[1.0], [0.1], [0.4], [0.7]], "points": [[1.15], [-0.05], [0.55]]},
    {"k": "dist", "cls": "CategoricalDistribution", "choices": [True, 1, 1.0, False, 0]},
    {"k": "dist", "cls": "CategoricalDistribution", "choices": [float("nan"), None, float("nan")]},
    {"k": "dist", "cls": "FloatDistribution", "low": 0.1, "high": 1.0, "log": False, "step": 0.3, "stream": "in15"},
    {"k": "dist", "cls": "IntDistribution", "low": -3, "high": 10, "log": False, "step": 4},
    {"k": "doc", "doc": {"type": "int", "low": 1, "high": 10, "step": 4}},
    {"k": "doc", "doc": {"name": "IntUniformDistribution", "attributes": {"low": 1, "high": 10, "step": 4}}},
]


def replay_negative_witness(chk: core.Check) -> None:
    """`untransform_out_of_domain_witness` (Props/C11): the excluded configuration on the real code."""
    d = OD.IntDistribution(1, 4, log=True)
    tr = _SearchSpaceTransform({"x": d}, transform_log=False, transform_step=True)
    b = tr.bounds.tolist()
    out = tr.untransform(np.array([0.6]))["x"]
    chk.extra["model_negative_witness"] = {"theorem": "untransform_out_of_domain_witness", "config": "transform_log=False, transform_step=True (no caller in optuna)",
                                           "bounds": b, "untransform([0.6])": out, "reproduced_on_code": b == [[0.5, 4.5]] and out == 0}
    if not (b == [[0.5, 4.5]] and out == 0):
        chk.broke("correspondence", {"kind": "negative-witness", "msg": "the model's out-of-domain witness does not reproduce: bounds %s value %r" % (b, out)})


def search(chk: core.Check) -> None:
    """failing-input search: a larger run of the model-free oracles on the real code"""
    r = random.Random(chk.seed * 31 + 7)
    drv = core.Driver(DG.DRIVER)
    n = 0
    try:
        for case in gen_cases(r, 6):
            cx = run_case(drv, case, r.randrange(2 ** 32))
            n += 1
            for f in cx.findings:
                if f.sev == "violation":
                    chk.violation({"kind": f.kind}, {"case": case}, f.msg)
                    chk.search_log.append("search found a violating input after %d cases" % n)
                    return
    except core.DriverBroken as e:
        chk.search_log.append("driver broken during search: %s" % str(e)[:200])
    finally:
        drv.close()
    chk.search_log.append("search: %d further cases, no property-level failure" % n)


def main(chk: core.Check) -> int:
    chk.rule = RULE
    translate(chk)
    DG.regenerate(chk)    # T-dist: optuna/distributions.py -> Generated/DistMethods.lean (Props/C11DistGen proves it equal to the hand model)
    G11.regenerate(chk)   # T-transform: optuna/_transform.py -> Generated/TransformGen.lean (Props/C11Gen proves it equal to the hand model)
    if not getattr(chk, "no_prove", False):
        chk.prove(G11.prove_modules("C11") + DG.MODULES)
        G11.explain_proof_failure(chk)
        DG.explain_proof_failure(chk)
    beyond: list[Any] = []
    try:
        core.ensure_driver()
        DG.differential(chk, 1500 if chk.tier == "quick" else 30000)  # generated interpreter vs hand model, synthetic commands
        drv = core.Driver(DG.DRIVER)
        try:
            scale = 6 if chk.tier == "quick" else 240
            cases = FIXED_CASES + gen_cases(chk.rng, scale)
            for case in cases:
                cx = run_case(drv, case, chk.rng.randrange(2 ** 32))
                absorb(chk, case, cx, beyond)
                if len(chk.violations) >= 5 or len(chk.broken) >= 20:
                    break
            chk.traces_validated = chk.evaluations
            for tb in GEN_CRASHES:
                chk.broke("correspondence", {"kind": "real code crashed while a generator was shaping a case", "traceback": tb})
            try:
                replay_negative_witness(chk)
            except Exception as e:
                chk.broke("correspondence", {"kind": "negative-witness", "msg": "replay crashed: %r" % (e,)})
        finally:
            drv.close()
    except core.DriverBroken as e:
        chk.broke("correspondence", {"driver": str(e)[:800]})
    chk.extra["out_of_hypothesis"] = {
        "what": "distributions whose low/high/step or adjusted grid points need more than 15 significant digits (the repr_roundtrip hypothesis of adjust_discrete_float_idempotent fails); measured, not alarmed unless a failure is not explained by the digits",
        "cases": chk.hist.get("hypothesis:out", 0),
        "json_high_drops_whole_steps": chk.hist.get("beyond15:json-high-drops", 0),
        "witnesses": beyond,
    }
    chk.assumptions += [
        "floats enter the model as exact rationals: the decimal value Decimal(str(x)) where the code goes through Decimal (high adjustment, single), the binary value elsewhere",
        "ordinary magnitudes = low/high/step and every grid point are decimals of <= 15 significant digits on one quantum; |ints| and int ranges < 2^52 (log ints <= 2^40 for exact exp(log(v)))",
        "tolerances: log floats <= %d + 2|ln v| ulp (log() is exact to 1 ulp of |ln v|, exp() multiplies that by v); 0-1 scaling <= %d ulp of the larger bound; stepped floats <= %d ulp of max(|low|, |high|, high-low) from the decimal grid value (known finding); _contains of stepped floats: either answer inside the float rounding band of the 1e-8 threshold" % (TOL_LOG_ULP, TOL_01_ULP, TOL_GRID_ULP),
        "math.log / math.exp / np.nextafter are supplied to the model as tables evaluated by the harness (EnvOK: monotone, exp(log q) = q is a hypothesis of the theorems; measured within the log tolerance)",
        "object identity of NaN choices and Python's negative indexing of `choices` are not modelled (only contained indexes are compared)",
    ]
    return chk.finish(search=search)


def replay(chk: core.Check, path: str) -> int:
    w = json.load(open(path))
    case = w["witness"]["case"] if "witness" in w else w["no_longer_checks"][0]["detail"]["case"]
    core.ensure_driver()
    drv = core.Driver(DG.DRIVER)
    try:
        cx = run_case(drv, case, 0)
    finally:
        drv.close()
    bad = [f for f in cx.findings if f.sev in ("violation", "broke", "known")]
    for f in bad:
        print("REPRODUCED [%s/%s]: %s" % (f.sev, f.kind, f.msg[:400]))
    if not bad:
        print("not reproduced")
    return 1 if bad else 0
