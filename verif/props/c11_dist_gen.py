"""C11, translator tie: optuna/distributions.py as written in the source today -> Lean data -> proved equal to the hand model
(Model/Dist.lean).

regenerate(chk)   run verif/translators/tdist.py on core.REPO, write lean/OptunaVerif/Generated/DistMethods.lean (only when the text
                  changed), record what was read in chk.translated / chk.extra, report every untranslatable function as
                  chk.broke("translation", ...).  Call it BEFORE chk.prove([..., MODULE]).
MODULE            Props module with the `interp generated = hand model` equalities and the restated C11 theorems.
DRIVER            sub-driver `distirgen`: the protocol of `distgen` (hence `dist`) + field "gen" on adjustInt / adjustDiscrete / mkFlt /
                  mkInt / mkCat / single / contains / containsInfo / toInternal / toExternal / compat / convertOld / print / parse: the
                  interpreter of the generated bodies vs the hand model.  c11.py's exact-rational K stream (real code vs hand model)
                  goes through it, which makes that stream three-way: real function vs hand model vs interpreter.
explain_proof_failure(chk)   the NAMED declarations of Props/C11DistGen.lean that no longer check.
differential(chk, n)    seeded synthetic commands (no optuna involved): "gen" must be null.

Used by verif/props/c11.py.
"""
from __future__ import annotations

import json
import os
import random
import re
from fractions import Fraction
from typing import Any

from verif import core
from verif import dist_k as K
from verif.translators import tdist

OUT = os.path.join(core.LEAN_DIR, "OptunaVerif", "Generated", "DistMethods.lean")
MODULE = "OptunaVerif.Props.C11DistGen"
MODULE_FULL = "OptunaVerif.Props.C11DistFull"   # the loops, json_to_distribution, the headline round trips
MODULES = [MODULE, MODULE_FULL]
DRIVER = "distirgen"
ASSUMPTION = (
    "T-dist: the IR's leaves mean what Model/DistIR.lean says - a distribution object = its class + __dict__ in insertion order; ints, "
    "floats (exact rationals), NaN as a token; decimal.Decimal(str(x)) = the rational fed in for x, Decimal % and // on a non-negative "
    "dividend and positive divisor = ratMod / floor; float() / int() / round (half-even) / np.isnan / tuple.index (first ==, no object "
    "identity) / t[i] for 0 <= i; json.loads / dumps = identity on the dict structure; cls(**attributes) binds keywords to the generated "
    "__init__ signature; warnings classified by the constant part of their message; the unsupported-choice-type test is false on every "
    "representable choice; __eq__ / __hash__ / __repr__ / _categorical_choice_equal / class statements are pinned texts compared "
    "literally (pinned_sources), DISTRIBUTION_CLASSES and the __init__ signatures are pinned tables; +-inf, numeric strings, negative "
    "tuple indices are outside the representation")


def regenerate(chk: core.Check | None = None) -> dict[str, Any] | None:
    try:
        text, info, problems = tdist.translate(core.REPO)
    except (tdist.Untranslatable, SyntaxError, OSError) as e:
        if chk is None:
            raise
        chk.broke("translation", {"translator": "T-dist", "why": str(e)[:600]})
        return None
    changed = core.write_if_changed(OUT, text)
    if chk is not None:
        fs = info["functions"]
        n_ok = sum(1 for v in fs.values() if v is not None)
        line = "DistMethods: %d/%d function bodies of optuna/distributions.py as statement IR; class table %d; %d signatures; %d pinned texts%s" % (
            n_ok, len(fs), len(info["classes"]), len(info["signatures"]), len(info["pins"]), " (file changed)" if changed else "")
        if line not in chk.translated:
            chk.translated.append(line)
        chk.extra["dist_ir"] = {"statements": fs, "classes": info["classes"], "pins": [p[0] for p in info["pins"]]}
        for p in problems:
            chk.broke("translation", dict(p, translator="T-dist"))
        if ASSUMPTION not in chk.assumptions:
            chk.assumptions.append(ASSUMPTION)
    return info


def explain_proof_failure(chk: core.Check) -> list[str]:
    pr = chk.proof
    if pr is None or pr.ok:
        return []
    decl = re.compile(r"\s*(?:theorem|def|example|lemma)\b\s*([^\s:(]*)")
    names: list[str] = []
    for mod in MODULES:
        rel = mod.replace(".", "/") + ".lean"
        base = re.escape(rel.split("OptunaVerif/", 1)[1])
        lines = sorted({int(m.group(1)) for m in re.finditer(base + r":(\d+):\d+: error", pr.build_log)}
                       | {int(m.group(1)) for m in re.finditer(r"error: \S*" + base + r":(\d+):", pr.build_log)})
        if not lines:
            continue
        src = open(os.path.join(core.LEAN_DIR, rel)).read().splitlines()
        for ln in lines:
            name = None
            i0 = min(ln, len(src)) - 1
            j = i0
            while j >= 0 and not decl.match(src[j]) and not src[j].lstrip().startswith("/--"):
                j -= 1
            rng = range(i0, len(src)) if (j >= 0 and src[j].lstrip().startswith("/--") and not decl.match(src[i0])) else range(i0, -1, -1)
            for i in rng:
                m = decl.match(src[i])
                if m:
                    name = m.group(1) or ("example at %s line %d: %s" % (mod.split(".")[-1], i + 1, src[i].strip()[:80]))
                    break
            if name and name not in names:
                names.append(name)
    if names:
        chk.extra["C11DistGen_failed"] = names
        chk.broke("proof", {"modules": MODULES, "generated_bodies_no_longer_equal_hand_model": names})
    return names


def replay_parse_witness(chk: core.Check) -> None:
    """`parse_untyped_disagreement_witness` (Props/C11DistFull.lean) on the real code: non-integral numbers for an int class are
    validated RAW by json_to_distribution (1.5 > 1.2 -> ValueError), while the hand model Dist.fromAttrs truncates first"""
    import json as _json
    import warnings as _w
    from optuna import distributions as OD
    doc = _json.dumps({"name": "IntDistribution", "attributes": {"low": 1.5, "high": 1.2}})
    try:
        with _w.catch_warnings():
            _w.simplefilter("ignore")
            got: Any = OD.json_to_distribution(doc)
        err = None
    except Exception as e:  # noqa: BLE001
        got, err = None, type(e).__name__
    chk.count("dist-gen:parse-witness-replayed")
    chk.extra.setdefault("dist_ir", {})["parse_untyped_witness"] = {"doc": doc, "real_code": err or repr(got), "hand_model": "IntDistribution(1, 1)",
                                                                  "interpreter": "ValueError"}
    if err != "ValueError":
        chk.broke("correspondence", {"what": "the witness of parse_untyped_disagreement_witness no longer behaves on the real code as the "
                                             "interpreter of the generated json_to_distribution says (ValueError)", "real_code": err or repr(got)})


# ---------------------------------------------------------------------------------------------------------------------------
# differential on synthetic inputs
# ---------------------------------------------------------------------------------------------------------------------------
def _q(r: random.Random) -> Fraction:
    return Fraction(r.randrange(-30, 60), r.choice([1, 1, 2, 4, 5, 10, 3]))


def _tok(r: random.Random) -> Any:
    k = r.random()
    if k < 0.35:
        return {"f": K.rs(_q(r))}
    if k < 0.6:
        return {"i": str(r.randrange(-5, 12))}
    if k < 0.7:
        return {"b": r.random() < 0.5}
    if k < 0.78:
        return None
    if k < 0.92:
        return {"s": r.choice(["x", "y", ""])}
    return "nan"


def _wf_dist(r: random.Random) -> dict[str, Any]:
    """a distribution the constructors can produce (the methods are only meaningful on those)"""
    k = r.random()
    if k < 0.4:
        lo = _q(r)
        if r.random() < 0.5:
            st = Fraction(r.choice([1, 1, 2, 3, 5]), r.choice([1, 2, 4, 10]))
            hi = lo + st * r.choice([0, 1, 2, 5])
            return {"k": "flt", "c": r.choice(["float", "float", "discreteUniform"]), "low": K.rs(lo), "high": K.rs(hi), "log": False, "step": K.rs(st)}
        hi = lo + abs(_q(r)) * r.choice([0, 1, 1])
        log = lo > 0 and r.random() < 0.3
        return {"k": "flt", "c": "logUniform" if (log and r.random() < 0.3) else "uniform" if (not log and r.random() < 0.3) else "float",
                "low": K.rs(lo), "high": K.rs(hi), "log": log, "step": None}
    if k < 0.75:
        lo = r.randrange(-6, 9)
        st = r.choice([1, 1, 2, 3])
        log = lo >= 1 and r.random() < 0.3
        if log:
            st = 1
        hi = lo + st * r.choice([0, 1, 2, 7])
        return {"k": "int", "c": "intLogUniform" if (log and r.random() < 0.3) else "intUniform" if (not log and r.random() < 0.3) else "int",
                "low": str(lo), "high": str(hi), "log": log, "step": str(st)}
    return {"k": "cat", "choices": [_tok(r) for _ in range(r.choice([1, 1, 2, 3, 4]))]}


def synthetic(r: random.Random) -> dict[str, Any]:
    k = r.random()
    d = _wf_dist(r)
    if k < 0.1:
        return {"op": "adjustInt", "low": str(r.randrange(-9, 9)), "high": str(r.randrange(-9, 20)), "step": str(r.choice([1, 2, 3, 7, -2]))}
    if k < 0.2:
        lo = _q(r)
        return {"op": "adjustDiscrete", "low": K.rs(lo), "high": K.rs(lo + abs(_q(r))), "step": K.rs(Fraction(r.choice([1, 2, 3, 7]), r.choice([1, 2, 10, 3])))}
    if k < 0.32:
        return {"op": "mkFlt", "c": r.choice(["float", "float", "uniform", "logUniform", "discreteUniform"]), "low": K.rs(_q(r)), "high": K.rs(_q(r)),
                "log": r.random() < 0.3, "step": None if r.random() < 0.5 else K.rs(Fraction(r.choice([-1, 0, 1, 2, 3]), r.choice([1, 2, 10])))}
    if k < 0.44:
        return {"op": "mkInt", "c": r.choice(["int", "int", "intUniform", "intLogUniform"]), "low": str(r.randrange(-5, 9)), "high": str(r.randrange(-5, 20)),
                "log": r.random() < 0.3, "step": str(r.choice([-1, 0, 1, 1, 2, 3]))}
    if k < 0.5:
        return {"op": "mkCat", "choices": [_tok(r) for _ in range(r.choice([0, 1, 2, 3]))]}
    if k < 0.56:
        return {"op": "single", "d": d}
    if k < 0.66:
        v = _q(r)
        if d["k"] == "cat":
            v = Fraction(r.randrange(0, 5))
        return {"op": "contains", "d": d, "v": K.rs(v)}
    if k < 0.76:
        return {"op": "toInternal", "d": d, "v": r.choice(d["choices"]) if (d["k"] == "cat" and r.random() < 0.7) else _tok(r)}
    if k < 0.82:
        v = Fraction(r.randrange(0, 5)) if d["k"] == "cat" else _q(r)
        return {"op": "toExternal", "d": d, "v": K.rs(v)}
    if k < 0.88:
        return {"op": "compat", "o": d, "n": _wf_dist(r) if r.random() < 0.6 else d}
    if k < 0.92:
        return {"op": "convertOld", "d": d}
    return {"op": "print", "d": d}


def differential(chk: core.Check, n: int) -> None:
    """generated interpreter vs hand model on seeded synthetic commands; the `parse` op is exercised on the documents `print` produced"""
    replay_parse_witness(chk)
    r = random.Random(chk.seed * 48271 + 11)
    drv = core.Driver(DRIVER)
    try:
        for _ in range(n):
            q = synthetic(r)
            resp = drv.ask(q)
            if not isinstance(resp, dict) or "r" not in resp:
                raise core.DriverBroken("driver %s rejected %s: %s" % (DRIVER, json.dumps(q)[:300], resp))
            chk.count("dist-gen-differential:" + q["op"])
            if resp.get("genSkipped"):
                chk.count("dist-gen-differential:skipped:" + str(resp["genSkipped"])[:40])
            qs = [(q, resp)]
            if q["op"] == "print":
                q2 = {"op": "parse", "doc": resp["r"]}
                qs.append((q2, drv.ask(q2)))
                chk.count("dist-gen-differential:parse")
            for qq, rr in qs:
                if rr.get("gen") is not None:
                    chk.broke("correspondence", {"what": "interpreter of the generated distributions.py bodies differs from the hand model (Model/Dist.lean)",
                                                 "first": rr["gen"], "input": qq})
                    return
    finally:
        drv.close()
