"""C11 / C10, translator tie: optuna/_transform.py as written in the source today -> Lean data -> proved equal to the hand model.

regenerate(chk)   run verif/translators/ttransform.py on core.REPO, write lean/OptunaVerif/Generated/TransformGen.lean
                  (only when the text changed), record what was read in chk.translated / chk.extra, and report an
                  untranslatable source as chk.broke("translation", ...).  Call it BEFORE chk.prove([..., MODULE]).
MODULE / MODULE_C10   the Props modules that hold the equalities (C11Gen) and the C10 restatement (C10Gen).
DRIVER            sub-driver that speaks the protocol of `dist` and runs the interpreters of the generated IR side by
                  side with the hand model (field "gen" of every rawBounds / bounds / transform / untransform answer;
                  rawBounds also carries the generated column bookkeeping "c2e" / "e2c").
gen_disagreement(resp)   None | {"generated": ..., "hand": ...}
explain_proof_failure(chk)   after a failed chk.prove: the NAMED declarations of Props/C11Gen.lean / C10Gen.lean that no
                  longer check (the build log only has line numbers).
bookkeeping_agrees(resp, tr)  generated column_to_encoded_columns / encoded_column_to_column vs the real object's.

Used by verif/props/c11.py and c10.py (helper module, like c06_gen.py for C06).
"""
from __future__ import annotations

import os
import re
from typing import Any

from verif import core
from verif.translators import ttransform

OUT = os.path.join(core.LEAN_DIR, ttransform.OUT_REL)
MODULE = "OptunaVerif.Props.C11Gen"
MODULE_C10 = "OptunaVerif.Props.C10Gen"
DRIVER = "distgen"

ASSUMPTION = ("T-transform: the IR's primitives mean what the hand model means by them (math.log / math.exp = the abstract "
              "monotone pair, np.round = round half to even, int() = truncation, np.clip = min(max(.)), "
              "np.nextafter(h, h - 1) = the clamp `below h`, np.argmax = first maximal index, np.zeros/np.empty arrays "
              "filled front to back); asserts inside _transform.py hold; float rounding is outside the IR (measured by the sampled tie)")


def regenerate(chk: core.Check | None = None) -> dict[str, Any] | None:
    try:
        text, info = ttransform.translate(core.REPO)
    except (ttransform.Untranslatable, SyntaxError, OSError, IndexError, AttributeError) as e:
        if chk is None:
            raise
        chk.broke("translation", {"translator": "T-transform", "source": ttransform.SOURCE_REL, "why": ("%s: %s" % (type(e).__name__, e))[:600]})
        return None
    changed = core.write_if_changed(OUT, text)
    if chk is not None:
        chk.translated.append(
            "optuna/_transform.py: _transform_numerical_param (%d leaves), _untransform_numerical_param (%d leaves), "
            "_transform_search_space (bounds chain %d leaves + both loop arms + n_bounds), transform (loop arms + 0-1 block, mask %s), "
            "untransform (un-scaling + index %s), bounds property -> lean/OptunaVerif/Generated/TransformGen.lean%s" % (
                info["leaves"]["tnum"], info["leaves"]["unum"], info["leaves"]["ssBds"], info["fields"]["tMask"],
                info["fields"]["uCat"], " (file changed)" if changed else ""))
        chk.extra["transform_ir"] = {"sha1_of_source": info["sha1_of_source"], "module_constants": info["module_constants"],
                                     "fields": {k: (v if len(v) <= 400 else v[:400] + " ...") for k, v in info["fields"].items()}}
        if ASSUMPTION not in chk.assumptions:
            chk.assumptions.append(ASSUMPTION)
    return info


def explain_proof_failure(chk: core.Check) -> list[str]:
    """after chk.prove([..., MODULE]) failed: name the declarations of Props/C11Gen.lean / C10Gen.lean whose proof no
    longer checks; recorded in chk.extra["c11gen_failed"] and as one more `broke("proof", ...)` that carries the names"""
    pr = chk.proof
    if pr is None or pr.ok:
        return []
    names: list[str] = []
    for mod in (MODULE, MODULE_C10):
        rel = mod.replace(".", "/") + ".lean"
        short = rel.split("OptunaVerif/", 1)[1]
        lines = sorted({int(m.group(1)) for m in re.finditer(re.escape(short) + r":(\d+):\d+: error", pr.build_log)}
                       | {int(m.group(1)) for m in re.finditer(r"error: \S*" + re.escape(short) + r":(\d+):", pr.build_log)})
        if not lines:
            continue
        src = open(os.path.join(core.LEAN_DIR, rel)).read().splitlines()
        for ln in lines:
            name = None
            for i in range(min(ln, len(src)) - 1, -1, -1):
                m = re.match(r"\s*(?:theorem|def|example)\b\s*([^\s:(]*)", src[i])
                if m:
                    name = m.group(1) or ("example at %s:%d: %s" % (short, i + 1, src[i].strip()[:90]))
                    break
            if name and name not in names:
                names.append(name)
    if names:
        chk.extra["c11gen_failed"] = names
        chk.broke("proof", {"module": MODULE, "generated_transform_no_longer_equal_hand_model": names})
    return names


def gen_disagreement(resp: Any) -> Any:
    """the "gen" field of an answer of the `distgen` driver (None = generated interpreter and hand model agree)"""
    if isinstance(resp, dict):
        return resp.get("gen")
    return None


def bookkeeping_agrees(resp: Any, tr: Any) -> str | None:
    """generated `column_to_encoded_columns` / `encoded_column_to_column` (answer of rawBounds) vs the real object's;
    None = equal (or the driver did not send them), else a description of the difference"""
    if not isinstance(resp, dict) or "c2e" not in resp:
        return None
    real_c2e = [[int(i) for i in cols] for cols in tr.column_to_encoded_columns]
    real_e2c = [int(i) for i in tr.encoded_column_to_column]
    if resp["c2e"] != real_c2e:
        return "column_to_encoded_columns: generated %s / code %s" % (resp["c2e"], real_c2e)
    if resp["e2c"] != real_e2c:
        return "encoded_column_to_column: generated %s / code %s" % (resp["e2c"], real_e2c)
    return None


def prove_modules(pid: str) -> list[str]:
    """the module list for chk.prove of C11 / C10 (C10 = its own modules + C11's generated tie + the C10 restatement)"""
    if pid == "C11":
        return ["OptunaVerif.Props.C11", MODULE]
    return ["OptunaVerif.Props.C10", "OptunaVerif.Props.C10Nsga", MODULE, MODULE_C10]
