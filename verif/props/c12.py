"""C12 — best_trial / best_value / best_trials are exactly the optimum of the history.

translate:  verif/translators/best.py re-emits Generated/Best.lean (SQL rank table + ASC/DESC, comparison
            operators and branch structure of the six functions) from the source tree
prove:      Props/C12.lean (scan / incremental cache / SQL ORDER BY are optimal for all histories; constraint
            fallback; the three Pareto paths and best_trials are exact)
correspond: histories built through Study.ask / tell / add_trial / enqueue_trial (+ the "constraints" system attr)
            on every fleet configuration, in lockstep with the Lean models (compiled driver);
            plus `_is_pareto_front` on generated arrays against the model
observe:    an independent brute-force optimum / Pareto front computed in Python from study.get_trials()
"""
from __future__ import annotations

import json
import math
import sys
import random
import warnings
from fractions import Fraction
from typing import Any

from verif import core, fleet
from verif.translators import best as tbest
from verif.props import c12_gen as G12

RULE = (
    "seeded histories (1-2 studies sharing one storage, 1-4 objectives with mixed directions, 4-26 events: ask / "
    "add_trial in every state / enqueue / report / tell COMPLETE|PRUNED|FAIL|NaN in any order of completion / writes "
    "of the 'constraints' system attr incl. None, [], NaN; values from a small grid with -inf/+inf and duplicates) "
    "executed through the Study API on every fleet configuration and on the Lean models; a case = (configuration, "
    "studies, events); non-trivial = some study has >=2 COMPLETE trials and either a tie/infinite value among them or "
    "a recorded constraint; distinct by SHA-1 of the case.  Array cases: loss arrays n<=12 x k<=4 given to "
    "_is_pareto_front, non-trivial = contains a duplicate row or a tie in the first column"
)

# fraction of the generated cases each configuration runs (in-memory: all of them; SQLite behind gRPC: the fewest)
SHARE = {"mem": 1.0, "journal-symlink": 0.3, "journal-open": 0.3, "journal-redis": 0.3, "grpc(mem)": 0.2, "grpc(journal)": 0.12,
         "grpc(journal-redis)": 0.12, "rdb": 0.036, "cached": 0.036, "grpc(rdb)": 0.024, "grpc(cached)": 0.024}
ST = {"RUNNING": 0, "COMPLETE": 1, "PRUNED": 2, "FAIL": 3, "WAITING": 4}
GRID = [-1.0, 0.0, 0.5, 1.0, 2.0]
CGRID = [-1.0, 0.0, 0.0, 0.5, 2.0, -math.inf, math.inf]


# ------------------------------------------------------------------------------------------------ encoding
def fx(v: float) -> str:
    """exact value for the driver"""
    if math.isnan(v):
        return "nan"
    if math.isinf(v):
        return "inf" if v > 0 else "-inf"
    f = Fraction(v)
    return "%d/%d" % (f.numerator, f.denominator)


def fs(v: float) -> str:
    """value in an event (JSON-safe, exact)"""
    return repr(float(v))


def cons_to_driver(c: Any) -> Any:
    if c == "absent":
        return "absent"
    if c is None:
        return "null"
    return [fx(float(x)) for x in c]


def cons_dec(c: Any) -> Any:
    """event encoding -> python value ("absent" stays)"""
    if c == "absent" or c is None:
        return c
    return [float(x) for x in c]


# ------------------------------------------------------------------------------------------------ generator
def gen_value(r: random.Random) -> float:
    x = r.random()
    if x < 0.09:
        return -math.inf
    if x < 0.18:
        return math.inf
    if x < 0.26:
        # the largest / smallest finite doubles: an order key that folds +-inf onto them ties with a genuine value
        return r.choice([sys.float_info.max, -sys.float_info.max, sys.float_info.max, -sys.float_info.max, 5e-324, -5e-324])
    if x < 0.9:
        return r.choice(GRID)
    return round(r.uniform(-2, 3), 2)


def gen_cons(r: random.Random) -> Any:
    x = r.random()
    if x < 0.05:
        return None
    if x < 0.09:
        return []
    out = [r.choice(CGRID) for _ in range(r.choice([1, 1, 2]))]
    if r.random() < 0.04:
        out[r.randrange(len(out))] = math.nan
    return out


def gen_case(r: random.Random, n_events: int) -> dict[str, Any]:
    n_st = 1 if r.random() < 0.7 else 2
    studies = []
    for _ in range(n_st):
        k = r.choice([1, 1, 1, 1, 2, 2, 2, 3, 4])
        studies.append({"dirs": [r.choice([1, 2]) for _ in range(k)], "constrained": r.random() < 0.55})
    # generator-side view of the trial states so that most events are applicable
    states: list[list[str]] = [[] for _ in studies]
    reported: list[set[int]] = [set() for _ in studies]
    events: list[dict[str, Any]] = []
    for _ in range(n_events):
        s = r.randrange(n_st)
        nobj = len(studies[s]["dirs"])
        cm = studies[s]["constrained"]
        st = states[s]
        running = [i for i, x in enumerate(st) if x == "RUNNING"]
        open_ = [i for i, x in enumerate(st) if x in ("RUNNING", "WAITING")]
        x = r.random()
        if x < 0.22 or not st:
            w = [i for i, q in enumerate(st) if q == "WAITING"]
            if w:
                st[w[0]] = "RUNNING"
            else:
                st.append("RUNNING")
            events.append({"s": s, "e": "ask"})
        elif x < 0.50:
            state = r.choice(["COMPLETE"] * 6 + ["PRUNED", "PRUNED", "FAIL", "WAITING", "RUNNING"])
            ev: dict[str, Any] = {"s": s, "e": "add", "state": state, "values": None, "cons": "absent"}
            if state == "COMPLETE" or (state == "PRUNED" and r.random() < 0.7):
                ev["values"] = [fs(gen_value(r)) for _ in range(nobj)]
            if cm and r.random() < 0.75:
                c = gen_cons(r)
                ev["cons"] = None if c is None else [fs(v) for v in c]
            st.append(state)
            events.append(ev)
        elif x < 0.54:
            st.append("WAITING")
            events.append({"s": s, "e": "enqueue"})
        elif x < 0.64 and open_ and cm:
            c = gen_cons(r)
            events.append({"s": s, "e": "cons", "n": r.choice(open_), "cons": None if c is None else [fs(v) for v in c]})
        elif x < 0.70 and running and nobj == 1:
            n = r.choice(running)
            v = gen_value(r) if r.random() < 0.9 else math.nan
            reported[s].add(n)
            events.append({"s": s, "e": "report", "n": n, "step": r.randrange(4), "v": fs(v)})
        elif running:
            n = r.choice(running if r.random() < 0.5 else running[-2:])
            y = r.random()
            if y < 0.68:
                events.append({"s": s, "e": "tell", "n": n, "state": "COMPLETE", "values": [fs(gen_value(r)) for _ in range(nobj)]})
                st[n] = "COMPLETE"
            elif y < 0.84:
                events.append({"s": s, "e": "tell", "n": n, "state": "PRUNED"})
                st[n] = "PRUNED"
            elif y < 0.93:
                events.append({"s": s, "e": "tell", "n": n, "state": "FAIL"})
                st[n] = "FAIL"
            else:
                events.append({"s": s, "e": "tell", "n": n, "state": "NAN"})
                st[n] = "FAIL"
        else:
            st.append("RUNNING")
            events.append({"s": s, "e": "ask"})
    return {"studies": [{"dirs": x["dirs"]} for x in studies], "events": events}


# ------------------------------------------------------------------------------------------------ oracle
def _better_eq(d: int, a: float, b: float) -> bool:
    return a <= b if d == 1 else a >= b


def _cons_of(t: Any) -> Any:
    return t.system_attrs.get("constraints")


def _feasible(t: Any) -> bool:
    c = _cons_of(t)
    return c is not None and all(x <= 0.0 for x in c)


def _violated(t: Any) -> bool:
    c = _cons_of(t)
    return c is not None and any(x > 0.0 for x in c)


def oracle_single(trials: list[Any], d: int, obs: dict[str, Any]) -> list[tuple[str, str]]:
    """Independent brute force for a single-objective study.  Returns [(kind, message)] for property failures."""
    from optuna.trial import TrialState

    out: list[tuple[str, str]] = []
    comp = [t for t in trials if t.state == TrialState.COMPLETE]
    by_num = {t.number: t for t in trials}

    def opt_of(cands: list[Any]) -> set[int]:
        return {t.number for t in cands if all(_better_eq(d, t.values[0], u.values[0]) for u in cands)}

    opt = opt_of(comp)
    feas = [t for t in comp if _feasible(t)]
    feas_opt = opt_of(feas)
    # storage.get_best_trial
    b = obs["storage"]
    if b == "ValueError":
        if comp:
            out.append(("storage-raises", "storage.get_best_trial raised ValueError although COMPLETE trials %s exist" % sorted(t.number for t in comp)))
    elif isinstance(b, str):
        out.append(("storage-exception", "storage.get_best_trial raised %s" % b))
    elif b not in opt:
        out.append(("storage-not-optimal", "storage.get_best_trial returned trial %s (state %s, values %s); the optimum of the COMPLETE trials is %s" % (
            b, by_num[b].state.name if b in by_num else "?", by_num[b].values if b in by_num else "?", sorted(opt))))
    # Study.best_trial
    r = obs["study"]
    if r == "ValueError":
        ok = (not comp) or (not feas and any(_violated(by_num[i]) for i in opt))
        if not ok:
            out.append(("study-raises", "Study.best_trial raised ValueError; COMPLETE optimum %s, feasible COMPLETE trials %s" % (sorted(opt), sorted(t.number for t in feas))))
    elif isinstance(r, str):
        out.append(("study-exception", "Study.best_trial raised %s" % r))
    else:
        t = by_num.get(r)
        if t is None or t.state != TrialState.COMPLETE:
            out.append(("study-not-complete", "Study.best_trial returned trial %s which is not a COMPLETE trial of the study" % r))
        else:
            c = _cons_of(t)
            if c is None:
                if r not in opt:
                    out.append(("study-not-optimal", "Study.best_trial returned trial %s (value %s, no recorded constraints); optimum of the COMPLETE trials is %s" % (r, t.values, sorted(opt))))
            elif any(isinstance(x, float) and math.isnan(x) for x in c):
                if r not in opt and r not in feas_opt:
                    out.append(("study-not-optimal", "Study.best_trial returned trial %s (NaN constraint) which is neither an optimum %s nor a feasible optimum %s" % (r, sorted(opt), sorted(feas_opt))))
            elif not _feasible(t):
                if feas:
                    out.append(("study-infeasible", "Study.best_trial returned trial %s whose recorded constraints %s are violated although feasible COMPLETE trials %s exist" % (r, c, sorted(x.number for x in feas))))
                elif r not in opt:
                    out.append(("study-not-optimal", "Study.best_trial returned infeasible non-optimal trial %s" % r))
            elif r not in feas_opt:
                out.append(("study-not-optimal", "Study.best_trial returned feasible trial %s (value %s); a feasible COMPLETE trial beats it: feasible optimum %s" % (r, t.values, sorted(feas_opt))))
            bv = obs.get("value")
            if not isinstance(bv, str) and bv is not None and bv != t.values[0]:
                out.append(("best-value", "Study.best_value %r differs from the value %r of best_trial %s" % (bv, t.values[0], r)))
    return out


def oracle_front(trials: list[Any], dirs: list[int], got: Any) -> list[tuple[str, str]]:
    from optuna.trial import TrialState

    constrained = any("constraints" in t.system_attrs for t in trials)
    elig = [t for t in trials if t.state == TrialState.COMPLETE and (not constrained or _feasible(t))]

    def dom(a: Any, b: Any) -> bool:
        return all(_better_eq(d, x, y) for d, x, y in zip(dirs, a.values, b.values)) and \
            any(not _better_eq(d, y, x) for d, x, y in zip(dirs, a.values, b.values))

    want = sorted(t.number for t in elig if not any(dom(s, t) for s in elig))
    if isinstance(got, str):
        return [("front-exception", "Study.best_trials raised %s; expected %s" % (got, want))]
    if sorted(got) != want:
        return [("front", "Study.best_trials returned trials %s; the non-dominated %sCOMPLETE trials are %s" % (
            sorted(got), "feasible " if constrained else "", want))]
    return []


# ------------------------------------------------------------------------------------------------ executor
class _Study:
    def __init__(self, study: Any, dirs: list[int], drv: core.Driver) -> None:
        self.study = study
        self.dirs = dirs
        self.drv = drv
        self.states: list[str] = []
        self.objs: dict[int, Any] = {}
        self.reports: dict[int, dict[int, float]] = {}


class Hang(BaseException):
    """raised by the watchdog inside a call of the code under test that does not return"""


class time_limit:
    """`with time_limit(n):` — SIGALRM based (main thread of a worker process); n seconds of wall time."""

    def __init__(self, seconds: int) -> None:
        self.seconds = seconds

    def _fire(self, signum: Any, frame: Any) -> None:
        raise Hang()

    def __enter__(self) -> None:
        import signal

        self.old = signal.signal(signal.SIGALRM, self._fire)
        signal.alarm(self.seconds)

    def __exit__(self, *a: Any) -> None:
        import signal

        signal.alarm(0)
        signal.signal(signal.SIGALRM, self.old)


CASE_LIMIT_S = 90


class Problem(Exception):
    def __init__(self, kind: str, msg: str, violation: bool) -> None:
        super().__init__(msg)
        self.kind = kind
        self.msg = msg
        self.violation = violation


_uniq = [0]


def _exc_name(e: BaseException) -> str:
    return type(e).__name__


class Run:
    """Executes one case on one backend, in lockstep with the model driver(s)."""

    def __init__(self, cfg: str, h: fleet.Handle, case: dict[str, Any], drvs: list[core.Driver], query_p: float, r: random.Random) -> None:
        import optuna

        self.cfg = cfg
        self.h = h
        self.alg = alg_of(cfg)
        self.r = r
        self.query_p = query_p
        self.stats = {"queries": 0, "complete": 0, "tie_or_inf": False, "cons": False, "fallback": 0, "valueerror": 0,
                      "rdb_same_pick": 0, "rdb_other_pick": 0, "front_sizes": 0, "gen_side_by_side": 0}
        self.stage = "create_study"
        self.studies: list[_Study] = []
        for k, sd in enumerate(case["studies"]):
            _uniq[0] += 1
            name = "c12_%d_%d_%d" % (id(self) & 0xFFFF, _uniq[0], r.randrange(10 ** 9))
            study = optuna.create_study(storage=h.storage, study_name=name, sampler=optuna.samplers.RandomSampler(seed=1),
                                        directions=["minimize" if d == 1 else "maximize" for d in sd["dirs"]])
            drv = drvs[k]
            resp = drv.ask({"op": "reset", "dirs": sd["dirs"]})
            if resp.get("k") != "reset":
                raise core.DriverBroken("reset: %s" % resp)
            self.studies.append(_Study(study, sd["dirs"], drv))

    # -- one event ------------------------------------------------------------------------------
    def _model(self, S: _Study, ev: dict[str, Any]) -> None:
        resp = S.drv.ask(dict(ev, op="ev"))
        if resp.get("k") != "ev":
            raise core.DriverBroken("driver rejected %s: %s" % (ev, resp))
        bad = G12.gen_disagreement(resp)   # interpreter of the IR generated from the source vs the hand model (driver `bestgen`)
        if bad is not None:
            raise Problem("generated-vs-hand", "after %s the generated _update_cache and the hand model differ: %s" % (json.dumps(ev)[:200], json.dumps(bad)[:400]), False)

    def _tid(self, S: _Study, n: int) -> int:
        return S.study._storage.get_trial_id_from_study_id_trial_number(S.study._study_id, n)

    def apply(self, ev: dict[str, Any]) -> bool:
        """Returns False when the event is not applicable in the current state (skipped on both sides)."""
        import optuna
        from optuna.trial import TrialState

        if ev["s"] >= len(self.studies):
            return False
        S = self.studies[ev["s"]]
        k = ev["e"]
        nobj = len(S.dirs)
        if k == "ask":
            t = S.study.ask()
            n = t.number
            if n == len(S.states):
                S.states.append("RUNNING")
                self._model(S, {"k": "create", "state": 0, "values": None, "cons": "absent"})
            elif n < len(S.states) and S.states[n] == "WAITING":
                S.states[n] = "RUNNING"
                self._model(S, {"k": "setState", "i": n, "state": 0, "values": None})
            else:
                raise Problem("ask", "study.ask() returned trial number %d; tracked states %s" % (n, S.states), False)
            S.objs[n] = t
            return True
        if k == "enqueue":
            S.study.enqueue_trial({})
            S.states.append("WAITING")
            self._model(S, {"k": "create", "state": 4, "values": None, "cons": "absent"})
            return True
        if k == "add":
            state = ev["state"]
            vals = None if ev.get("values") is None else [float(v) for v in ev["values"]]
            if vals is not None and len(vals) != nobj:
                return False
            if state == "COMPLETE" and vals is None:
                return False
            cons = cons_dec(ev.get("cons", "absent"))
            sysattrs = {} if cons == "absent" else {"constraints": cons}
            ft = optuna.trial.create_trial(state=TrialState[state], values=vals, system_attrs=sysattrs)
            S.study.add_trial(ft)
            S.states.append(state)
            mv = None
            if vals is not None and not any(math.isnan(v) for v in vals):
                mv = [fx(v) for v in vals]
            self._model(S, {"k": "create", "state": ST[state], "values": mv, "cons": cons_to_driver(cons)})
            return True
        n = ev["n"]
        if n >= len(S.states):
            return False
        if k == "cons":
            if S.states[n] not in ("RUNNING", "WAITING"):
                return False
            cons = cons_dec(ev["cons"])
            S.study._storage.set_trial_system_attr(self._tid(S, n), "constraints", cons)
            self._model(S, {"k": "setCons", "i": n, "cons": cons_to_driver(cons)})
            return True
        if k == "report":
            if S.states[n] != "RUNNING" or nobj != 1 or n not in S.objs:
                return False
            v = float(ev["v"])
            S.objs[n].report(v, ev["step"])
            S.reports.setdefault(n, {})[ev["step"]] = v
            return True
        if k == "tell":
            if S.states[n] != "RUNNING":
                return False
            state = ev["state"]
            if state == "COMPLETE":
                vals = [float(v) for v in ev["values"]]
                if len(vals) != nobj:
                    return False
                S.study.tell(n, vals, state=TrialState.COMPLETE)
                S.states[n] = "COMPLETE"
                self._model(S, {"k": "setState", "i": n, "state": 1, "values": [fx(v) for v in vals]})
            elif state == "PRUNED":
                S.study.tell(n, state=TrialState.PRUNED)
                S.states[n] = "PRUNED"
                rep = S.reports.get(n)
                mv = None
                if rep:
                    last = rep[max(rep)]
                    if not math.isnan(last):
                        mv = [fx(last)]
                self._model(S, {"k": "setState", "i": n, "state": 2, "values": mv})
            elif state == "FAIL":
                S.study.tell(n, state=TrialState.FAIL)
                S.states[n] = "FAIL"
                self._model(S, {"k": "setState", "i": n, "state": 3, "values": None})
            else:  # a NaN objective value: tell() turns the trial into FAIL
                with warnings.catch_warnings():
                    warnings.simplefilter("ignore")
                    S.study.tell(n, [math.nan] * nobj)
                S.states[n] = "FAIL"
                self._model(S, {"k": "setState", "i": n, "state": 3, "values": None})
            return True
        raise ValueError("unknown event %r" % (ev,))

    # -- observation + comparison ---------------------------------------------------------------------
    def observe(self, S: _Study) -> dict[str, Any]:
        obs: dict[str, Any] = {}
        st = S.study._storage

        def call(f: Any) -> Any:
            try:
                return f()
            except ValueError:
                return "ValueError"
            except RuntimeError:
                return "RuntimeError"
            except Exception as e:  # anything else is reported by class name
                return "other:" + _exc_name(e)

        self.stage = "Study.get_trials"
        obs["trials"] = S.study.get_trials(deepcopy=False)
        if len(S.dirs) == 1:
            self.stage = "storage.get_best_trial"
            obs["storage"] = call(lambda: st.get_best_trial(S.study._study_id).number)
            self.stage = "Study.best_trial"
            bt = call(lambda: S.study.best_trial)
            obs["study"] = bt if isinstance(bt, str) else bt.number
            obs["study_obj"] = None if isinstance(bt, str) else bt
            obs["value"] = call(lambda: S.study.best_value)
        else:
            bt = call(lambda: S.study.best_trial)
            obs["study"] = bt if isinstance(bt, str) else bt.number
        self.stage = "Study.best_trials"
        fr = call(lambda: S.study.best_trials)
        self.stage = "-"
        obs["front"] = fr if isinstance(fr, str) else [t.number for t in fr]
        return obs

    def check(self, si: int) -> None:
        from optuna.trial import TrialState

        S = self.studies[si]
        obs = self.observe(S)
        trials = obs["trials"]
        self.stats["queries"] += 1
        m = S.drv.ask({"op": "query"})
        if "trials" not in m:
            raise core.DriverBroken("query: %s" % m)
        # 0. the model saw the same history (states; values of COMPLETE trials; constraints)
        real_tab = []
        for t in trials:
            c = t.system_attrs["constraints"] if "constraints" in t.system_attrs else "absent"
            vals = [fx(v) for v in t.values] if (t.state == TrialState.COMPLETE and t.values is not None) else None
            real_tab.append([t.state.value, vals, cons_to_driver(c)])
        model_tab = [[t["state"], t["values"] if t["state"] == 1 else None, t["cons"]] for t in m["trials"]]
        if real_tab != model_tab:
            raise Problem("history", "the trial table differs: implementation %s / model %s" % (json.dumps(real_tab)[:700], json.dumps(model_tab)[:700]), False)
        comp = [t for t in trials if t.state == TrialState.COMPLETE]
        self.stats["complete"] = max(self.stats["complete"], len(comp))
        if len(comp) >= 2:
            vs = [tuple(t.values) for t in comp]
            if len(set(vs)) < len(vs) or any(math.isinf(x) for v in vs for x in v):
                self.stats["tie_or_inf"] = True
            if any("constraints" in t.system_attrs for t in trials):
                self.stats["cons"] = True
        problems: list[tuple[str, str]] = []
        broke: list[tuple[str, str]] = []
        # 1. property oracle (independent of the model)
        if len(S.dirs) == 1:
            problems += oracle_single(trials, S.dirs[0], obs)
        elif obs["study"] != "RuntimeError":
            problems.append(("multi-best-trial", "Study.best_trial of a %d-objective study answered %s instead of raising RuntimeError" % (len(S.dirs), obs["study"])))
        problems += oracle_front(trials, S.dirs, obs["front"])
        # 2. the models
        if len(S.dirs) == 1:
            b = obs["storage"]
            mb = m[self.alg]
            want = "ValueError" if mb is None else mb
            if isinstance(b, int) and b not in m["opt"] or (b == "ValueError") != (mb is None):
                broke.append(("storage-vs-model", "storage.get_best_trial answered %s; model (%s) %s, optimum set %s" % (b, self.alg, want, m["opt"])))
            elif self.alg in ("mem", "scan") and b != want:
                # which of several optima: the incremental cache keeps the first one completed, the scan the lowest number
                broke.append(("tie-break", "storage.get_best_trial answered %s; the %s model picks %s among the optima %s" % (b, self.alg, want, m["opt"])))
            elif self.alg == "rdb" and isinstance(b, int):
                self.stats["rdb_same_pick" if b == want else "rdb_other_pick"] += 1
            if isinstance(b, int) and b in m["opt"]:
                fb = S.drv.ask({"op": "fallback", "b": b})
                if G12.gen_disagreement(fb) is not None:
                    broke.append(("generated-vs-hand", "Study.best_trial (storage answer %s): generated %s" % (b, json.dumps(G12.gen_disagreement(fb))[:400])))
                want_s = fb.get("ok") if "ok" in fb else fb.get("err")
                if obs["study"] != want_s:
                    broke.append(("study-vs-model", "Study.best_trial answered %s; model (storage answer %s) %s" % (obs["study"], b, want_s)))
                if want_s != b:
                    self.stats["fallback"] += 1
                if want_s == "ValueError":
                    self.stats["valueerror"] += 1
            elif b == "ValueError" and obs["study"] != "ValueError":
                broke.append(("study-vs-model", "Study.best_trial answered %s although the storage raised ValueError" % (obs["study"],)))
        if obs["front"] != m["front"]:
            broke.append(("front-vs-model", "Study.best_trials answered %s; model %s" % (obs["front"], m["front"])))
        elif isinstance(obs["front"], list):
            self.stats["front_sizes"] += len(obs["front"])
        bad = G12.gen_disagreement(m)
        if bad is not None:
            broke.append(("generated-vs-hand", "the interpreters of the generated IR differ from the hand model: %s" % json.dumps(bad)[:500]))
        elif "gen" in m:
            self.stats["gen_side_by_side"] += 1
        if problems:
            raise Problem(problems[0][0], problems[0][1], True)
        if broke:
            raise Problem(broke[0][0], broke[0][1], False)

    def run(self, events: list[dict[str, Any]]) -> dict[str, Any] | None:
        """None when everything agreed, else {"step", "kind", "why", "violation"}."""
        i = -1
        try:
            with time_limit(CASE_LIMIT_S):
                for i, ev in enumerate(events):
                    self.stage = "event " + ev["e"]
                    applied = self.apply(ev)
                    if applied and (self.r.random() < self.query_p or i == len(events) - 1):
                        self.check(ev["s"])
                if events:
                    for si in range(len(self.studies)):
                        self.check(si)
        except Problem as p:
            return {"step": i, "kind": p.kind, "why": p.msg, "violation": p.violation}
        except Hang:
            return {"step": i, "kind": "hang", "violation": self.stage.startswith(("Study.best", "storage.get_best")),
                    "why": "%s did not return within %d s (history of %d events)" % (self.stage, CASE_LIMIT_S, i + 1)}
        return None


def run_case(cfg: str, h: fleet.Handle, case: dict[str, Any], drvs: list[core.Driver], query_p: float, seed: int) -> tuple[dict[str, Any] | None, dict[str, Any]]:
    run = Run(cfg, h, case, drvs, query_p, random.Random(seed))
    res = run.run(case["events"])
    return res, run.stats


def minimise(cfg: str, case: dict[str, Any], res: dict[str, Any], drvs: list[core.Driver], tmp: str) -> dict[str, Any]:
    def fails(evs: list[dict[str, Any]]) -> bool:
        h = fleet.make(cfg, tmp)
        try:
            r2, _ = run_case(cfg, h, dict(case, events=evs), drvs, 1.0, 0)
            return r2 is not None and r2["violation"] == res["violation"] and r2["kind"] == res["kind"]
        except Exception:
            return False
        finally:
            h.close()

    evs = case["events"][: res["step"] + 1]
    if res["kind"] == "hang" or not fails(evs):
        return dict(case, events=evs)
    return dict(case, events=core.ddmin(list(evs), fails, budget=80))


def _worker(args: tuple[str, list[dict[str, Any]], int, float, str]) -> dict[str, Any]:
    import time

    cfg, cases, seed, query_p, tmp = args
    t0 = time.time()
    warnings.simplefilter("ignore")
    out: dict[str, Any] = {"cfg": cfg, "cases": [], "failures": [], "stats": {}}
    drvs = [core.Driver(G12.DRIVER), core.Driver(G12.DRIVER)]
    h: fleet.Handle | None = None
    agg: dict[str, int] = {}
    try:
        for ci, case in enumerate(cases):
            if h is None or cfg == "mem":
                if h is not None:
                    h.close()
                h = fleet.make(cfg, tmp)
            res, st = run_case(cfg, h, case, drvs, query_p, seed * 1000 + ci)
            for k, v in st.items():
                agg[k] = agg.get(k, 0) + int(v)
            out["cases"].append({"i": ci, "nontrivial": st["complete"] >= 2 and (st["tie_or_inf"] or st["cons"])})
            if res is not None:
                small = minimise(cfg, case, res, drvs, tmp)
                res2 = None
                if res["kind"] != "hang":
                    h2 = fleet.make(cfg, tmp)
                    try:
                        res2, _ = run_case(cfg, h2, small, drvs, 1.0, 0)
                    finally:
                        h2.close()
                out["failures"].append({"i": ci, "kind": res["kind"], "violation": res["violation"],
                                        "why": (res2 or res)["why"], "case": small, "full_len": len(case["events"])})
                h.close()
                h = None
                if len(out["failures"]) >= 3 or res["kind"] == "hang":
                    break
    except core.DriverBroken as e:
        out["driver_broken"] = str(e)[:800]
    except Exception as e:  # infrastructure of this worker
        import traceback

        out["crash"] = "%s: %s\n%s" % (type(e).__name__, e, traceback.format_exc()[-1500:])
    finally:
        for d in drvs:
            d.close()
        if h is not None:
            h.close()
    out["stats"] = agg
    out["wall"] = round(time.time() - t0, 1)
    return out


def correspond(chk: core.Check, cases: list[dict[str, Any]], cfgs: list[str], query_p: float, violations_only: bool = False) -> None:
    import multiprocessing as mp

    # cheap configurations get more of the generated cases (the slowest one bounds the wall time)
    jobs = [(cfg, cases[: max(1, int(len(cases) * SHARE.get(cfg, 0.1)))], chk.seed * 7919 + k, query_p, chk.tmp)
            for k, cfg in enumerate(cfgs)]
    ctx = mp.get_context("spawn")
    with ctx.Pool(min(len(jobs), 12)) as pool:
        try:
            results = pool.map_async(_worker, jobs).get(timeout=900 if chk.tier == "quick" else 4000)
        except mp.TimeoutError:
            pool.terminate()
            raise core.InfraError("correspondence workers did not finish in time")
    for res in results:
        cfg = res["cfg"]
        chk.extra.setdefault("worker_wall_s", {})[cfg] = res.get("wall")
        if "driver_broken" in res:
            chk.broke("correspondence", {"backend": cfg, "driver": res["driver_broken"]})
        if "crash" in res:
            raise core.InfraError("worker for %s crashed: %s" % (cfg, res["crash"]))
        for c in res["cases"]:
            if not violations_only:
                chk.case({"cfg": cfg, "case": cases[c["i"]]}, nontrivial=c["nontrivial"], sample=(c["i"] == 0 and cfg in ("mem", "rdb")))
                chk.count("histories:" + cfg)
                chk.traces_validated += 1
        for k, v in res["stats"].items():
            if v:
                chk.count("%s:%s" % (k, alg_of(cfg)), v)
        for f in res["failures"]:
            wit = {"backend": cfg, "studies": f["case"]["studies"], "events": f["case"]["events"], "full_len": f["full_len"]}
            if f["violation"]:
                chk.violation({"backend": cfg, "alg": alg_of(cfg), "kind": f["kind"]}, wit,
                              "on backend %s: %s" % (cfg, f["why"]))
            elif not violations_only:
                chk.broke("correspondence", {"backend": cfg, "kind": f["kind"], "why": f["why"][:600], "witness": wit})


def alg_of(cfg: str) -> str:
    """Which get_best_trial implementation answers on this configuration: GrpcStorageProxy and JournalStorage inherit the
    base-class scan (run on the client over get_all_trials); _CachedStorage forwards to its RDB backend."""
    if cfg.startswith("grpc(") or cfg.startswith("journal"):
        return "scan"
    return "mem" if cfg == "mem" else "rdb"


# ------------------------------------------------------------------------------------------------ arrays
def gen_array(r: random.Random) -> list[list[float]]:
    k = r.choice([1, 2, 2, 2, 3, 3, 4])
    n = r.randint(1, 12)
    grid = [-math.inf, math.inf] + [0.0, 1.0, 2.0] * 3 + [0.5]
    rows = [[r.choice(grid) for _ in range(k)] for _ in range(n)]
    if n > 2 and r.random() < 0.5:
        rows[r.randrange(n)] = list(rows[r.randrange(n)])
    return rows


def brute_front(rows: list[list[float]]) -> list[bool]:
    def dom(a: list[float], b: list[float]) -> bool:
        return all(x <= y for x, y in zip(a, b)) and any(x < y for x, y in zip(a, b))

    return [not any(dom(q, p) for q in rows) for p in rows]


def arrays(chk: core.Check, n: int) -> None:
    """`_is_pareto_front` on generated arrays: real numpy code vs the Lean model vs brute force."""
    import numpy as np
    from optuna.study import _multi_objective as mo

    r = chk.rng
    cases = [gen_array(r) for _ in range(n)]
    resp = core.driver_batch(G12.DRIVER, [{"op": "front", "rows": [[fx(v) for v in row] for row in rows]} for rows in cases])
    bad = 0
    for rows, m in zip(cases, resp):
        if "front" not in m:
            raise core.DriverBroken("front: %s" % m)
        if G12.gen_disagreement(m) is not None:
            chk.broke("correspondence", {"kind": "generated-vs-hand", "rows": [[fs(v) for v in row] for row in rows], "diff": G12.gen_disagreement(m)})
        else:
            chk.count("gen:front-side-by-side")
        arr = np.asarray(rows, dtype=float)
        uniq = np.unique(arr, axis=0)
        try:
            with time_limit(20):
                real = [bool(b) for b in mo._is_pareto_front(arr, assume_unique_lexsorted=False)]
                real_sorted = [bool(b) for b in mo._is_pareto_front(uniq, assume_unique_lexsorted=True)]
        except Hang:
            _array_violation(chk, rows, [], brute_front(rows), hang=True)
            break
        want = brute_front(rows)
        first = [row[0] for row in rows]
        nontrivial = len({tuple(x) for x in rows}) < len(rows) or len(set(first)) < len(first)
        chk.case({"array": [[fs(v) for v in row] for row in rows]}, nontrivial=nontrivial)
        chk.count("array-path:" + m["path"])
        if [[fx(v) for v in row] for row in uniq.tolist()] != m["unique"]:
            chk.broke("correspondence", {"kind": "np.unique-vs-model", "rows": [[fs(v) for v in row] for row in rows]})
            continue
        if real != want and bad < 3:
            bad += 1
            _array_violation(chk, rows, real, want)
        elif real != m["front"] or real_sorted != m["sorted_front"]:
            chk.broke("correspondence", {"kind": "front-vs-model", "rows": [[fs(v) for v in row] for row in rows],
                                         "impl": real, "model": m["front"], "impl_sorted": real_sorted, "model_sorted": m["sorted_front"]})


def _array_violation(chk: core.Check, rows: list[list[float]], real: list[bool], want: list[bool], hang: bool = False) -> None:
    """Turn a wrong `_is_pareto_front` answer into a history-level witness (all COMPLETE, all minimised, in memory)."""
    def fails(rs: list[list[float]]) -> bool:
        import numpy as np
        from optuna.study import _multi_objective as mo

        try:
            with time_limit(5):
                got = [bool(b) for b in mo._is_pareto_front(np.asarray(rs, dtype=float), assume_unique_lexsorted=False)]
        except Hang:
            return hang
        return (not hang) and got != brute_front(rs)

    small = core.ddmin(list(rows), fails, budget=60 if hang else 150)
    case = {"studies": [{"dirs": [1] * len(small[0])}],
            "events": [{"s": 0, "e": "add", "state": "COMPLETE", "values": [fs(v) for v in row], "cons": "absent"} for row in small]}
    drvs = [core.Driver(G12.DRIVER), core.Driver(G12.DRIVER)]
    h = fleet.make("mem", chk.tmp)
    global CASE_LIMIT_S
    old_limit, CASE_LIMIT_S = CASE_LIMIT_S, 15
    try:
        res, _ = run_case("mem", h, case, drvs, 0.0, 0)
    finally:
        CASE_LIMIT_S = old_limit
        h.close()
        for d in drvs:
            d.close()
    wit = {"backend": "mem", "studies": case["studies"], "events": case["events"], "full_len": len(rows)}
    if res is not None and res["violation"]:
        chk.violation({"backend": "mem", "alg": "pareto", "kind": res["kind"]}, wit, "on backend mem: " + res["why"])
    else:
        chk.broke("correspondence", {"kind": "_is_pareto_front-vs-brute-force", "rows": [[fs(v) for v in row] for row in small],
                                     "impl": real, "brute": want, "history_result": res})


# ------------------------------------------------------------------------------------------------ entry points
def gen_cases(chk: core.Check, n: int, lo: int, hi: int) -> list[dict[str, Any]]:
    cases = [c for c in core.corpus_cases("C12") if "events" in c]
    for _ in range(n):
        cases.append(gen_case(chk.rng, chk.rng.randint(lo, hi)))
    return cases


def search(chk: core.Check) -> None:
    """Something no longer checks: hunt for a history on which the property itself fails on the real code."""
    chk.search_log.append("failing-input search: fresh, longer histories on every configuration, property oracle only")
    quick = chk.tier == "quick"
    cases = [gen_case(chk.rng, chk.rng.randint(8, 30)) for _ in range(500 if quick else 8000)]
    correspond(chk, cases, fleet.QUICK if quick else fleet.THOROUGH, 1.0, violations_only=True)
    if not chk.violations:
        try:
            arrays(chk, 4000)
        except core.DriverBroken as e:
            chk.search_log.append("array search: driver broken %s" % e)
    chk.search_log.append("search found %d violation(s)" % len(chk.violations))


def main(chk: core.Check) -> int:
    chk.rule = RULE
    quick = chk.tier == "quick"
    tbest.run(chk)
    G12.regenerate(chk)   # T-best2: the methods as written today -> Generated/BestMethods.lean (Props/C12Gen, C12GenSpec)
    if not getattr(chk, "no_prove", False):
        chk.prove(G12.MODULES)
        G12.explain_proof_failure(chk)
    try:
        core.ensure_driver()
        cases = gen_cases(chk, 500 if quick else 8000, 4, 26 if quick else 40)
        for c in cases:
            for ev in c["events"]:
                chk.count("event:" + ev["e"] + (":" + ev["state"] if "state" in ev else ""))
            for s in c["studies"]:
                chk.count("objectives:%d" % len(s["dirs"]))
        correspond(chk, cases, fleet.QUICK if quick else fleet.THOROUGH, 0.6 if quick else 0.7)
        arrays(chk, 1500 if quick else 40000)
    except core.DriverBroken as e:
        chk.broke("correspondence", {"driver": str(e)[:800]})
    chk.assumptions += [
        "values of COMPLETE trials are NaN-free (Study.tell / Study.add_trial reject NaN); values of other trials are never read by this code",
        "which of several equally good trials is returned is unspecified (U4): the oracle accepts any optimum; the exact pick of the "
        "in-memory cache (first completed) and of the base-class scan (lowest number) is compared with the model as correspondence only; "
        "SQL tie order is not compared",
        "a best-valued trial without recorded constraints is returned as is (upstream documents this as undefined); NaN constraint values: "
        "either reading (violated / not violated) is accepted by the oracle, the model follows the code",
        "SQLite stands for every RDB dialect (NULL ordering differs between dialects but equal-rank rows are all NULL or all non-NULL); fakeredis for Redis",
        "np.unique(axis=0) is modelled as duplicate-free lexicographic sorting (checked on every generated array)",
    ]
    chk.trusted += ["numpy np.unique/np.minimum.accumulate/boolean indexing as used by _is_pareto_front (compared with the model on generated arrays)"]
    return chk.finish(search=search)


def replay(chk: core.Check, path: str) -> int:
    doc = json.load(open(path))
    w = doc["witness"] if "witness" in doc else None
    if w is None or "events" not in w:
        # a no-failing-input-found replay: show what no longer checks
        print(json.dumps(doc.get("no_longer_checks", doc), indent=1)[:3000])
        return 1
    tbest.run(chk)  # the model must describe the tree that is being replayed
    G12.regenerate(chk)
    core.ensure_driver()
    drvs = [core.Driver(G12.DRIVER), core.Driver(G12.DRIVER)]
    h = fleet.make(w["backend"], chk.tmp)
    try:
        res, _ = run_case(w["backend"], h, {"studies": w["studies"], "events": w["events"]}, drvs, 1.0, 0)
    finally:
        h.close()
        for d in drvs:
            d.close()
    if res is not None:
        print("REPRODUCED on %s at event %d (%s): %s" % (w["backend"], res["step"], "property violated" if res["violation"] else "model/code differ", res["why"]))
        return 1
    print("not reproduced")
    return 0
