"""C12, translator tie: the "best trial" code as written in the source today -> Lean data -> proved equal to a flag-free reference
semantics (Props/C12Gen) which is the hand model (Props/C12GenSpec, where C12's property theorems are restated for the interpreters).

regenerate(chk)   run verif/translators/tbest.py on core.REPO, write lean/OptunaVerif/Generated/BestMethods.lean (only when the text
                  changed), record what was read in chk.translated / chk.extra, report an untranslatable source as
                  chk.broke("translation", ...).  Call it BEFORE chk.prove(MODULES).
MODULES           Props.C12 + Props.C12Gen + Props.C12GenSpec (C12Gen does not depend on Lemmas/Best.lean, so lake still checks it when an
                  operator change stops that file).
DRIVER            sub-driver that speaks the protocol of `best` and runs the interpreters of the generated IR side by side with the
                  hand model (field "gen" of every ev / query / fallback / front answer: null, or the methods that differ).
gen_disagreement(resp)        None | [{"method", "generated", "hand"}, ...]
explain_proof_failure(chk)    the NAMED declarations of Props/C12Gen.lean / C12GenSpec.lean (and Lemmas/Best.lean, Props/C12.lean) that no
                              longer check after a failed chk.prove
"""
from __future__ import annotations

import os
import re
from typing import Any

from verif import core
from verif.translators import tbest

OUT = os.path.join(core.LEAN_DIR, tbest.OUT_REL)
MODULE = "OptunaVerif.Props.C12Gen"
MODULE_SPEC = "OptunaVerif.Props.C12GenSpec"
MODULES = ["OptunaVerif.Props.C12", MODULE, MODULE_SPEC]
DRIVER = "bestgen"

ASSUMPTION = ("T-best2: the IR's primitives mean what the interpreters of Model/BestIR.lean say - Python min/max(key) return the first "
              "extremal element; `any`/`all`; comparisons with NaN are False; SQL ORDER BY is lexicographic over its terms with NULL smallest, "
              "LIMIT 1 takes a row that no row precedes; numpy: a.shape / len, a[:, k], a[:, k:], a[i], a[1:], a[:-1], np.minimum.accumulate, "
              "np.ones/zeros/empty(dtype=bool), np.arange, element-wise `<` (a row broadcast against a matrix), np.any(axis=1), boolean-mask and "
              "integer-array indexing, x[1:] = e, x[i] = True, x[idx] = e, np.unique(axis=0, return_inverse=True) = duplicate-free lexicographic "
              "sort + positions, .reshape(-1), np.lexsort(a.T[::-1]), np.diff(axis=0) with inf - inf = nan, != c, np.cumsum; values of COMPLETE "
              "trials are NaN-free; asserts of the translated methods hold; a study has at least one direction")


def regenerate(chk: core.Check | None = None) -> dict[str, Any] | None:
    try:
        text, info = tbest.translate(core.REPO)
    except (tbest.Untranslatable, SyntaxError, OSError, IndexError, AttributeError, KeyError) as e:
        if chk is None:
            raise
        chk.broke("translation", {"translator": "T-best2", "sources": sorted(tbest.SOURCES.values()), "why": ("%s: %s" % (type(e).__name__, e))[:600]})
        return None
    changed = core.write_if_changed(OUT, text)
    if chk is not None:
        f = info["fields"]
        chk.translated.append(
            "study.py / _multi_objective.py / _constrained_optimization.py / _in_memory.py / _base.py / _rdb/{storage,models}.py: "
            "Study.best_trial/best_value/best_params/best_trials, _get_feasible_trials, _update_cache (+ %d call sites), get_best_trial x3, "
            "find_{max,min}_value_trial_id, _normalize_value, _dominates, _get_pareto_front_trials(_by_trials) (%d stages), _is_pareto_front "
            "(+ _for_unique_sorted, _2d, _nd) -> lean/OptunaVerif/Generated/BestMethods.lean%s" % (
                f["cacheCalls"].count("⟨"), f["pareto"].count(".") - f["pareto"].count(".valueError") - f["pareto"].count(".ne"),
                " (file changed)" if changed else ""))
        chk.extra["best_methods_ir"] = {"sha1_of_sources": info["sha1_of_sources"],
                                        "fields": {k: (v if len(v) <= 300 else v[:300] + " ...") for k, v in f.items()}}
        if ASSUMPTION not in chk.assumptions:
            chk.assumptions.append(ASSUMPTION)
    return info


def explain_proof_failure(chk: core.Check) -> list[str]:
    pr = chk.proof
    if pr is None or pr.ok:
        return []
    names: list[str] = []
    for rel in ("OptunaVerif/Props/C12Gen.lean", "OptunaVerif/Props/C12GenSpec.lean", "OptunaVerif/Lemmas/BestIR.lean",
                "OptunaVerif/Lemmas/Best.lean", "OptunaVerif/Props/C12.lean"):
        short = rel.split("OptunaVerif/", 1)[1]
        lines = sorted({int(m.group(1)) for m in re.finditer(re.escape(short) + r":(\d+):\d+: error", pr.build_log)}
                       | {int(m.group(1)) for m in re.finditer(r"error: \S*" + re.escape(short) + r":(\d+):", pr.build_log)})
        if not lines:
            continue
        src = open(os.path.join(core.LEAN_DIR, rel)).read().splitlines()
        for ln in lines:
            name = None
            for i in range(min(ln, len(src)) - 1, -1, -1):
                m = re.match(r"\s*(?:theorem|def|example)\b\s*([^\s:(]*)", src[i])
                if m:
                    name = m.group(1) or ("example at %s:%d: %s" % (short, i + 1, src[i].strip()[:80]))
                    break
            if name:
                tag = name if short.endswith(("C12Gen.lean", "C12GenSpec.lean")) else "%s (%s)" % (name, short)
                if tag not in names:
                    names.append(tag)
    if names:
        chk.extra["c12gen_failed"] = names
        chk.broke("proof", {"module": MODULE, "generated_best_methods_no_longer_equal_reference": names})
    return names


def gen_disagreement(resp: Any) -> Any:
    """the "gen" field of an answer of the `bestgen` driver (None = every generated interpreter agrees with the hand model)"""
    if isinstance(resp, dict):
        return resp.get("gen")
    return None
