"""C13 — maximising f behaves exactly like minimising -f.

translate:  T-sites (verif/translators/tsites.py): inventory of every syntactic use of the study direction under
            optuna/samplers, optuna/pruners, optuna/_hypervolume, _multi_objective.py, Study.best_trial and the in-memory
            best-trial cache -> lean/OptunaVerif/Generated/DirectionSites.lean
prove:      Props/C13.lean: one mirror theorem per decision site (for all inputs), the loss-normalisation argument for the
            multi-objective paths, two `decide`d obligations over the generated table, and the two negations that hold on
            today's code (NSGA-II crowding tie order, NSGA-III raw values)
correspond: (K-site) every modelled site: the real optuna function vs the Lean definition (compiled driver) on exact
            dyadic inputs, and the mirror law checked directly on the real function with random floats
observe:    (K-run) paired studies on the real code: minimise L  vs  maximise -L on every flipped subset of objectives,
            same seed, every importable sampler x every pruner, in-memory storage; compared: parameters, reported steps
            and values, pruning step, states, rung attributes, best trial / Pareto front
"""
from __future__ import annotations

import itertools
import json
import math
import os
import random
import re
import time
import warnings
from fractions import Fraction
from typing import Any

from verif import core
from verif.translators import tsites

RULE = (
    "K-run: a case = (sampler spec, pruner spec, generated objective program [1-4 parameters, optional conditional branch, "
    "3-9 reported steps incl. gaps, programmed failures / NaN reports, optional constraints], seed, flip mask); the base "
    "study minimises L, the flipped study maximises -L on the masked objectives with the same seed; non-trivial = objective "
    "values and per-step reports pairwise distinct AND (the sampler is history-dependent and ran past its start-up, or >=1 "
    "trial was pruned and >=1 completed, or >=2 objectives); distinct by SHA-1 of the cell.  K-site: a case = (site, inputs: "
    "exact dyadic for the model-vs-code stream, random doubles for the mirror law on the code); non-trivial = at least two "
    "values enter the site's comparison; a site whose stream shows a single outcome is reported as a degenerate generator"
)

PRISTINE = os.path.join(os.path.dirname(tsites.__file__), "tsites_pristine.json")
PROPS = os.path.join(core.LEAN_DIR, "OptunaVerif", "Props", "C13.lean")

# sites with an OPEN finding, to which an asymmetric paired run may be attributed (by neutralising the site from the
# harness, verif/direction_k.attribution_patch).  Empty since the repairs of F-C13-1 (NSGA-II crowding tie order) and
# F-C13-2 (NSGA-III niching): any asymmetric NSGA-II / NSGA-III run is an unattributed violation.
KNOWN_SITES: dict[str, str] = {}


# =============================================================================================
# translate
# =============================================================================================

def _lean_unescape(s: str) -> str:
    out, i = [], 0
    while i < len(s):
        c = s[i]
        if c == "\\":
            n = s[i + 1]
            if n == "n":
                out.append("\n"); i += 2
            elif n == "t":
                out.append("\t"); i += 2
            elif n == "u":
                j = s.index("}", i)
                out.append(chr(int(s[i + 3:j], 16))); i = j + 1
            else:
                out.append(n); i += 2
        else:
            out.append(c); i += 1
    return "".join(out)


def translate(chk: core.Check) -> dict[str, Any]:
    sites = tsites.generate(chk)
    info: dict[str, Any] = {"n_sites": len(sites), "n_cmp": sum(1 for s in sites if s[2] == "cmp"), "changed": []}
    try:
        pristine = [tuple(x) for x in json.load(open(PRISTINE))]
    except FileNotFoundError:
        pristine = []
    cur, old = set(sites), set(pristine)
    for s in sorted(cur - old):
        info["changed"].append({"what": "new-or-edited", "file": s[0], "func": s[1], "kind": s[2], "text": s[3][:400]})
    for s in sorted(old - cur):
        info["changed"].append({"what": "gone", "file": s[0], "func": s[1], "kind": s[2], "text": s[3][:400]})
    for s in sites:
        if s[2].split(":")[0] in ("other", "kw", "return"):
            chk.broke("translation", {"unclassifiable direction use": {"file": s[0], "func": s[1], "kind": s[2], "text": s[3][:300]}})
    # the hand-written `modelled` table of Props/C13.lean: every key is the content key of the text written next to it
    src = open(PROPS).read()
    m = re.search(r"def modelled : List \(Nat × String × String × String\) := \[(.*?)\n\]\n", src, re.S)
    n_ok = 0
    if not m:
        chk.broke("translation", {"modelled table": "not found in Props/C13.lean"})
    else:
        for em in re.finditer(r'\((\d+), "((?:[^"\\]|\\.)*)", "((?:[^"\\]|\\.)*)",\s*"((?:[^"\\]|\\.)*)"\)', m.group(1)):
            key, where, _model, text = int(em.group(1)), _lean_unescape(em.group(2)), em.group(3), _lean_unescape(em.group(4))
            f, fn = where.split(" :: ")
            if tsites.site_key((f, fn, "cmp", text)) != key:
                chk.broke("translation", {"modelled table": "key %d is not the content key of the text written for %s" % (key, where)})
            else:
                n_ok += 1
    info["modelled_entries_consistent"] = n_ok
    chk.extra["t_sites"] = info
    return info


# =============================================================================================
# K-site: real function vs Lean definition, and the mirror law on the real function
# =============================================================================================

def q2s(x: Any) -> str:
    if isinstance(x, float) and math.isnan(x):
        return "nan"
    f = Fraction(x)
    return "%d/%d" % (f.numerator, f.denominator)


def dy(r: random.Random, lo: int = -32, hi: int = 32) -> float:
    return r.randint(lo, hi) / 16.0


def dyv(r: random.Random, nan_p: float = 0.1) -> float:
    return float("nan") if r.random() < nan_p else dy(r)


def negf(x: float) -> float:
    return x if (isinstance(x, float) and math.isnan(x)) else -x


def same(a: Any, b: Any) -> bool:
    if isinstance(a, float) and isinstance(b, float) and math.isnan(a) and math.isnan(b):
        return True
    return a == b


class Sites:
    """Each `site_*` returns (driver request, real result for direction `d` on the inputs, canonical for comparison with the
    driver, mirror closure) — see `run_sites`."""

    def __init__(self) -> None:
        import optuna
        from optuna.trial import TrialState, create_trial

        optuna.logging.set_verbosity(optuna.logging.ERROR)
        self.optuna = optuna
        self.TS = TrialState
        self.create_trial = create_trial
        self.SD = optuna.study.StudyDirection

    def sd(self, d: str) -> Any:
        return self.SD.MAXIMIZE if d == "max" else self.SD.MINIMIZE

    def study(self, d: str, trials: list[Any] = ()) -> Any:
        st = self.optuna.create_study(direction="maximize" if d == "max" else "minimize", storage=self.optuna.storages.InMemoryStorage())
        for t in trials:
            st.add_trial(t)
        return st

    def trial(self, state: Any, value: float | None = None, iv: dict[int, float] | None = None, sysattrs: dict | None = None, number: int = 0) -> Any:
        t = self.create_trial(state=state, value=value, intermediate_values=iv or {}, system_attrs=sysattrs or {}, params={}, distributions={})
        t.number = number
        return t


def gen_site_case(site: str, r: random.Random, exact: bool) -> dict[str, Any]:
    """Inputs for one site.  exact=True: dyadic values (float arithmetic of the code is exact, so the Lean rational result
    must be identical); exact=False: random doubles for the mirror law on the real code."""
    val = (lambda: dy(r)) if exact else (lambda: r.uniform(-3, 3))
    valv = (lambda: float("nan") if r.random() < 0.1 else val())
    if site == "best":
        return {"vs": [valv() for _ in range(r.randint(1, 6))]}
    if site == "perc":
        n = r.randint(1, 7)
        return {"vals": [valv() for _ in range(n)], "missing": r.randint(0, 2), "q": r.choice([0, 6.25, 12.5, 25, 37.5, 50, 62.5, 75, 87.5, 100]) if exact else r.uniform(0, 100),
                "nMin": r.randint(1, 4)}
    if site == "percPrune":
        c = gen_site_case("perc", r, exact)
        c["cur"] = [valv() for _ in range(r.randint(1, 4))]
        return c
    if site == "promotable":
        n = r.randint(1, 9)
        comp = [val() for _ in range(n)]
        if exact and r.random() < 0.3 and n > 1:
            comp[0] = comp[1]
        return {"competing": comp, "pos": r.randrange(n), "rf": r.randint(2, 4)}
    if site == "patient":
        p = r.randint(0, 3)
        n = p + 2 + r.randint(0, 4)
        steps = r.sample(range(0, 20), n)
        if not exact and r.random() < 0.5:
            # decimal grid: scores k/10 and a min_delta that is not representable in binary, so that a score drop equals
            # min_delta up to the last bit - where `a - d > b` and `b + d < a` round differently
            dv = lambda: (float("nan") if r.random() < 0.05 else r.randint(-12, 12) / 10.0 + r.choice([0.0, 0.0, 0.1 + 0.2 - 0.3]))  # noqa: E731
            delta = r.choice([0.1, 0.2, 0.3, 0.7, 0.01])
            iv = [[s, dv()] for s in steps]
            if r.random() < 0.7:
                # put the best value of the window exactly `delta` (as a decimal) away from the best value before it
                ordered = sorted(range(n), key=lambda i: steps[i])
                before, after = ordered[: n - p - 1], ordered[n - p - 1:]
                if before and after:
                    b = r.randint(-8, 8) / 10.0 + r.choice([0.0, 0.1 + 0.2 - 0.3, -(0.1 + 0.2 - 0.3)])
                    a = r.choice([b - delta, b + delta, (round(b * 100) - round(delta * 100)) / 100.0, (round(b * 100) + round(delta * 100)) / 100.0])
                    lo = min(a, b) - 1.0
                    for i in before:
                        iv[i][1] = lo - r.random()
                    for i in after:
                        iv[i][1] = lo - r.random()
                    iv[r.choice(before)][1] = b
                    iv[r.choice(after)][1] = a
                    if r.random() < 0.5:  # the same shape for a minimising reading: best = smallest
                        iv = [[s, -v] for s, v in iv]
            return {"patience": p, "delta": delta, "iv": iv}
        return {"patience": p, "delta": (r.randint(0, 8) / 16.0), "iv": [[s, valv()] for s in steps]}
    if site == "threshold":
        lo = val() if r.random() < 0.8 else None
        up = (val() if lo is None else lo + abs(val())) if (lo is None or r.random() < 0.8) else None
        return {"lower": lo, "upper": up, "v": valv()}
    if site == "wilcoxon":
        n = r.randint(2, 8)
        steps = list(range(n))
        best = [[s, val()] for s in steps]
        cur = [[s, (b if (exact and r.random() < 0.15) else val())] for s, b in best if r.random() < 0.9]
        if len(cur) < 2:
            cur = [[s, val()] for s in steps[:2]]
        return {"best": best, "cur": cur, "pThr": r.choice([0.05, 0.1, 0.25, 0.5])}
    if site in ("splitSingle", "bestTrial"):
        n = r.randint(1, 8)
        vals = [val() for _ in range(n)]
        if exact and n > 2 and r.random() < 0.3:
            vals[r.randrange(n)] = vals[r.randrange(n)]
        c = {"vals": vals, "nBelow": r.randint(0, n + 1)}
        if site == "bestTrial":
            c["cons"] = [r.choice([-1.0, -1.0, 1.0]) for _ in range(n)] if r.random() < 0.5 else None
        return c
    if site in ("prunedScore", "splitPruned"):
        def iv() -> list[list[Any]]:
            k = r.randint(0, 4)
            return [[s, valv()] for s in r.sample(range(0, 6), k)]
        if site == "prunedScore":
            return {"iv": iv()}
        n = r.randint(1, 6)
        return {"ts": [iv() for _ in range(n)], "nBelow": r.randint(0, n + 1)}
    if site == "dominates":
        k = r.randint(1, 3)
        v0 = [float(r.randint(-2, 2)) if exact else val() for _ in range(k)]
        v1 = [(a if r.random() < 0.3 else (float(r.randint(-2, 2)) if exact else val())) for a in v0]
        return {"dirs": [r.choice(["min", "max"]) for _ in range(k)], "v0": v0, "v1": v1}
    if site == "crowdingSort":
        k = r.randint(1, 3)
        if not exact:
            n = r.randint(1, 6)
            return {"pop": [[i, [val() for _ in range(k)]] for i in range(n)], "nObj": k}
        # exact stream: every objective spans a width of 1, 2 or 4 (or 0), so that gap / width and the sums of the
        # code's float arithmetic are exact and equal distances are equal in both worlds
        n = r.choice([1, 2, 3, 5, 5])
        cols = []
        for _ in range(k):
            if r.random() < 0.15:
                col = [float(r.randint(-2, 2))] * n
            else:
                col = [float(r.randrange(n)) for _ in range(n)]
                if n > 1:
                    i, j = r.sample(range(n), 2)
                    col[i], col[j] = 0.0, float(n - 1)
                off = float(r.randint(-3, 3))
                col = [v + off for v in col]
            cols.append(col)
        return {"pop": [[i, [cols[j][i] for j in range(k)]] for i in range(n)], "nObj": k}
    raise ValueError(site)


def eval_site(S: Sites, site: str, d: str, c: dict[str, Any]) -> tuple[dict[str, Any] | None, Any]:
    """(driver request or None, result of the REAL optuna code for direction d)"""
    import numpy as np
    from optuna.pruners import _percentile, _successive_halving
    from optuna.samplers._tpe import sampler as tpe
    from optuna.study import _multi_objective as mo

    TS = S.TS
    with warnings.catch_warnings():
        warnings.simplefilter("ignore")
        if site == "best":
            t = S.trial(TS.RUNNING, iv=dict(enumerate(c["vs"])))
            res = float(_percentile._get_best_intermediate_result_over_steps(t, S.sd(d)))
            return {"site": "best", "d": d, "vs": [q2s(v) for v in c["vs"]]}, res
        if site == "perc":
            trials = [S.trial(TS.COMPLETE, value=0.0, iv={3: v}) for v in c["vals"]] + [S.trial(TS.COMPLETE, value=0.0, iv={1: 0.0}) for _ in range(c["missing"])]
            res = _percentile._get_percentile_intermediate_result_over_trials(trials, S.sd(d), 3, c["q"], c["nMin"])
            return {"site": "perc", "d": d, "vals": [q2s(v) for v in c["vals"]], "q": q2s(c["q"]), "nMin": c["nMin"]}, float(res)
        if site == "percPrune":
            trials = [S.trial(TS.COMPLETE, value=0.0, iv={3: v}) for v in c["vals"]] + [S.trial(TS.COMPLETE, value=0.0, iv={1: 0.0}) for _ in range(c["missing"])]
            st = S.study(d, trials)
            k = len(c["cur"])
            cur = S.trial(TS.RUNNING, iv={3 - (k - 1 - i): v for i, v in enumerate(c["cur"])}, number=len(trials))
            pr = S.optuna.pruners.PercentilePruner(c["q"], n_startup_trials=0, n_warmup_steps=0, interval_steps=1, n_min_trials=c["nMin"])
            res = bool(pr.prune(st, cur))
            return {"site": "percPrune", "d": d, "q": q2s(c["q"]), "nMin": c["nMin"], "cur": [q2s(v) for v in c["cur"]], "others": [q2s(v) for v in c["vals"]]}, res
        if site == "promotable":
            comp = list(c["competing"])
            value = comp[c["pos"]]
            res = bool(_successive_halving._is_trial_promotable_to_next_rung(value, list(comp), c["rf"], S.sd(d)))
            return {"site": "promotable", "d": d, "value": q2s(value), "competing": [q2s(v) for v in comp], "rf": c["rf"]}, res
        if site == "patient":
            st = S.study(d)
            t = S.trial(TS.RUNNING, iv={s: v for s, v in c["iv"]})
            res = bool(S.optuna.pruners.PatientPruner(None, patience=c["patience"], min_delta=c["delta"]).prune(st, t))
            ordered = sorted(c["iv"])
            p = c["patience"]
            before, after = ordered[: len(ordered) - p - 1], ordered[len(ordered) - p - 1:]
            return {"site": "patient", "d": d, "before": [q2s(v) for _, v in before], "after": [q2s(v) for _, v in after], "delta": q2s(c["delta"])}, res
        if site == "threshold":
            st = S.study(d)
            t = S.trial(TS.RUNNING, iv={0: c["v"]})
            res = bool(S.optuna.pruners.ThresholdPruner(lower=c["lower"], upper=c["upper"]).prune(st, t))
            return {"site": "threshold", "lower": None if c["lower"] is None else q2s(c["lower"]), "upper": None if c["upper"] is None else q2s(c["upper"]), "v": q2s(c["v"])}, res
        if site == "wilcoxon":
            import scipy.stats as ss

            bestv = 100.0 if d == "max" else -100.0  # the best trial is the one COMPLETE trial
            st = S.study(d, [S.trial(TS.COMPLETE, value=bestv, iv={s: v for s, v in c["best"]})])
            t = S.trial(TS.RUNNING, iv={s: v for s, v in c["cur"]}, number=1)
            res = bool(S.optuna.pruners.WilcoxonPruner(p_threshold=c["pThr"], n_startup_steps=0).prune(st, t))
            bd = dict((s, v) for s, v in c["best"])
            diff = np.array([v - bd[s] for s, v in c["cur"] if s in bd])
            alt = "less" if d == "max" else "greater"
            w = ss.wilcoxon(diff, alternative=alt, zero_method="zsplit")
            req = {"site": "wilcoxon", "d": d, "cur": [[s, q2s(v)] for s, v in c["cur"]], "best": [[s, q2s(v)] for s, v in c["best"]],
                   "p": q2s(float(w.pvalue)), "pThr": q2s(c["pThr"])}
            return req, {"prune": res, "stat": float(w.statistic), "alt": alt, "p": float(w.pvalue)}
        if site == "splitSingle":
            trials = [S.trial(TS.COMPLETE, value=v, number=i) for i, v in enumerate(c["vals"])]
            st = S.study(d)
            n = min(c["nBelow"], len(trials))
            b, a = tpe._split_complete_trials_single_objective(trials, st, n)
            return {"site": "splitSingle", "d": d, "ts": [[i, q2s(v)] for i, v in enumerate(c["vals"])], "nBelow": c["nBelow"]}, [[t.number for t in b], [t.number for t in a]]
        if site == "prunedScore":
            st = S.study(d)
            t = S.trial(TS.PRUNED, iv={s: v for s, v in c["iv"]})
            a, b = tpe._get_pruned_trial_score(t, st)
            return {"site": "prunedScore", "d": d, "iv": [[s, q2s(v)] for s, v in c["iv"]]}, [int(a), float(b)]
        if site == "splitPruned":
            st = S.study(d)
            trials = [S.trial(TS.PRUNED, iv={s: v for s, v in iv}, number=i) for i, iv in enumerate(c["ts"])]
            b, a = tpe._split_pruned_trials(trials, st, c["nBelow"])
            return {"site": "splitPruned", "d": d, "ts": [[i, [[s, q2s(v)] for s, v in iv]] for i, iv in enumerate(c["ts"])], "nBelow": c["nBelow"]}, [[t.number for t in b], [t.number for t in a]]
        if site == "dominates":
            dirs = [S.sd(x) for x in c["dirs"]]
            t0 = S.create_trial(state=TS.COMPLETE, values=c["v0"], params={}, distributions={})
            t1 = S.create_trial(state=TS.COMPLETE, values=c["v1"], params={}, distributions={})
            res = bool(mo._dominates(t0, t1, dirs))
            return {"site": "dominates", "dirs": c["dirs"], "v0": [q2s(v) for v in c["v0"]], "v1": [q2s(v) for v in c["v1"]]}, res
        if site == "bestTrial":
            st = S.study(d)
            for i, v in enumerate(c["vals"]):
                sa = {} if c["cons"] is None else {"constraints": [c["cons"][i]]}
                st.add_trial(S.trial(TS.COMPLETE, value=v, sysattrs=sa))
            try:
                res: Any = st.best_trial.number
            except ValueError:
                res = None
            return {"site": "bestTrial", "d": d, "ts": [[i, q2s(v)] for i, v in enumerate(c["vals"])]}, res
        if site == "crowdingSort":
            from optuna.samplers.nsgaii import _elite_population_selection_strategy as e2

            pop = []
            for i, vs in c["pop"]:
                t = S.create_trial(state=TS.COMPLETE, values=vs, params={}, distributions={})
                t.number = i
                pop.append(t)
            e2._crowding_distance_sort(pop)
            return {"site": "crowdingSort", "pop": [[i, [q2s(v) for v in vs]] for i, vs in c["pop"]], "nObj": c["nObj"]}, [t.number for t in pop]
    raise ValueError(site)


def model_vs_real(site: str, d: str, c: dict[str, Any], out: Any, real: Any, drv: core.Driver) -> str | None:
    """None if the Lean definition and the real code agree on this exact case."""
    def p(s: str) -> float:
        if s == "nan":
            return float("nan")
        if s == "inf":
            return float("inf")
        return float(Fraction(s))

    if site in ("best", "perc"):
        return None if same(p(out), real) else "model %s / code %r" % (out, real)
    if site == "wilcoxon":
        msgs = []
        if out["alt"] != real["alt"]:
            msgs.append("alternative %s / %s" % (out["alt"], real["alt"]))
        if float(Fraction(out["rPlus"])) != real["stat"]:
            msgs.append("r+ %s / scipy statistic %r" % (out["rPlus"], real["stat"]))
        if out["prune"] != real["prune"]:
            msgs.append("decision %s / %s" % (out["prune"], real["prune"]))
        return "; ".join(msgs) or None
    if site == "prunedScore":
        return None if (out[0] == real[0] and same(p(out[1]), real[1])) else "model %s / code %s" % (out, real)
    if site == "bestTrial":
        exp = out
        if c["cons"] is not None and exp is not None and c["cons"][exp] > 0:
            feas = [[i, q2s(v)] for i, v in enumerate(c["vals"]) if c["cons"][i] <= 0]
            exp = drv.ask({"site": "bestTrial", "d": d, "ts": feas})["r"]
        return None if exp == real else "model %s / code %s" % (exp, real)
    return None if out == real else "model %s / code %s" % (out, real)


def mirror_case(site: str, c: dict[str, Any]) -> dict[str, Any]:
    """The inputs of the mirrored (minimize, negated) evaluation."""
    m = json.loads(json.dumps(c, default=lambda x: x))
    def nl(l: list[float]) -> list[float]:
        return [negf(v) for v in l]
    if site == "best":
        m["vs"] = nl(c["vs"])
    elif site in ("perc", "percPrune"):
        m["vals"] = nl(c["vals"])
        if "cur" in c:
            m["cur"] = nl(c["cur"])
    elif site == "promotable":
        m["competing"] = nl(c["competing"])
    elif site == "patient":
        m["iv"] = [[s, negf(v)] for s, v in c["iv"]]
    elif site == "threshold":
        m["lower"] = None if c["upper"] is None else -c["upper"]
        m["upper"] = None if c["lower"] is None else -c["lower"]
        m["v"] = negf(c["v"])
    elif site == "wilcoxon":
        m["best"] = [[s, -v] for s, v in c["best"]]
        m["cur"] = [[s, -v] for s, v in c["cur"]]
    elif site in ("splitSingle", "bestTrial"):
        m["vals"] = nl(c["vals"])
    elif site == "prunedScore":
        m["iv"] = [[s, negf(v)] for s, v in c["iv"]]
    elif site == "splitPruned":
        m["ts"] = [[[s, negf(v)] for s, v in iv] for iv in c["ts"]]
    return m


def mirror_result(site: str, real: Any) -> Any:
    if site in ("best", "perc"):
        return negf(real)
    if site == "wilcoxon":
        return {"prune": real["prune"]}
    return real


def _nan_json(c: Any) -> Any:
    return json.loads(json.dumps(c).replace("NaN", '"nan"'))


def run_sites(chk: core.Check, n_exact: int, n_float: int) -> None:
    S = Sites()
    drv = core.Driver("direction")
    r = chk.rng
    single = ["best", "perc", "percPrune", "promotable", "patient", "wilcoxon", "splitSingle", "prunedScore", "splitPruned", "bestTrial"]
    outcomes: dict[str, set] = {}
    try:
        for site in single + ["threshold", "dominates", "crowdingSort"]:
            for i in range(n_exact + n_float):
                exact = i < n_exact
                c = gen_site_case(site, r, exact)
                dirs = ["max", "min"] if site in single else ["max"]
                try:
                    for d in dirs:
                        req, real = eval_site(S, site, d, c)
                        if exact:
                            out = drv.ask(req)
                            if "r" not in out:
                                raise core.DriverBroken(str(out))
                            why = model_vs_real(site, d, c, out["r"], real, drv)
                            chk.count("k-site:" + site)
                            outcomes.setdefault(site, set()).add(core.canon(real if site != "wilcoxon" else real["prune"])[:40])
                            if why is not None:
                                chk.broke("correspondence", {"site": site, "direction": d, "case": _nan_json(c), "why": why})
                    # the mirror law on the real code (independent of the model)
                    if site in single:
                        _, a = eval_site(S, site, "max", c)
                        _, b = eval_site(S, site, "min", mirror_case(site, c))
                        ea, eb = mirror_result(site, a), (b if site != "wilcoxon" else {"prune": b["prune"]})
                        ok = same(ea, eb) if not isinstance(ea, list) else all(same(x, y) for x, y in zip(ea, eb)) and len(ea) == len(eb)
                        if not ok and site == "perc" and not exact and isinstance(ea, float) and isinstance(eb, float) \
                                and abs(ea - eb) <= 1e-12 * max(1.0, abs(ea)):
                            ok = True  # rounding of `100 - q` and of numpy's lerp (outside Q): the value may move by an ulp
                            chk.count("mirror-site:perc:ulp-difference-accepted")
                        if site == "wilcoxon" and abs(a["p"] - b["p"]) > 1e-9:
                            chk.broke("correspondence", {"site": "wilcoxon", "why": "scipy p-value not symmetric (hypothesis hpv of wilcoxon_mirror)", "case": c, "p": [a["p"], b["p"]]})
                        chk.count("mirror-site:" + site)
                        if not ok:
                            chk.violation({"site": site, "level": "site", "attributed": True},
                                          {"kind": "site", "site": site, "case": _nan_json(c), "maximize": _nan_json(a), "minimize_negated": _nan_json(b)},
                                          "site %s of the real code is not symmetric: maximize on v gives %r, minimize on -v gives %r (inputs %s)" % (
                                              site, a, b, json.dumps(_nan_json(c))[:300]))
                    elif site == "threshold":
                        _, a = eval_site(S, site, "max", c)
                        _, b = eval_site(S, site, "min", mirror_case(site, c))
                        chk.count("mirror-site:" + site)
                        if a != b:
                            chk.violation({"site": site, "level": "site", "attributed": True}, {"kind": "site", "site": site, "case": _nan_json(c)},
                                          "ThresholdPruner with mirrored bounds decides differently on -v: %r / %r" % (a, b))
                except core.DriverBroken:
                    raise
                # non-trivial: at least two values enter the comparison the site makes
                size = max([len(v) for v in c.values() if isinstance(v, list)] or [1])
                chk.case({"site": site, "case": _nan_json(c)}, nontrivial=size >= 2)
    finally:
        drv.close()
    chk.extra["k_site_outcomes"] = {k: len(v) for k, v in sorted(outcomes.items())}
    for site, vals in outcomes.items():
        if len(vals) < 2 and site not in ("crowdingSort",):
            chk.broke("correspondence", {"site": site, "why": "generator degenerate: only one outcome seen", "outcomes": sorted(vals)})


def inf_percentile_witness(chk: core.Check) -> None:
    """Former finding F41 (fixed: `_get_percentile_intermediate_result_over_trials` computes the MAXIMIZE case as the mirror of the
    MINIMIZE case, `-np.nanpercentile(-values, percentile)`).  Before the repair numpy's linear interpolation made MedianPruner /
    PercentilePruner asymmetric on histories with an infinite report (at t = 1/2 between -inf and 0 it answers -inf, between 0 and
    +inf it answers inf - inf = NaN; Lean: C13Bridge.percentile_mirror_fails_with_inf about `percentilePruneOld`).  Now a plain
    symmetry check: the old witness first, then seeded histories with +-inf reports; an asymmetric pair is a violation (a revert of
    the repair is reported concretely by the first pair)."""
    import optuna

    def run(direction: str, sign: float, done: list[float], cur: float, q: float) -> bool:
        pr = optuna.pruners.MedianPruner(n_startup_trials=0, n_warmup_steps=0) if q == 50.0 else \
            optuna.pruners.PercentilePruner(q, n_startup_trials=0, n_warmup_steps=0)
        st = optuna.create_study(direction=direction, pruner=pr)
        for v in done:
            t = st.ask()
            t.report(sign * v, 0)
            st.tell(t, sign * (v if math.isfinite(v) else 1.0))
        t = st.ask()
        t.report(sign * cur, 0)
        import numpy as np
        with warnings.catch_warnings(), np.errstate(invalid="ignore"):
            warnings.simplefilter("ignore")  # numpy's "invalid value encountered" on inf - inf
            return bool(t.should_prune())

    r = random.Random(chk.seed * 104729 + 41)
    pairs: list[tuple[list[float], float, float]] = [([-math.inf, 0.0], 5.0, 50.0), ([0.0, math.inf], -5.0, 50.0), ([-math.inf, 0.0, math.inf], 1.0, 25.0)]
    for _ in range(40 if chk.tier == "quick" else 400):
        n = r.randint(2, 6)
        done = [r.choice([-math.inf, math.inf]) if r.random() < 0.3 else r.randint(-8, 8) / 4.0 for _ in range(n)]
        pairs.append((done, r.randint(-8, 8) / 4.0, r.choice([25.0, 50.0, 50.0, 75.0, 10.0, 90.0])))
    outcomes = set()
    for i, (done, cur, q) in enumerate(pairs):
        a, b = run("minimize", 1.0, done, cur, q), run("maximize", -1.0, done, cur, q)
        outcomes.add(a)
        chk.case({"part": "inf-percentile-symmetry", "done": [str(v) for v in done], "cur": cur, "q": q}, nontrivial=True)
        chk.count("inf-percentile-symmetry")
        if i == 0:
            chk.extra["witness_inf_percentile"] = {"minimize": a, "maximize_on_negated": b}
        if a != b:
            chk.violation({"site": "percentile-inf-symmetry", "level": "witness", "attributed": True},
                          {"kind": "witness", "which": "inf-percentile", "done": [str(v) for v in done], "cur": cur, "q": q},
                          "Percentile/MedianPruner(q=%s): finished trials reported %s at step 0, the running trial reports %s under minimize: should_prune() = %s; "
                          "the mirrored maximize study (all values negated) answers %s (np.nanpercentile(v, 100 - q) is not the mirror of np.nanpercentile(-v, q) "
                          "when a neighbour is infinite: the repair of F41 was reverted?)" % (q, done, cur, a, b))
            break
    if len(outcomes) < 2:
        chk.broke("correspondence", {"site": "percentile-inf-symmetry", "why": "generator degenerate: only one outcome seen"})


def replay_witnesses(chk: core.Check) -> None:
    """The two formerly asymmetric sites (NSGA-II crowding tie order, NSGA-III niching), after their repairs: correspondence with
    the model and symmetry on many inputs; the old behaviours' witnesses come first, so that a revert is reported concretely."""
    import numpy as np
    S = Sites()
    drv = core.Driver("direction")
    try:
        # NSGA-II `_crowding_distance_sort` (after the repair of F-C13-1): correspondence with the model AND symmetry on
        # many fronts without per-objective ties, every subset of negated objectives; first the witness front of the
        # former finding {#0=(0,0), #1=(1,1)}.  `crowding_order_symmetric` is the theorem; `crowdingSortOld` names a revert.
        rr2 = random.Random(chk.seed * 7919 + 29)
        fronts: list[tuple[list[list[float]], list[int], list[bool]]] = [([[0.0, 0.0], [1.0, 1.0]], [0, 1], [False, True]),
                                                                         ([[0.0, 0.0], [1.0, 1.0], [2.0, 2.0]], [0, 1, 2], [False, True])]
        for _ in range(60 if chk.tier == "quick" else 600):
            n_obj = rr2.choice([1, 2, 2, 3, 4])
            n = rr2.randint(2, 8)
            # every objective spans a width of 1, 2, 4 or 8 on a dyadic grid (both ends present, pairwise-distinct values), so that
            # gap / width and the sums of the code's float arithmetic are exact and the exact model is the code's model; arbitrary
            # floats are compared bit for bit with the float instance by verif/props/c15_nsga.py (stages crowd / mirror)
            cols = []
            for _i in range(n_obj):
                w_, lo_ = rr2.choice([1.0, 2.0, 4.0, 8.0]), float(rr2.randint(-8, 8))
                ks = [0, 16] + rr2.sample(range(1, 16), n - 2)
                rr2.shuffle(ks)
                cols.append([lo_ + w_ * k / 16.0 for k in ks])
            fronts.append(([[cols[i][k] for i in range(n_obj)] for k in range(n)], rr2.sample(range(3 * n), n), [rr2.random() < 0.5 for _ in range(n_obj)]))
        first2 = True
        for rows, numbers, mask in fronts:
            if not any(mask):
                mask = [True] + mask[1:]
            n_obj = len(mask)
            mrows = [[-v if m else v for v, m in zip(r_, mask)] for r_ in rows]
            res = []
            for rws in (rows, mrows):
                pop = [[k, list(v)] for k, v in zip(numbers, rws)]
                req, real = eval_site(S, "crowdingSort", "max", {"pop": pop, "nObj": n_obj})
                res.append((drv.ask(req)["r"], real, drv.ask(dict(req, site="crowdingSortOld"))["r"]))
            chk.count("mirror-site:crowdingSort")
            chk.case({"site": "crowdingSort", "rows": rows, "numbers": numbers, "mask": mask}, nontrivial=len(rows) >= 2)
            if first2:
                chk.extra["witness_nsga2_crowding"] = {"model": [m for m, _, _ in res], "code": [c for _, c, _ in res], "model_before_repair": [o for _, _, o in res]}
                first2 = False
            if res[0][1] != res[1][1]:
                reverted = all(c == o for _, c, o in res)
                chk.violation({"site": "nsga2-crowding-tie-order", "level": "witness", "attributed": True},
                              {"kind": "witness", "which": "nsga2", "rows": rows, "numbers": numbers, "mask": mask, "orders": [res[0][1], res[1][1]]},
                              "NSGA-II _crowding_distance_sort: the front %s (trial numbers %s) is ordered %s, the same front with objectives %s negated (the mirrored "
                              "study) %s%s" % (rows, numbers, res[0][1], [i for i, m in enumerate(mask) if m], res[1][1],
                                               ": exactly the orders of the sort before the repair of F-C13-1 (crowdingSortOld: ties of equal distances ordered by the raw last objective)"
                                               if reverted else ""))
                break
            if any(m != c for m, c, _ in res):
                chk.broke("correspondence", {"site": "crowdingSort", "why": "model %s, code %s (rows %s numbers %s mask %s)" % ([m for m, _, _ in res], [c for _, c, _ in res], rows, numbers, mask)})
                break
        # NSGA-III: the matrix handed to the niching step, captured at the real call site (`__call__` run on a population
        # one larger than population_size so that the niching branch is taken; `_normalize_objective_values` wrapped)
        from optuna.samplers._nsgaiii import _elite_population_selection_strategy as e3
        from optuna.samplers._lazy_random_state import LazyRandomState

        class _Study:
            def __init__(self, dirs: list[str]) -> None:
                self.directions = [S.SD.MAXIMIZE if d == "max" else S.SD.MINIMIZE for d in dirs]

        def shifted(rows: list[list[float]], dirs: list[str]) -> tuple[list[int], list[list[float]]]:
            pop = [S.create_trial(state=S.TS.COMPLETE, values=v, params={}, distributions={}) for v in rows]
            for i, t in enumerate(pop):
                t.number = i
            seen: list[Any] = []
            used: list[list[int]] = []
            orig = e3._normalize_objective_values
            orig_f = e3._filter_inf

            def spy_f(population: Any) -> Any:
                used.append([t.number for t in population])
                return orig_f(population)

            def spy(m: Any) -> Any:
                m = np.array(m, dtype=float)
                seen.append(m - np.min(m, axis=0))
                return orig(m)

            e3._normalize_objective_values = spy
            e3._filter_inf = spy_f
            try:
                strat = e3.NSGAIIIElitePopulationSelectionStrategy(population_size=max(2, len(pop) - 1), rng=LazyRandomState(0))
                strat(_Study(dirs), list(pop))
            finally:
                e3._normalize_objective_values = orig
                e3._filter_inf = orig_f
            if len(seen) != 1 or len(used) != 1:
                raise core.DriverBroken("NSGA-III niching branch not reached exactly once (%d, %d)" % (len(seen), len(used)))
            return used[0], [[float(x) for x in row] for row in seen[0]]

        tof = lambda M: [[float(Fraction(x)) for x in row] for row in M]
        rr = random.Random(chk.seed * 7919 + 13)
        cases3: list[tuple[list[list[float]], list[str]]] = [([[0.0, 1.0], [1.0, 0.0], [0.5, 0.5]], ["max", "min"])]
        for _ in range(40 if chk.tier == "quick" else 400):
            n_obj = rr.choice([2, 2, 3, 4])
            n = rr.randint(3, 7)
            # mutually non-dominated rows are not required: the last front is whatever the ranking says; distinct lattice values
            cases3.append(([[float(rr.randint(-6, 6)) / rr.choice([1, 2, 4]) for _ in range(n_obj)] for _ in range(n)],
                           [rr.choice(["max", "min"]) for _ in range(n_obj)]))
        first = True
        for rows, dirs in cases3:
            mask = [d == "max" for d in dirs]
            mrows = [[-v if m else v for v, m in zip(r_, mask)] for r_ in rows]
            (ua, a), (ub, b) = shifted(rows, dirs), shifted(mrows, ["min"] * len(dirs))
            ma = drv.ask({"site": "nsga3Shift", "dirs": dirs, "rows": [[q2s(v) for v in rows[i]] for i in ua]})["r"]
            mb = drv.ask({"site": "nsga3Shift", "dirs": ["min"] * len(dirs), "rows": [[q2s(v) for v in mrows[i]] for i in ub]})["r"]
            chk.count("mirror-site:nsga3Shift")
            chk.case({"site": "nsga3Shift", "rows": rows, "dirs": dirs}, nontrivial=any(mask) and len(ua) >= 3)
            if first:
                chk.extra["witness_nsga3_shift"] = {"model": [tof(ma), tof(mb)], "code": [a, b]}
                first = False
            # the model is asked on exactly the rows the code handed to the niching step (elite + last front), in that order
            if tof(ma) != a or tof(mb) != b:
                chk.broke("correspondence", {"site": "nsga3Shift", "why": "model %s %s / code %s %s (rows %s dirs %s used %s %s)" % (tof(ma), tof(mb), a, b, rows, dirs, ua, ub)})
                break
            if sorted(zip(ua, a)) != sorted(zip(ub, b)):
                chk.violation({"site": "nsga3-raw-values-in-niching", "level": "witness", "attributed": True}, {"kind": "witness", "which": "nsga3", "rows": rows, "dirs": dirs},
                              "NSGA-III niching: trials %s of a %s study reach the niching step as %s, the same trials of the mirrored all-minimise study %s as %s "
                              "(the ideal point must be taken on the direction-normalised values)" % (rows, dirs, a, mrows, b))
                break
    finally:
        drv.close()


# =============================================================================================
# K-run: paired studies
# =============================================================================================

SAMPLERS_SINGLE: list[dict[str, Any]] = [
    {"kind": "random"},
    {"kind": "tpe"},
    {"kind": "tpe", "multivariate": True},
    {"kind": "tpe", "multivariate": True, "group": True},
    {"kind": "tpe", "gamma": "half"},
    {"kind": "tpe", "gamma": "half", "n_startup": 3, "endpoints": True},
    {"kind": "tpe", "constant_liar": True, "gamma": "third"},
    {"kind": "nsga2"},
    {"kind": "nsga2", "pop": 4},
    {"kind": "nsga3"},
    {"kind": "qmc"},
    {"kind": "qmc", "qmc_type": "halton", "scramble": False},
    {"kind": "grid"},
    {"kind": "brute"},
]
GP_SAMPLERS = [{"kind": "gp", "n_startup": 4}, {"kind": "gp", "n_startup": 4, "deterministic": True}]
PRUNERS: list[dict[str, Any]] = [
    {"kind": "nop"},
    {"kind": "median"},
    {"kind": "median", "n_startup": 4, "warmup": 1, "interval": 2, "n_min": 2},
    {"kind": "percentile", "q": 25.0},
    {"kind": "percentile", "q": 70.0, "n_min": 2},
    {"kind": "percentile", "q": 90.0, "n_startup": 1},
    {"kind": "sha"},
    {"kind": "sha", "rf": 3, "bootstrap": 1},
    {"kind": "sha", "min_resource": 2, "mesr": 1},
    {"kind": "hyperband"},
    {"kind": "hyperband", "rf": 2, "max_resource": 8},
    {"kind": "patient", "inner": {"kind": "median"}, "patience": 1},
    {"kind": "patient", "inner": None, "patience": 2, "min_delta": 0.1},
    {"kind": "patient", "inner": {"kind": "percentile", "q": 60.0}, "patience": 0, "min_delta": 0.05},
    {"kind": "threshold", "lower": -0.5, "upper": 1.5},
    {"kind": "threshold", "lower": None, "upper": 0.75, "warmup": 1},
    {"kind": "threshold", "lower": 0.1, "upper": None, "interval": 2},
    {"kind": "wilcoxon"},
    {"kind": "wilcoxon", "p": 0.3, "n_startup": 3},
]
SAMPLERS_MULTI: list[dict[str, Any]] = [
    {"kind": "random"},
    {"kind": "tpe"},
    {"kind": "tpe", "multivariate": True, "group": True},
    {"kind": "tpe", "gamma": "half"},
    {"kind": "tpe", "constant_liar": True, "gamma": "third"},
    {"kind": "nsga2"},
    {"kind": "nsga2", "pop": 4},
    {"kind": "nsga3"},
    {"kind": "nsga3", "pop": 10},
    {"kind": "qmc"},
    {"kind": "grid"},
    {"kind": "brute"},
]
HISTORY_DEPENDENT = {"tpe", "nsga2", "nsga3", "gp"}


def sname(s: dict[str, Any]) -> str:
    return s["kind"] + "".join("+" + k for k in sorted(s) if k not in ("kind",) and s[k] not in (False, None))


def make_cell(r: random.Random, sampler: dict[str, Any], pruner: dict[str, Any], n_obj: int, n_trials: int) -> dict[str, Any]:
    from verif import direction_k as D

    finite = sampler["kind"] in ("grid", "brute")
    with_steps = n_obj == 1 and pruner["kind"] != "nop"
    cons = sampler["kind"] in ("tpe", "nsga2", "nsga3", "gp") and r.random() < 0.35
    contiguous = pruner["kind"] in ("wilcoxon",)
    prog = D.gen_program(r, n_obj, finite, with_steps, cons, contiguous_steps=contiguous,
                         n_top=(2, 3) if sampler["kind"] == "gp" else (1, 3), allow_cond=sampler["kind"] != "gp" or r.random() < 0.5)
    if pruner["kind"] == "threshold":
        prog["noise"], prog["decay"] = 1.0, 0.5
    return {"sampler": sampler, "pruner": pruner, "program": prog, "seed": r.randrange(10 ** 6), "n_trials": n_trials}


def masks_of(n_obj: int) -> list[list[bool]]:
    return [list(m) for m in itertools.product([False, True], repeat=n_obj) if any(m)]


def _run_cell(cell: dict[str, Any]) -> dict[str, Any]:
    """One cell: the base run and every flipped run; for NSGA-II/III multi-objective cells additionally the same pairs
    under the attribution patch (symmetric tie-break / direction-aware niching applied from the harness)."""
    import contextlib

    from verif import direction_k as D

    t0 = time.time()
    n_obj = cell["program"]["n_obj"]
    kind = cell["sampler"]["kind"]
    out: dict[str, Any] = {"cell": cell, "pairs": [], "patched_pairs": []}
    try:
        base = D.run_study(cell, [False] * n_obj)
        out["features"] = D.features(base)
        out["distinct"] = D.distinct_values(base)
        out["error"] = base["error"]
        for mask in masks_of(n_obj):
            res = D.run_pair(cell, mask, base)
            out["pairs"].append({"mask": mask, "diff": res["diff"]})
        if n_obj > 1 and kind in KNOWN_SITES and any(p["diff"] for p in out["pairs"]):
            with D.attribution_patch(KNOWN_SITES[kind]):
                pbase = D.run_study(cell, [False] * n_obj)
                for mask in masks_of(n_obj):
                    res = D.run_pair(cell, mask, pbase)
                    out["patched_pairs"].append({"mask": mask, "diff": res["diff"]})
        elif n_obj > 1 and kind in KNOWN_SITES:
            out["patched_pairs"] = [{"mask": p["mask"], "diff": None} for p in out["pairs"]]
    except Exception as e:  # infrastructure inside a worker: reported, not a verdict
        import traceback

        out["crash"] = "%s: %s\n%s" % (type(e).__name__, e, traceback.format_exc()[-1500:])
    out["wall"] = round(time.time() - t0, 2)
    return out


def _shrink(cell: dict[str, Any], mask: list[bool], patched_kind: str | None) -> dict[str, Any]:
    """Fewest trials on which the pair still differs."""
    import contextlib

    from verif import direction_k as D

    def differs(n: int) -> Any:
        c = dict(cell, n_trials=n)
        with (D.attribution_patch(patched_kind) if patched_kind else contextlib.nullcontext()):
            return D.run_pair(c, mask)["diff"]

    lo, hi = 1, cell["n_trials"]
    best = differs(hi)
    if best is None:
        return {"cell": cell, "diff": None}
    while lo < hi:
        mid = (lo + hi) // 2
        d = differs(mid)
        if d is not None:
            hi, best = mid, d
        else:
            lo = mid + 1
    return {"cell": dict(cell, n_trials=hi), "diff": best}


def build_jobs(chk: core.Check, tier: str, focus: set[str] | None = None, scale: int = 1) -> list[dict[str, Any]]:
    r = chk.rng
    jobs: list[dict[str, Any]] = []
    quick = tier == "quick"
    # 1. every pruner configuration under the cheap, history-independent samplers
    reps = (3 if quick else 20) * scale
    for p in PRUNERS:
        for k in range(reps):
            s = [{"kind": "random"}, {"kind": "qmc"}, {"kind": "random"}, {"kind": "brute"}, {"kind": "grid"}][k % 5]
            jobs.append(make_cell(r, s, p, 1, 30 if quick else 45))
    # 2. history-dependent samplers x pruners
    hist = [s for s in SAMPLERS_SINGLE if s["kind"] in HISTORY_DEPENDENT]
    if quick:
        for s in hist:
            for p in r.sample(PRUNERS, 5) + [PRUNERS[0]]:
                jobs.append(make_cell(r, s, p, 1, 30))
    else:
        for s in SAMPLERS_SINGLE:
            for p in PRUNERS:
                for _ in range(4 * scale):
                    jobs.append(make_cell(r, s, p, 1, 40))
    # 3. GP (slow): a few cells
    gp_pruners = [PRUNERS[1], PRUNERS[0]] if quick else [PRUNERS[0], PRUNERS[1], PRUNERS[3], PRUNERS[6], PRUNERS[9], PRUNERS[11], PRUNERS[14], PRUNERS[17]]
    for i, p in enumerate(gp_pruners):
        jobs.append(make_cell(r, GP_SAMPLERS[i % 2], p, 1, 9 if quick else 16))
    # 4. multi-objective: every flipped subset
    for s in SAMPLERS_MULTI:
        for n_obj in (2, 3):
            for _ in range((1 if quick else 7) * scale):
                jobs.append(make_cell(r, s, {"kind": "nop"}, n_obj, (30 if n_obj == 2 else 22) if quick else 50))
    if focus:
        jobs = [j for j in jobs if j["sampler"]["kind"] in focus or j["pruner"]["kind"] in focus]
    # slow cells first
    jobs.sort(key=lambda j: 0 if j["sampler"]["kind"] == "gp" else 1)
    return jobs


def run_matrix(chk: core.Check, jobs: list[dict[str, Any]], budget_s: float) -> None:
    import multiprocessing as mp

    os.environ.setdefault("OMP_NUM_THREADS", "1")
    os.environ.setdefault("MKL_NUM_THREADS", "1")
    os.environ.setdefault("OPENBLAS_NUM_THREADS", "1")
    ctx = mp.get_context("spawn")
    t0 = time.time()
    results = []
    with ctx.Pool(min(12, max(1, (os.cpu_count() or 4) - 2))) as pool:
        it = pool.imap_unordered(_run_cell, jobs, chunksize=1)
        for _ in range(len(jobs)):
            try:
                results.append(it.next(timeout=max(5.0, budget_s - (time.time() - t0))))
            except mp.TimeoutError:
                chk.extra["matrix_truncated_after_s"] = round(time.time() - t0, 1)
                pool.terminate()
                break
    digest(chk, results)


def digest(chk: core.Check, results: list[dict[str, Any]]) -> None:
    slow = []
    for res in results:
        cell = res["cell"]
        s, p = cell["sampler"], cell["pruner"]
        n_obj = cell["program"]["n_obj"]
        if "crash" in res:
            chk.broke("correspondence", {"worker crashed on cell": {"sampler": s, "pruner": p}, "why": res["crash"][-600:]})
            continue
        f = res["features"]
        chk.count("cell:%s x %s%s" % (s["kind"], p["kind"], "" if n_obj == 1 else " (%d objectives)" % n_obj))
        chk.count("trials:complete", f["complete"]); chk.count("trials:pruned", f["pruned"]); chk.count("trials:fail", f["fail"])
        chk.count("reports", f["reports"]); chk.count("reports:nan", f["nan_reports"])
        if f["cond_shapes"] > 1:
            chk.count("cells:conditional-space")
        if cell["program"]["constraints"]:
            chk.count("cells:constraints")
        if res["error"]:
            chk.count("cells:optimize-raised:" + res["error"].split(":")[0])
        slow.append((res["wall"], sname(s), p["kind"]))
        if not res["distinct"]:
            chk.count("cells:skipped-values-not-distinct")
            continue
        past_startup = s["kind"] in HISTORY_DEPENDENT and (f["complete"] + f["pruned"]) > s.get("n_startup", 6)
        nontrivial = past_startup or (f["pruned"] >= 1 and f["complete"] >= 1) or n_obj >= 2
        for pair in res["pairs"]:
            chk.case({"cell": cell, "mask": pair["mask"]}, nontrivial=nontrivial)
            chk.traces_validated += 1
            chk.programs += 1
        known_site = KNOWN_SITES.get(s["kind"]) if n_obj > 1 else None
        patched = {tuple(q["mask"]): q["diff"] for q in res["patched_pairs"]}
        for pair in res["pairs"]:
            d = pair["diff"]
            if d is None:
                continue
            mask = pair["mask"]
            if known_site is not None and patched.get(tuple(mask), 1) is None:
                # the pair agrees once the known asymmetric site is neutralised (from the harness, in both runs)
                sig = {"site": known_site, "level": "run", "attributed": True}
                small = _shrink(cell, mask, None) if len(chk.known_hits) + len(chk.violations) < 2 else {"cell": cell, "diff": d}
                chk.violation(sig, {"kind": "run", "cell": small["cell"], "mask": mask, "diff": small["diff"], "patch_that_removes_it": known_site},
                              _msg(small["cell"], mask, small["diff"]) + " [disappears when %s is neutralised from the harness in both runs]" % known_site)
                continue
            under = known_site if (known_site is not None and patched.get(tuple(mask), None) is not None) else None
            d = patched[tuple(mask)] if under else d
            small = _shrink(cell, mask, under) if len(chk.violations) < 2 else {"cell": cell, "diff": d}
            d = small["diff"] or d
            sig = {"site": "unattributed", "level": "run", "sampler": s["kind"], "pruner": p["kind"], "objectives": n_obj, "field": d["field"], "attributed": False}
            chk.violation(sig, {"kind": "run", "cell": small["cell"], "mask": mask, "diff": d, "under_patch": under},
                          _msg(small["cell"], mask, d) + (" [with %s neutralised]" % under if under else ""))
    slow.sort(reverse=True)
    chk.extra["slowest_cells"] = slow[:5]


def _msg(cell: dict[str, Any], mask: list[bool], d: dict[str, Any]) -> str:
    return ("sampler %s, pruner %s, seed %d, %d trials, %d objective(s), flipped %s: the maximising run differs from the mirrored minimising run at %s%s: "
            "expected %s, observed %s" % (
                json.dumps(cell["sampler"]), json.dumps(cell["pruner"]), cell["seed"], cell["n_trials"], cell["program"]["n_obj"],
                "".join("X" if m else "." for m in mask), d["field"], "" if d.get("trial") is None else " of trial %d" % d["trial"],
                json.dumps(d["expected"])[:160], json.dumps(d["observed"])[:160]))


# =============================================================================================
# main / search / replay
# =============================================================================================

def main(chk: core.Check) -> int:
    chk.rule = RULE
    chk.level = "proof"
    chk.extra["level_note"] = "partial by nature: decision sites + normalisation argument proved; numeric sampler bodies tied by inventory + paired runs"
    t_info = translate(chk)
    from verif.props import c13_tpe, c16_wilcoxon
    c13_tpe.prepare(chk)        # Generated/TpeInt.lean from optuna/samplers/_tpe/sampler.py
    c16_wilcoxon.prepare(chk)   # Generated/WilcoxonSkel.lean (wilcoxon_direction_mirror is about the whole prune)
    from verif.props import c16_skel
    c16_skel.prepare(chk)       # Generated/PrunersSkel.lean (Props/C13Bridge gen_prune_mirror* go through C16SkelGen.skel_prune_eq)
    from verif.props import c15_nsga
    c15_nsga.translate(chk)     # T-nsga2: content keys of the NSGA-II functions mirrored by Model/Nsga2.lean
    from verif.props import c16_report_gen
    c16_report_gen.regenerate(chk)  # Generated/ReportMethods.lean (Props/C13History goes through the generated Trial.report / should_prune)
    if not getattr(chk, "no_prove", False):
        chk.prove(["OptunaVerif.Props.C13", "OptunaVerif.Props.C13Nsga", "OptunaVerif.Props.C13Bridge", "OptunaVerif.Props.C13History"] + c13_tpe.PROPS_MODULES + c16_wilcoxon.PROPS_MODULES)
    quick = chk.tier == "quick"
    try:
        core.ensure_driver()
        c15_nsga.correspond(chk, chk.tier)  # crowding distance under negated objectives (+ the F-C13-1 witness)
        if not os.environ.get("C13_DEV_SKIP_SITES"):  # development only: measure what the paired runs find on their own
            run_sites(chk, n_exact=60 if quick else 600, n_float=60 if quick else 600)
        replay_witnesses(chk)
        inf_percentile_witness(chk)  # former F41: symmetry on histories with +-inf reports
        c13_tpe.correspond(chk, chk.tier)                      # _split_trials pipeline, gamma, weights vs Model/TpeSplit.lean + mirrored runs
        c16_wilcoxon.mirror(chk, 150 if quick else 3000)        # whole WilcoxonPruner.prune: maximize on v = minimize on -v
    except core.DriverBroken as e:
        chk.broke("correspondence", {"driver": str(e)[:800]})
    run_matrix(chk, build_jobs(chk, chk.tier), budget_s=85 if quick else 1000)
    chk.assumptions += [
        "objective values and per-step reports are pairwise distinct (the property's quantifier); cells where they are not are skipped and counted",
        "the two runs of a pair use the same seed, the same study name (Hyperband hashes it) and a fresh in-memory storage",
        "thresholds of ThresholdPruner are mirrored by the caller (lower' = -upper, upper' = -lower)",
        "scipy's signed-rank null distribution is symmetric (hypothesis hpv of wilcoxon_mirror; the tie checks p_less(d) = p_greater(-d))",
        "±inf objective values and reports are not generated; NaN reports are",
        "CmaEsSampler: cmaes is not installed, its two direction sites are inventoried only",
    ]
    chk.trusted += [
        "C13: numpy's nanmin/nanmax/nanpercentile(linear)/sort, scipy.stats.wilcoxon (modelled over Q, not verified); IEEE rounding of 100-q and lerp is outside the theorems",
        "C13: that the numeric bodies of TPE / GP / NSGA / QMC read objective values only through the modelled sites is shown by the T-sites inventory and by paired runs, not by a theorem about numpy code",
    ]
    chk.extra["t_sites_changed"] = t_info["changed"][:10]
    return chk.finish(search=search)


def search(chk: core.Check) -> None:
    """Something no longer checks (proof obligation over the regenerated site table, translation, site correspondence)
    and no concrete asymmetric run is known yet: hunt for one on the real code, first where the inventory changed."""
    try:
        chk.search_log.append("site-level mirror sweep on the real code: 700 float cases per site")
        run_sites(chk, n_exact=0, n_float=700)
    except core.DriverBroken:
        pass
    if chk.violations:
        return
    from verif.props import c15_nsga
    c15_nsga.search(chk)
    if chk.violations:
        return
    focus: set[str] = set()
    for ch in chk.extra.get("t_sites", {}).get("changed", []):
        f = ch["file"]
        for key, kinds in (("_tpe", {"tpe"}), ("_gp", {"gp"}), ("nsgaii", {"nsga2", "nsga3"}), ("_nsgaiii", {"nsga3"}), ("_qmc", {"qmc"}),
                           ("_grid", {"grid"}), ("_brute_force", {"brute"}), ("_random", {"random"}), ("_percentile", {"percentile", "median"}),
                           ("_median", {"median"}), ("_successive_halving", {"sha", "hyperband"}), ("_hyperband", {"hyperband"}),
                           ("_patient", {"patient"}), ("_threshold", {"threshold"}), ("_wilcoxon", {"wilcoxon"}),
                           ("_multi_objective", {"tpe", "nsga2", "nsga3"}), ("study.py", {"tpe", "nsga2", "gp"}), ("_in_memory", set())):
            if key in f:
                focus |= kinds
    for b in chk.broken:
        site = (b.get("detail") or {}).get("site") if isinstance(b.get("detail"), dict) else None
        if site:
            focus |= {"best": {"percentile", "median"}, "perc": {"percentile", "median"}, "percPrune": {"percentile", "median"}, "promotable": {"sha", "hyperband"},
                      "patient": {"patient"}, "threshold": {"threshold"}, "wilcoxon": {"wilcoxon"}, "splitSingle": {"tpe"}, "prunedScore": {"tpe"},
                      "splitPruned": {"tpe"}, "splitTrials": {"tpe"}, "moWeights": {"tpe"}, "wilcoxonFull": {"wilcoxon"}, "dominates": {"nsga2", "tpe"}, "bestTrial": {"tpe", "random"}, "crowdingSort": {"nsga2"}}.get(site, set())
    chk.search_log.append("failing-input search: focus %s" % (sorted(focus) or "everything"))
    before = len(chk.violations)
    jobs = build_jobs(chk, "thorough" if chk.tier == "thorough" else "quick", focus or None, scale=3 if focus else 2)
    chk.search_log.append("%d extra cells" % len(jobs))
    run_matrix(chk, jobs, budget_s=120 if chk.tier == "quick" else 600)
    chk.search_log.append("found %d asymmetric run(s)" % (len(chk.violations) - before))


def replay(chk: core.Check, path: str) -> int:
    from verif.props import c15_nsga
    rc = c15_nsga.replay(chk, json.load(open(path)))
    if rc is not None:
        return rc
    w = json.load(open(path)).get("witness") or {}
    if w.get("kind") == "run":
        from verif import direction_k as D

        import contextlib

        with (D.attribution_patch(w["under_patch"]) if w.get("under_patch") else contextlib.nullcontext()):
            res = D.run_pair(w["cell"], w["mask"])
        if res["diff"] is not None:
            print("REPRODUCED: " + _msg(w["cell"], w["mask"], res["diff"]))
            return 1
        print("not reproduced")
        return 0
    if w.get("kind") in ("tpesplit", "moWeights"):
        from verif.props import c13_tpe
        return c13_tpe.replay_case(chk, w)
    if w.get("kind") == "wilcoxonFull":
        from verif.props import c16_wilcoxon
        return c16_wilcoxon.replay_case(chk, w)
    if w.get("kind") == "site":
        S = Sites()
        c = json.loads(json.dumps(w["case"]).replace('"nan"', "NaN"))
        _, a = eval_site(S, w["site"], "max", c)
        _, b = eval_site(S, w["site"], "min", mirror_case(w["site"], c))
        ea = mirror_result(w["site"], a)
        eb = b if w["site"] != "wilcoxon" else {"prune": b["prune"]}
        if core.canon(_nan_json(ea)) != core.canon(_nan_json(eb)):
            print("REPRODUCED: site %s: maximize on v -> %r, minimize on -v -> %r" % (w["site"], a, b))
            return 1
        print("not reproduced")
        return 0
    if w.get("kind") == "witness":
        core.ensure_driver()
        if w.get("which") == "inf-percentile":
            inf_percentile_witness(chk)
        else:
            replay_witnesses(chk)
        hits = [v for v in chk.violations] + [h for h in chk.known_hits.values()]
        if hits:
            print("REPRODUCED: " + (hits[0]["message"]))
            return 1
        print("not reproduced")
        return 0
    print("replay file names no concrete witness (no-failing-input-found): %s" % json.dumps(json.load(open(path)).get("no_longer_checks"))[:600])
    return 0
