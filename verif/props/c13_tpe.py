"""C13 / C09 — TPE's trial split and weighting against `Model/TpeSplit.lean`.

prove:      Props/C13Tpe.lean (split_is_partition, split_sizes, split_sorted_by_number, split_direction_mirror (+ multi),
            running trials, gamma_bounds, weights_spec, mo_weights_spec) + Generated/TpeInt.lean (gamma / weights
            constants and branch structure regenerated from the source by verif/translators/tpe_int.py).
correspond: the REAL `_split_trials` (and through it `_split_complete_trials*`, `_split_pruned_trials`,
            `_split_infeasible_trials`, the two score functions) on generated FrozenTrial lists: states mixed (RUNNING,
            COMPLETE, PRUNED, sometimes FAIL / WAITING), tied values, +-inf values, pruned trials with / without reports
            (NaN / inf reports), constraints (missing, NaN, inf, zero), 1-3 objectives.  In multi-objective studies the
            names `_fast_non_domination_rank` and `_solve_hssp` inside optuna.samplers._tpe.sampler are wrapped
            (harness-side) by recorders: what the real kernels returned is handed to the model as its `Kernels`, and what
            the real code passed to `_solve_hssp` (indices, subset size) is compared with the model's `HsspCall`.
            `TPESampler._sample` is driven on real studies (constant_liar on / off, both gammas, constraints) with
            `_split_trials` wrapped to record its arguments: considered trials, n_below, constraints flag.
            default_gamma / hyperopt_default_gamma exhaustively on 0..N, default_weights on 0..M,
            `_calculate_weights_below_for_multi_objective` with the recorded hypervolumes as the model's contributions.
observe:    model-free oracles on the real `_split_trials`: (mirror) maximize on v = minimize on -v, any subset of
            objectives flipped, ties included; (partition) below + above is the input, disjoint, running trials above,
            |below| = min(n_below, #non-running), both sorted by number; (ids) rewriting every `_trial_id` changes nothing;
            (running) deleting the RUNNING trials leaves `below` unchanged.
A model/code disagreement is `broke`; a failed oracle is a `violation` (C13 for the mirror; the others are reported as
broken correspondence of C13's tie: they are not C13's property — see `oracles`).
"""
from __future__ import annotations

import math
import random
import warnings
from fractions import Fraction
from typing import Any

from verif import core

PROPS_MODULES = ["OptunaVerif.Props.C13Tpe", "OptunaVerif.Props.C13TpeGen"]
NAN = float("nan")
INF = float("inf")
STATE = {"running": 0, "complete": 1, "pruned": 2, "fail": 3, "waiting": 4}

RULE = (
    "TPE split tie: 0-12 trials, states {RUNNING, COMPLETE, PRUNED} (+ FAIL / WAITING in the malformed stream), 1-3 "
    "objectives, values on a half-integer lattice with ties and occasional +-inf, pruned trials with 0-3 reports (NaN / inf "
    "included), constraints None / lists over {-1, 0, 1/2, 2, NaN, inf}, constraints_enabled on / off, n_below 0..n+2; "
    "non-trivial = at least two trials of one class compete for the quota; distinct by SHA-1 of the case"
)


def enc(v: float) -> str:
    if math.isnan(v):
        return "nan"
    if v == INF:
        return "inf"
    if v == -INF:
        return "-inf"
    f = Fraction(v)
    return "%d/%d" % (f.numerator, f.denominator)


def dec(s: str) -> float:
    return {"nan": NAN, "inf": INF, "-inf": -INF}[s] if s in ("nan", "inf", "-inf") else float(Fraction(s))


def neg(s: str) -> str:
    return s if s == "nan" else enc(-dec(s))


class StopHere(Exception):
    pass


class Real:
    """the real functions, with recorders on the numeric kernels"""

    def __init__(self) -> None:
        import optuna
        from optuna.samplers._tpe import sampler as tpe
        from optuna.trial import TrialState, create_trial

        optuna.logging.set_verbosity(optuna.logging.ERROR)
        self.optuna = optuna
        self.tpe = tpe
        self.TS = TrialState
        self.create_trial = create_trial
        self.rank_calls: list[dict[str, Any]] = []
        self.hssp_calls: list[dict[str, Any]] = []
        self.hv_calls: list[float] = []
        self.front_calls: list[list[bool]] = []
        self.saved = {k: getattr(tpe, k) for k in ("_fast_non_domination_rank", "_solve_hssp", "compute_hypervolume", "_is_pareto_front")}
        real_rank, real_hssp, real_hv, real_front = (self.saved[k] for k in ("_fast_non_domination_rank", "_solve_hssp", "compute_hypervolume", "_is_pareto_front"))

        def rank(lvals: Any, *a: Any, **kw: Any) -> Any:
            out = real_rank(lvals, *a, **kw)
            self.rank_calls.append({"n_rows": len(lvals), "args": len(a), "kw": {k: int(v) for k, v in kw.items()}, "out": [int(x) for x in out]})
            return out

        def hssp(rows: Any, indices: Any, size: Any, ref: Any) -> Any:
            out = real_hssp(rows, indices, size, ref)
            self.hssp_calls.append({"rows": [[float(x) for x in row] for row in rows], "indices": [int(x) for x in indices],
                                    "size": int(size), "out": [int(x) for x in out]})
            return out

        def hv(*a: Any, **kw: Any) -> Any:
            out = real_hv(*a, **kw)
            self.hv_calls.append(float(out))
            return out

        def front(*a: Any, **kw: Any) -> Any:
            out = real_front(*a, **kw)
            self.front_calls.append([bool(x) for x in out])
            return out

        tpe._fast_non_domination_rank = rank
        tpe._solve_hssp = hssp
        tpe.compute_hypervolume = hv
        tpe._is_pareto_front = front
        self.studies: dict[tuple, Any] = {}

    def close(self) -> None:
        for k, v in self.saved.items():
            setattr(self.tpe, k, v)

    def study(self, dirs: list[str]) -> Any:
        key = tuple(dirs)
        if key not in self.studies:
            self.studies[key] = self.optuna.create_study(
                directions=["maximize" if d == "max" else "minimize" for d in dirs], storage=self.optuna.storages.InMemoryStorage())
        return self.studies[key]

    def frozen(self, t: dict[str, Any], id_shift: int = 0) -> Any:
        st = {0: self.TS.RUNNING, 1: self.TS.COMPLETE, 2: self.TS.PRUNED, 3: self.TS.FAIL, 4: self.TS.WAITING}[t["s"]]
        sa = {} if t["c"] is None else {"constraints": [dec(c) for c in t["c"]]}
        ft = self.create_trial(state=st, values=[dec(v) for v in t["v"]] if t["s"] == 1 else None, params={}, distributions={},
                               intermediate_values={s: dec(v) for s, v in t["iv"]}, system_attrs=sa)
        ft.number = t["n"]
        ft._trial_id = ((t["n"] + 1) * 7919 + id_shift * 31) % 10007  # not monotone in the number
        return ft

    def split(self, case: dict[str, Any], id_shift: int = 0) -> dict[str, Any]:
        study = self.study(case["dirs"])
        trials = [self.frozen(t, id_shift) for t in case["trials"]]
        self.rank_calls.clear()
        self.hssp_calls.clear()
        err = None
        below: list[int] = []
        above: list[int] = []
        with warnings.catch_warnings():
            warnings.simplefilter("ignore")
            try:
                b, a = self.tpe._split_trials(study, trials, case["nBelow"], case["ce"])
                below, above = [t.number for t in b], [t.number for t in a]
            except AssertionError:
                err = "assertFalse"
            except RuntimeError:
                err = "runtimeError"
        return {"below": below, "above": above, "err": err, "rank_calls": list(self.rank_calls), "hssp_calls": list(self.hssp_calls)}


# ------------------------------------------------------------------------------------------------
# generators
# ------------------------------------------------------------------------------------------------
CONS = [None, ["-1/1"], ["0/1"], ["1/2"], ["2/1", "-1/1"], ["nan"], ["inf"], ["nan", "1/2"], ["-1/1", "0/1"], ["1/2", "1/2"], []]


def gen_trials(r: random.Random, n: int, n_obj: int, malformed: bool, p_inf: float, multi_iv: bool) -> list[dict[str, Any]]:
    out = []
    lattice = r.choice([3, 3, 6])
    for i in range(n):
        x = r.random()
        s = (0 if x < 0.1 else 2 if x < 0.2 else 1) if n_obj > 1 else (0 if x < 0.15 else 2 if x < 0.4 else 1)
        if malformed and r.random() < 0.15:
            s = r.choice([3, 4])
        v = []
        if s == 1:
            v = [enc(r.choice([INF, -INF])) if r.random() < p_inf else enc(r.randint(-lattice, lattice) / 2.0) for _ in range(n_obj)]
        iv = []
        if s in (2, 0) and (n_obj == 1 or multi_iv) and r.random() < 0.75:
            for st in r.sample(range(0, 5), r.randint(1, 3)):
                y = r.random()
                iv.append([st, "nan" if y < 0.12 else enc(r.choice([INF, -INF])) if y < 0.2 else enc(r.randint(-4, 4) / 2.0)])
        c = r.choice(CONS) if r.random() < 0.7 else None
        if s == 0:
            c = None  # constraints of a RUNNING trial are not set yet
        out.append({"n": i, "s": s, "v": v, "iv": iv, "c": c})
    return out


def gen_case(r: random.Random, idx: int) -> dict[str, Any]:
    n_obj = r.choice([1, 1, 1, 2, 2, 3])
    n = r.choice([0, 1, 2, 3, 4, 5, 6, 8, 10, 12])
    malformed = r.random() < 0.05
    multi_iv = r.random() < 0.05
    trials = gen_trials(r, n, n_obj, malformed, r.choice([0.0, 0.0, 0.1]), multi_iv)
    if r.random() < 0.2:  # trial numbers with gaps (other trials of the study are FAIL / WAITING and were filtered out)
        base = 0
        for t in trials:
            base += r.randint(1, 3)
            t["n"] = base
    n_complete = sum(1 for t in trials if t["s"] == 1)
    n_below = r.randint(1, n_complete - 1) if (n_obj > 1 and n_complete > 2 and r.random() < 0.7) else r.randint(0, n + 2)
    return {"idx": idx, "dirs": [r.choice(["min", "max"]) for _ in range(n_obj)], "ce": r.random() < (0.5 if n_obj == 1 else 0.25),
            "nBelow": n_below, "trials": trials}


def mirror_case(case: dict[str, Any], mask: list[bool]) -> dict[str, Any]:
    m = dict(case)
    m["dirs"] = [("min" if d == "max" else "max") if f else d for d, f in zip(case["dirs"], mask)]
    single = len(case["dirs"]) == 1
    m["trials"] = [dict(t, v=[neg(v) if f else v for v, f in zip(t["v"], mask)],
                        iv=[[s, neg(v)] for s, v in t["iv"]] if (single and mask[0]) else t["iv"]) for t in case["trials"]]
    return m


def model_request(case: dict[str, Any], real: dict[str, Any]) -> dict[str, Any]:
    req = {"op": "split", "dirs": case["dirs"], "ce": case["ce"], "nBelow": case["nBelow"], "trials": case["trials"],
           "ranks": real["rank_calls"][0]["out"] if real["rank_calls"] else None,
           "hssp": real["hssp_calls"][0]["out"] if real["hssp_calls"] else None}
    return req


def compare(case: dict[str, Any], real: dict[str, Any], out: dict[str, Any]) -> list[str]:
    if "below" not in out:
        return ["driver: %s" % out]
    why = []
    if out["err"] != real["err"]:
        why.append("raises: model %s / code %s" % (out["err"], real["err"]))
    if real["err"] is None and out["err"] is None:
        if out["below"] != real["below"]:
            why.append("below: model %s / code %s" % (out["below"], real["below"]))
        if out["above"] != real["above"]:
            why.append("above: model %s / code %s" % (out["above"], real["above"]))
    if real["err"] is None or real["err"] == "runtimeError":
        mo = out["mo"]
        if (mo is not None) != bool(real["rank_calls"]):
            why.append("rank kernel: model %s / code called it %d time(s)" % ("calls it" if mo is not None else "does not call it", len(real["rank_calls"])))
        elif mo is not None:
            rc = real["rank_calls"][0]
            n_complete = sum(1 for c in out["classes"] if c == "complete")
            if len(real["rank_calls"]) != 1 or rc["n_rows"] != n_complete or rc["args"] != 0 or rc["kw"] != {"n_below": min(case["nBelow"], n_complete)}:
                why.append("rank kernel call: %s" % {k: rc[k] for k in ("n_rows", "args", "kw")})
            if (mo["call"] is not None) != bool(real["hssp_calls"]):
                why.append("hssp: model %s / code called it %d time(s)" % (mo["call"], len(real["hssp_calls"])))
            elif mo["call"] is not None:
                hc = real["hssp_calls"][0]
                if hc["indices"] != mo["call"]["indices"] or hc["size"] != mo["call"]["size"]:
                    why.append("hssp call: model (%s, %s) / code (%s, %s)" % (mo["call"]["indices"], mo["call"]["size"], hc["indices"], hc["size"]))
                if [[enc(x) for x in row] for row in hc["rows"]] != mo["call"]["rows"]:
                    why.append("hssp rows (the loss matrix): model %s / code %s" % (mo["call"]["rows"], hc["rows"]))
    return why


def oracles(R: Real, case: dict[str, Any], real: dict[str, Any], r: random.Random) -> list[tuple[str, str]]:
    """[(kind, message)] — model-free facts about the real `_split_trials`"""
    bad: list[tuple[str, str]] = []
    if real["err"] is not None:
        return bad
    nums = [t["n"] for t in case["trials"]]
    running = [t["n"] for t in case["trials"] if t["s"] == 0]
    b, a = real["below"], real["above"]
    if sorted(b + a) != sorted(nums) or len(set(b + a)) != len(b + a):
        bad.append(("partition", "below %s + above %s is not the input %s" % (b, a, nums)))
    if b != sorted(b) or a != sorted(a):
        bad.append(("sorted", "halves not sorted by number: %s %s" % (b, a)))
    if set(running) & set(b):
        bad.append(("running", "a RUNNING trial is in below: %s" % sorted(set(running) & set(b))))
    want = min(case["nBelow"], len(nums) - len(running))
    if len(b) != want:
        bad.append(("size", "|below| = %d, expected min(n_below, non-running) = %d" % (len(b), want)))
    # ids
    other = R.split(case, id_shift=1000 + r.randint(0, 50))
    if (other["below"], other["above"]) != (b, a):
        bad.append(("ids", "rewriting _trial_id changed the split: %s -> %s" % (b, other["below"])))
    # running trials do not influence below
    if running:
        c2 = dict(case, trials=[t for t in case["trials"] if t["s"] != 0])
        o2 = R.split(c2)
        if o2["err"] is None and o2["below"] != b:
            bad.append(("running-independent", "deleting the RUNNING trials changed below: %s -> %s" % (b, o2["below"])))
    return bad


def mirror_oracle(R: Real, case: dict[str, Any], real: dict[str, Any], r: random.Random) -> str | None:
    k = len(case["dirs"])
    mask = [True] if k == 1 else [r.random() < 0.5 for _ in range(k)]
    if not any(mask):
        mask[r.randrange(k)] = True
    m = R.split(mirror_case(case, mask))
    if (m["err"], m["below"], m["above"]) != (real["err"], real["below"], real["above"]):
        return "directions %s on v: below %s err %s; objectives %s flipped (values negated): below %s err %s" % (
            case["dirs"], real["below"], real["err"], [i for i, f in enumerate(mask) if f], m["below"], m["err"])
    return None


def nontrivial(out: dict[str, Any]) -> bool:
    cl = out.get("classes", [])
    return any(cl.count(c) >= 2 for c in ("complete", "pruned", "infeasible"))


def run_splits(chk: core.Check, R: Real, drv: core.Driver, r: random.Random, n_cases: int) -> None:
    seen: dict[str, int] = {}
    for c in core.corpus_cases("C13"):
        if isinstance(c, dict) and c.get("kind") == "tpesplit":
            n_cases += 0
            _one_split(chk, R, drv, r, c["case"], seen)
    for i in range(n_cases):
        _one_split(chk, R, drv, r, gen_case(r, i), seen)
    chk.extra["tpe_split_seen"] = seen
    for need in ("mo-hssp", "mo-rank-only", "tie-single", "err:assertFalse", "err:runtimeError", "infeasible-in-below", "pruned-in-below"):
        if seen.get(need, 0) == 0:
            chk.broke("correspondence", {"tpesplit": "generator degenerate: no case with " + need, "seen": seen})


def _one_split(chk: core.Check, R: Real, drv: core.Driver, r: random.Random, case: dict[str, Any], seen: dict[str, int]) -> None:
    real = R.split(case)
    out = drv.ask(model_request(case, real))
    why = compare(case, real, out)
    chk.count("tpesplit:objectives:%d" % len(case["dirs"]))
    if why:
        chk.broke("correspondence", {"site": "splitTrials", "tpesplit": "; ".join(why)[:900], "case": case})
    # the hypotheses `KernelsOk` of split_sizes_of_kernels / mo_select_ok, sampled on the real kernels
    for rc in real["rank_calls"]:
        rk = rc["out"]
        if len(rk) != rc["n_rows"] or sorted(set(rk)) != list(range(len(set(rk)))):
            chk.broke("correspondence", {"tpesplit": "kernel contract: ranks %s are not one per row / contiguous from 0" % rk, "case": case})
        chk.count("tpesplit:kernel-contract:rank")
    for hc in real["hssp_calls"]:
        if len(set(hc["out"])) != len(hc["out"]) or not set(hc["out"]) <= set(hc["indices"]) or len(hc["out"]) != hc["size"] \
                or hc["size"] > len(hc["indices"]):
            chk.broke("correspondence", {"tpesplit": "kernel contract: _solve_hssp(%s, %d) returned %s" % (hc["indices"], hc["size"], hc["out"]), "case": case})
        chk.count("tpesplit:kernel-contract:hssp")
    for kind, msg in oracles(R, case, real, r):
        # partition / sizes / ids / running are facts the Lean theorems state; on the real code they are C09-side
        # observations (ids) or internal invariants — reported as a broken tie, with the case
        chk.broke("correspondence", {"site": "splitTrials", "tpesplit-oracle": kind, "why": msg, "case": case})
    m = mirror_oracle(R, case, real, r)
    chk.count("mirror-site:splitTrials")
    if m:
        chk.violation({"site": "splitTrials", "level": "site", "attributed": True}, {"kind": "tpesplit", "case": case},
                      "_split_trials is not symmetric: " + m)
    # coverage book-keeping
    cl = out.get("classes", [])
    if real["hssp_calls"]:
        seen["mo-hssp"] = seen.get("mo-hssp", 0) + 1
    elif real["rank_calls"]:
        seen["mo-rank-only"] = seen.get("mo-rank-only", 0) + 1
    if real["err"]:
        seen["err:" + real["err"]] = seen.get("err:" + real["err"], 0) + 1
    by_n = {t["n"]: (t, c) for t, c in zip(case["trials"], cl)}
    if any(by_n[n][1] == "infeasible" for n in real["below"] if n in by_n):
        seen["infeasible-in-below"] = seen.get("infeasible-in-below", 0) + 1
    if any(by_n[n][1] == "pruned" for n in real["below"] if n in by_n):
        seen["pruned-in-below"] = seen.get("pruned-in-below", 0) + 1
    if len(case["dirs"]) == 1:
        vals = [t["v"][0] for t, c in zip(case["trials"], cl) if c == "complete"]
        nb = min(case["nBelow"], len(vals))
        if 0 < nb < len(vals):
            sv = sorted(dec(v) for v in vals)
            if case["dirs"][0] == "max":
                sv.reverse()
            if sv[nb - 1] == sv[nb]:
                seen["tie-single"] = seen.get("tie-single", 0) + 1  # the cut falls between two equal values
    chk.case({"tpesplit": case}, nontrivial=nontrivial(out))


# ------------------------------------------------------------------------------------------------
# TPESampler._sample: which trials, which n_below
# ------------------------------------------------------------------------------------------------
def run_samples(chk: core.Check, R: Real, drv: core.Driver, r: random.Random, n_cases: int) -> None:
    optuna = R.optuna
    from optuna.distributions import FloatDistribution

    real_split = R.tpe._split_trials
    for i in range(n_cases):
        n_obj = r.choice([1, 1, 2])
        dirs = [r.choice(["min", "max"]) for _ in range(n_obj)]
        cl = r.random() < 0.5
        gname = r.choice(["default", "hyperopt"])
        ce = r.random() < 0.4
        n = r.choice([0, 1, 3, 6, 11, 12, 17, 26, 40])
        trials = gen_trials(r, n, n_obj, True, 0.0, False)
        with warnings.catch_warnings():
            warnings.simplefilter("ignore")
            sampler = optuna.samplers.TPESampler(n_startup_trials=0, constant_liar=cl, seed=1,
                                                 gamma=R.tpe.default_gamma if gname == "default" else R.tpe.hyperopt_default_gamma,
                                                 constraints_func=(lambda t: [0.0]) if ce else None)
            study = optuna.create_study(directions=["maximize" if d == "max" else "minimize" for d in dirs], sampler=sampler,
                                        storage=optuna.storages.InMemoryStorage())
            for t in trials:
                study.add_trial(R.frozen(t))
            cur = study.ask()  # a RUNNING trial: the one being sampled for
        rec: dict[str, Any] = {}

        def spy(st: Any, ts: Any, n_below: Any, cons: Any) -> Any:
            rec.update({"numbers": [t.number for t in ts], "n_below": int(n_below), "ce": bool(cons)})
            rec["out"] = real_split(st, ts, n_below, cons)
            raise StopHere()

        R.tpe._split_trials = spy
        R.rank_calls.clear()
        R.hssp_calls.clear()
        err = None
        try:
            with warnings.catch_warnings():
                warnings.simplefilter("ignore")
                sampler._sample(study, study._storage.get_trial(cur._trial_id), {"x": FloatDistribution(0.0, 1.0)})
        except StopHere:
            pass
        except AssertionError:
            err = "assertFalse"
        except RuntimeError:
            err = "runtimeError"
        finally:
            R.tpe._split_trials = real_split
        # the study as it is now (`ask` turns a WAITING trial into the RUNNING one, otherwise it appends a new trial)
        code = {R.TS.RUNNING: 0, R.TS.COMPLETE: 1, R.TS.PRUNED: 2, R.TS.FAIL: 3, R.TS.WAITING: 4}
        all_trials = [{"n": t.number, "s": code[t.state], "v": [enc(v) for v in (t.values or [])],
                       "iv": [[a, enc(b)] for a, b in t.intermediate_values.items()],
                       "c": None if t.system_attrs.get("constraints") is None else [enc(c) for c in t.system_attrs["constraints"]]}
                      for t in study.get_trials(deepcopy=False)]
        out = drv.ask({"op": "sample", "dirs": dirs, "ce": ce, "cl": cl, "gamma": gname, "trials": all_trials,
                       "ranks": R.rank_calls[0]["out"] if R.rank_calls else None, "hssp": R.hssp_calls[0]["out"] if R.hssp_calls else None})
        why = []
        if "considered" not in out:
            why.append("driver: %s" % out)
        else:
            if out["considered"] != rec.get("numbers"):
                why.append("trials considered: model %s / code %s" % (out["considered"], rec.get("numbers")))
            if out["nBelow"] != rec.get("n_below"):
                why.append("n_below: model %s / code %s" % (out["nBelow"], rec.get("n_below")))
            if rec.get("ce") != ce:
                why.append("constraints_enabled passed as %s, constraints_func is %s" % (rec.get("ce"), "set" if ce else "None"))
            if out["err"] != err:
                why.append("raises: model %s / code %s" % (out["err"], err))
            if err is None and "out" in rec:
                b, a = rec["out"]
                if [t.number for t in b] != out["below"] or [t.number for t in a] != out["above"]:
                    why.append("split inside _sample: model %s | %s / code %s | %s" % (out["below"], out["above"], [t.number for t in b], [t.number for t in a]))
                if not cl and any(t["s"] == 0 for t in all_trials if t["n"] in out["below"] + out["above"]):
                    why.append("a RUNNING trial was considered with constant_liar off")
        chk.count("tpesample:constant_liar:%s" % cl)
        if why:
            chk.broke("correspondence", {"site": "splitTrials", "tpesample": "; ".join(why)[:900], "dirs": dirs, "cl": cl, "gamma": gname, "ce": ce, "trials": all_trials})
        chk.case({"tpesample": [dirs, cl, gname, ce, all_trials]}, nontrivial=n >= 3)


# ------------------------------------------------------------------------------------------------
# gamma / weights
# ------------------------------------------------------------------------------------------------
def run_functions(chk: core.Check, R: Real, r: random.Random, n_gamma: int, n_weights: int, n_mo: int) -> None:
    import numpy as np

    tpe = R.tpe
    outs = core.driver_batch("tpesplit", [{"op": "gamma", "x": x} for x in range(n_gamma)])
    bad = [(x, o, tpe.default_gamma(x), tpe.hyperopt_default_gamma(x)) for x, o in enumerate(outs)
           if o.get("default") != tpe.default_gamma(x) or o.get("hyperopt") != tpe.hyperopt_default_gamma(x)]
    chk.count("tpe:gamma-points", n_gamma)
    if bad:
        chk.broke("correspondence", {"tpe": "gamma: model / code differ", "first": [str(b) for b in bad[:3]], "count": len(bad)})
    for x in range(n_gamma):
        for g in (tpe.default_gamma(x), tpe.hyperopt_default_gamma(x)):
            if not (isinstance(g, int) and 0 <= g <= min(x, 25)):
                chk.broke("correspondence", {"tpe-oracle": "gamma bound", "x": x, "gamma": g})
    wouts = core.driver_batch("tpesplit", [{"op": "weights", "x": x} for x in range(n_weights)])
    worst = 0.0
    for x, o in enumerate(wouts):
        w = tpe.default_weights(x)
        if not isinstance(o, list) or len(o) != len(w):
            chk.broke("correspondence", {"tpe": "default_weights length", "x": x, "model": len(o) if isinstance(o, list) else o, "code": len(w)})
            continue
        for j, (m, c) in enumerate(zip(o, w)):
            e = abs(float(Fraction(m)) - float(c))
            worst = max(worst, e)
            if e > 1e-12:
                chk.broke("correspondence", {"tpe": "default_weights value", "x": x, "index": j, "model": m, "code": float(c)})
                break
        if len(w) != x or any(not (0.0 < float(v) <= 1.0) for v in w) or any(float(v) != 1.0 for v in w[max(0, x - 25):]) \
                or any(float(w[k]) > float(w[k + 1]) for k in range(len(w) - 1)):
            chk.broke("correspondence", {"tpe-oracle": "default_weights spec (length x, in (0,1], non-decreasing, last 25 are 1)", "x": x})
    chk.count("tpe:weights-points", n_weights)
    chk.extra["tpe_default_weights_max_abs_err"] = worst
    # multi-objective weights
    seen = {"inf": 0, "normal": 0, "few": 0}
    for i in range(n_mo):
        k = r.choice([2, 2, 3])
        n = r.randint(0, 8)
        dirs = [r.choice(["min", "max"]) for _ in range(k)]
        study = R.study(dirs)
        p_inf = r.choice([0.0, 0.0, 0.0, 0.15])
        trials = []
        for j in range(n):
            vs = [(r.choice([INF, -INF]) if r.random() < p_inf else r.randint(-3, 3) / 2.0) for _ in range(k)]
            ft = R.create_trial(state=R.TS.COMPLETE, values=vs, params={}, distributions={})
            ft.number = j
            trials.append(ft)
        mode = r.choice(["none", "some", "some", "all-bad"])
        feas = [True] * n if mode == "none" else [r.random() < (0.7 if mode == "some" else 0.0) for _ in range(n)]
        cons_of = {id(t): ([-1.0, 0.0] if f else [r.choice([0.5, 2.0]), -1.0]) for t, f in zip(trials, feas)}
        cfun = None if mode == "none" else (lambda t: cons_of[id(t)])
        R.hv_calls.clear()
        R.front_calls.clear()
        with warnings.catch_warnings():
            warnings.simplefilter("ignore")
            w = R.tpe._calculate_weights_below_for_multi_objective(study, trials, cfun)
        contribs: Any = None
        nf = sum(feas)
        if nf >= 2 and R.hv_calls:
            hv = R.hv_calls[0]
            if math.isinf(hv):
                contribs = None
                seen["inf"] += 1
            else:
                on_front = R.front_calls[0]
                loo = R.hv_calls[1:]
                cs = [0.0] * nf
                it = iter(loo)
                for q, f in enumerate(on_front):
                    if f:
                        cs[q] = hv - next(it)
                contribs = [enc(c) for c in cs]
                seen["normal"] += 1
        else:
            seen["few"] += 1
        out = core_ask_mo(feas, contribs)
        why = None
        if not isinstance(out, list) or len(out) != len(w):
            why = "length: model %s / code %d" % (out, len(w))
        else:
            for j, (m, c) in enumerate(zip(out, w)):
                mv = float(Fraction(m))
                if abs(mv - float(c)) > 1e-9 * max(1.0, abs(mv)):
                    why = "weight %d: model %s / code %r" % (j, m, float(c))
                    break
        if not all(1e-12 <= float(x) <= 1.0 for x in w):
            chk.broke("correspondence", {"tpe-oracle": "multi-objective weights outside [EPS, 1]", "weights": [float(x) for x in w]})
        # mirrored run (model-free): flipping objectives leaves the weights unchanged
        mask = [r.random() < 0.5 for _ in range(k)]
        study2 = R.study([("min" if d == "max" else "max") if f else d for d, f in zip(dirs, mask)])
        trials2 = []
        for t in trials:
            ft = R.create_trial(state=R.TS.COMPLETE, values=[-v if f else v for v, f in zip(t.values, mask)], params={}, distributions={})
            ft.number = t.number
            trials2.append(ft)
        cons2 = {id(t2): cons_of[id(t)] for t, t2 in zip(trials, trials2)}
        with warnings.catch_warnings():
            warnings.simplefilter("ignore")
            w2 = R.tpe._calculate_weights_below_for_multi_objective(study2, trials2, None if cfun is None else (lambda t: cons2[id(t)]))
        chk.count("mirror-site:moWeights")
        if len(w) != len(w2) or any(float(x) != float(y) for x, y in zip(w, w2)):
            chk.violation({"site": "moWeights", "level": "site", "attributed": True},
                          {"kind": "moWeights", "dirs": dirs, "mask": mask, "values": [[enc(v) for v in t.values] for t in trials], "feasible": feas},
                          "_calculate_weights_below_for_multi_objective is not symmetric: %s / %s" % ([float(x) for x in w], [float(x) for x in w2]))
        if why:
            chk.broke("correspondence", {"tpe": "multi-objective weights: " + why, "feasible": feas, "contribs": contribs,
                                         "values": [[enc(v) for v in t.values] for t in trials], "dirs": dirs})
        chk.case({"moWeights": [dirs, feas, [[enc(v) for v in t.values] for t in trials]]}, nontrivial=nf >= 2)
    chk.extra["tpe_mo_weights_seen"] = seen
    if n_mo >= 100 and (seen["inf"] == 0 or seen["normal"] == 0):
        chk.broke("correspondence", {"tpe": "generator degenerate (multi-objective weights)", "seen": seen})


_MO_DRV: list[Any] = []


def core_ask_mo(feas: list[bool], contribs: Any) -> Any:
    if not _MO_DRV:
        _MO_DRV.append(core.Driver("tpesplit"))
    return _MO_DRV[0].ask({"op": "moWeights", "feasible": feas, "contribs": contribs})


# ------------------------------------------------------------------------------------------------
# entry points
# ------------------------------------------------------------------------------------------------
def prepare(chk: core.Check) -> None:
    """regenerate Generated/TpeInt.lean from the source (call before chk.prove)"""
    from verif.translators import tpe_int

    tpe_int.regenerate(chk)


def id_independence(chk: core.Check, n: int) -> None:
    """C09: the real `_split_trials` is a function of the id-erased history — rewriting every `_trial_id` (offsets as other
    studies in the same storage cause them) changes neither half.  Model-free; a difference is a C09 violation."""
    r = random.Random(chk.rng.getrandbits(64))
    R = Real()
    try:
        for i in range(n):
            case = gen_case(r, i)
            a = R.split(case, id_shift=0)
            b = R.split(case, id_shift=r.choice([1, 17, 1000, 10 ** 6]))
            chk.count("tpe-split:id-independence")
            if (a["err"], a["below"], a["above"]) != (b["err"], b["below"], b["above"]):
                chk.violation({"site": "tpe_split_trial_id"}, {"kind": "tpesplit-ids", "case": case},
                              "_split_trials depends on _trial_id: below %s with one id assignment, %s with another" % (a["below"], b["below"]))
            chk.case({"tpesplit-ids": case}, nontrivial=len(case["trials"]) >= 2)
    finally:
        R.close()


def correspond(chk: core.Check, tier: str) -> None:
    quick = tier == "quick"
    r = random.Random(chk.rng.getrandbits(64))
    R = Real()
    drv = core.Driver("tpesplit")
    try:
        run_splits(chk, R, drv, r, 1200 if quick else 25000)
        run_samples(chk, R, drv, r, 60 if quick else 1000)
        run_functions(chk, R, r, 3000 if quick else 20000, 80 if quick else 400, 150 if quick else 3000)
    except core.DriverBroken as e:
        chk.broke("correspondence", {"driver": str(e)[:800]})
    except Exception as e:  # the real code crashed while being driven: a broken tie
        import traceback

        chk.broke("correspondence", {"tpesplit": "crash", "exc": type(e).__name__, "trace": traceback.format_exc()[-900:]})
    finally:
        drv.close()
        R.close()
        while _MO_DRV:
            _MO_DRV.pop().close()
    chk.assumptions += [
        "TPE split: `_fast_non_domination_rank` and `_solve_hssp` are inputs of the model (what the real functions returned inside the "
        "real call; they are modelled and proved in C15); gamma(n) >= 0",
        "TPE weights: default_weights compared with tolerance 1e-12 (np.linspace in float), multi-objective weights with 1e-9 relative "
        "(the hypervolumes are the recorded float values)",
    ]
    chk.trusted += ["Python's sorted / list.sort: stable, `reverse=True` keeps the order of equal keys (modelled as stable insertion sort; tied by the split correspondence on tied values)"]


def replay_case(chk: core.Check, w: dict[str, Any]) -> int:
    R = Real()
    try:
        if w.get("kind") == "tpesplit":
            r = random.Random(0)
            real = R.split(w["case"])
            for _ in range(8):
                m = mirror_oracle(R, w["case"], real, r)
                if m:
                    print("REPRODUCED: _split_trials is not symmetric: " + m)
                    return 1
        print("not reproduced")
        return 0
    finally:
        R.close()
