"""C14 — exhaustive samplers visit every point of a finite space exactly once, then stop.

prove:      Props/C14.lean  (bruteforce_exhaustive & friends for every program / RNG / outcome pattern / split;
            grid_exhaustive; counter-witnesses where the full-strength statement is false on today's code)
correspond: random define-by-run programs run with the REAL BruteForceSampler through Study.optimize (random
            splits, fail / prune / raise / KeyboardInterrupt patterns, stale RUNNING trials); the sampler's RNG is a
            recording stub; the compiled Lean model replays the recorded choices and must reproduce every trial,
            every candidate list and every weight vector handed to the RNG, the stop flag and the crash flag.
            Same for the GridSampler (grid ids, RNG calls, stop); any exception out of the sampler is an alarm.
observe:    independent oracle on the implementation: the program's leaves are enumerated in Python and compared
            with what optimize() evaluated (each exactly once, then it stops by itself; total trials = leaves).
translate:  verif/props/c14_gen.py + verif/translators/tbrute.py: every `_TreeNode` method, the three sampler methods of
            BruteForceSampler, `_enumerate_candidates` and five GridSampler methods are regenerated from the source as
            Lean data on every run; Props/C14Gen.lean proves the interpreter of the generated methods equal to the hand
            models for all inputs and restates the theorems for it.  The sub-drivers run that interpreter side by side
            with the hand model on every case ("gen" field); the generated `_get_unvisited_grid_ids`,
            `_grid_value_equal`, `_same_search_space` are also run on the REAL stored attributes / values and compared
            with the real methods.
"""
from __future__ import annotations

import copy
import decimal
import itertools
import json
import os
import random
import warnings
from fractions import Fraction
from typing import Any

from verif import core
from verif.props import c14_gen

RULE = (
    "bruteforce: seeded random program trees (depth<=4 quick / <=6 thorough, <=60 / <=150 leaves; int, stepped-float and "
    "categorical nodes, sub-programs shared between branches, the same name with different ranges in different "
    "branches, single-valued domains, branches of different depth, leaves complete/pruned/fail/raise) run through "
    "Study.optimize with a random split into n_trials budgets, KeyboardInterrupts, stale RUNNING trials and both "
    "avoid_premature_stop modes; a case = (program, mode, split, cuts, stale trials, RNG seed); non-trivial = the "
    "program has >=2 leaves and >=1 sampler call had >=2 positive weights; distinct by SHA-1 of the case. "
    "grid: seeded random grids (<=24 cells) with pre-existing non-grid trials, enqueued trials, stale RUNNING grid "
    "trials, random splits and outcomes; non-trivial = >=2 cells. enum: random distributions, real "
    "_enumerate_candidates/single() vs the Lean model vs an independent enumeration."
)

BIG = 100000  # an `optimize()` without budget


class HFail(Exception):
    """objective failure that optimize catches (catch=(HFail,))"""


class HRaise(Exception):
    """objective failure that optimize re-raises"""


class Runaway(Exception):
    """the run has used far more trials than the space has points: stop the experiment"""


# ---------------------------------------------------------------------------------------------
# specification side: candidates and leaves of a program, independent of optuna
# ---------------------------------------------------------------------------------------------

def spec_cands(d: dict[str, Any]) -> list[Fraction]:
    """All points of the domain in internal representation (ints, grid floats as exact decimals, indices)."""
    k = d["k"]
    if k == "int":
        n = (d["high"] - d["low"]) // d["step"] + 1
        return [Fraction(d["low"] + i * d["step"]) for i in range(n)]
    if k == "float":
        lo, hi, st = (Fraction(decimal.Decimal(d[x])) for x in ("low", "high", "step"))
        n = (hi - lo) // st + 1
        return [lo + i * st for i in range(int(n))]
    return [Fraction(i) for i in range(len(d["choices"]))]


def external(d: dict[str, Any], idx: int) -> Any:
    c = spec_cands(d)[idx]
    if d["k"] == "int":
        return int(c)
    if d["k"] == "float":
        return float(c)
    return real_choices(d)[idx]


def index_of(d: dict[str, Any], v: Any) -> int | None:
    cs = spec_cands(d)
    if d["k"] == "cat":
        for i, c in enumerate(real_choices(d)):
            if type(c) is type(v) and (c == v or (isinstance(c, float) and c != c and v != v)):
                return i
        return None
    for i, c in enumerate(cs):
        if (int(c) if d["k"] == "int" else float(c)) == v:
            return i
    return None


def leaves_of(p: dict[str, Any]) -> list[tuple]:
    if "leaf" in p:
        return [()]
    out = []
    for i, (_, kid) in enumerate(p["kids"]):
        out += [((p["name"], i),) + rest for rest in leaves_of(kid)]
    return out


def depth_of(p: dict[str, Any]) -> int:
    return 0 if "leaf" in p else 1 + max(depth_of(k) for _, k in p["kids"])


def frac_s(q: Fraction) -> str:
    return "%d/%d" % (q.numerator, q.denominator)


def dist_for_driver(d: dict[str, Any]) -> dict[str, Any]:
    if d["k"] == "int":
        return {"k": "int", "low": d["low"], "high": d["high"], "step": d["step"]}
    if d["k"] == "float":
        return {"k": "float", **{x: frac_s(Fraction(decimal.Decimal(d[x]))) for x in ("low", "high", "step")}}
    return {"k": "cat", "n": len(d["choices"])}


def prog_for_driver(p: dict[str, Any]) -> dict[str, Any]:
    if "leaf" in p:
        return {"leaf": p["leaf"]}
    return {"name": p["name"], "dist": dist_for_driver(p["dist"]),
            "kids": [[c, prog_for_driver(k)] for c, k in p["kids"]]}


# ---------------------------------------------------------------------------------------------
# generators
# ---------------------------------------------------------------------------------------------

NAN_TOKEN = "__nan__"   # stands for float("nan") in cases (cases must stay strict JSON); a legal categorical choice
NAN = float("nan")
CAT_POOL = ["a", "b", "cc", "relu", 2, 3, 7, 0.5, 1.5, None, "x y", "", NAN_TOKEN, NAN_TOKEN]


def sample_choices(r: random.Random, n: int) -> list[Any]:
    out: list[Any] = []
    for c in r.sample(CAT_POOL, min(n + 1, len(CAT_POOL))):
        if not any(type(c) is type(o) and c == o for o in out) and len(out) < n:
            out.append(c)
    return out


def real_choices(d: dict[str, Any]) -> list[Any]:
    return [NAN if c == NAN_TOKEN else c for c in d["choices"]]
STEPS = ["0.1", "0.25", "0.3", "0.5", "1.0", "2.5", "0.05", "0.7", "1.5"]


def gen_dist(r: random.Random, kind: str, cat_choices: list[Any], single_p: float) -> dict[str, Any]:
    single = r.random() < single_p
    if kind == "int":
        low = r.randint(-4, 6)
        step = r.choice([1, 1, 1, 2, 3])
        n = 1 if single else r.choice([2, 2, 3, 3, 4, 5])
        high = low + (n - 1) * step
        if single and r.random() < 0.4 and step > 1:
            # single via (high - low) < step is not constructible (high is adjusted down to low); keep low == high
            pass
        return {"k": "int", "low": low, "high": high, "step": step}
    if kind == "float":
        low = decimal.Decimal(r.randint(-40, 60)) / decimal.Decimal(r.choice([1, 10, 10, 20]))
        step = decimal.Decimal(r.choice(STEPS))
        n = 1 if single else r.choice([2, 2, 3, 3, 4, 5])
        high = low + (n - 1) * step
        # the strings are what str(float(.)) prints, so that Decimal(str(dist.low)) is exactly this decimal
        return {"k": "float", "low": repr(float(low)), "high": repr(float(high)), "step": repr(float(step))}
    return {"k": "cat", "choices": cat_choices}


class ProgGen:
    def __init__(self, r: random.Random, max_depth: int) -> None:
        self.r = r
        self.max_depth = max_depth
        self.kinds: dict[str, str] = {}
        self.cats: dict[str, list[Any]] = {}
        for i in range(4):
            self.kinds["i%d" % i] = "int"
        for i in range(3):
            self.kinds["f%d" % i] = "float"
        for i in range(3):
            nm = "c%d" % i
            self.kinds[nm] = "cat"
            n = r.choice([1, 2, 2, 3, 3, 4])
            self.cats[nm] = sample_choices(r, n)

    def leaf(self) -> dict[str, Any]:
        return {"leaf": self.r.choices(["complete", "pruned", "fail", "raise"], [60, 15, 15, 10])[0]}

    def gen(self, depth: int, used: frozenset, quota: int) -> dict[str, Any]:
        """a sub-program with at most `quota` (>= 1) leaves"""
        r = self.r
        free = [n for n in self.kinds if n not in used]
        if depth >= self.max_depth or not free or quota <= 1 or (depth > 0 and r.random() < 0.1):
            return self.leaf()
        name = r.choice(free)
        d = gen_dist(r, self.kinds[name], self.cats.get(name, []), 0.18)
        cs = spec_cands(d)
        if len(cs) > quota:
            return self.leaf()
        # split the quota among the candidates (each at least 1)
        extra = quota - len(cs)
        shares = [1] * len(cs)
        for _ in range(min(extra, 40)):
            shares[r.randrange(len(cs))] += max(1, extra // 40)
        kids: list[Any] = []
        shared = None
        for c, q in zip(cs, shares):
            if shared is not None and r.random() < 0.45 and len(leaves_of(shared)) <= q:
                sub = copy.deepcopy(shared)  # the same sub-space under another branch
            else:
                sub = self.gen(depth + 1, used | {name}, q)
                if "leaf" not in sub and shared is None:
                    shared = sub
            kids.append([frac_s(c), sub])
        return {"name": name, "dist": d, "kids": kids}


def gen_prog(r: random.Random, max_depth: int, max_leaves: int) -> dict[str, Any]:
    for _ in range(50):
        g = ProgGen(r, max_depth)
        p = g.gen(0, frozenset(), r.choice([max_leaves, max_leaves, max_leaves // 2, max_leaves // 4, 6]))
        if "leaf" not in p or r.random() < 0.03:
            return p
    return {"leaf": "complete"}


def gen_walk(r: random.Random, p: dict[str, Any], full: bool) -> list[list[Any]]:
    """a path from the root to some node (to a leaf when `full`): [[name, dist, cand index], ...]"""
    out = []
    node = p
    while "leaf" not in node:
        if not full and out and r.random() < 0.35:
            break
        i = r.randrange(len(node["kids"]))
        out.append([node["name"], node["dist"], i])
        node = node["kids"][i][1]
    return out


def gen_ks(r: random.Random, n_leaves: int, finish: bool) -> list[int]:
    ks = []
    for _ in range(r.choice([0, 0, 1, 2, 3, 5])):
        ks.append(r.choice([1, 1, 2, 3, r.randint(1, max(1, n_leaves))]))
    if finish:
        # enough resumptions for every raising leaf / interrupt, then an optimize() without budget
        ks += [BIG] * (n_leaves + 3)
    return ks


def gen_bf_case(r: random.Random, tier: str, flavour: str) -> dict[str, Any]:
    deep = tier != "quick"
    p = gen_prog(r, r.choice([2, 3, 4, 4] if not deep else [3, 4, 5, 6]), 60 if not deep else 150)
    leaves = leaves_of(p)
    n = len(leaves)
    case: dict[str, Any] = {"kind": "bruteforce", "flavour": flavour, "prog": p, "avoid": r.random() < 0.5,
                            "cuts": [], "stale": [], "rng_seed": r.randrange(1 << 30)}
    finish = r.random() < 0.85
    if flavour == "stale-strict":
        case["avoid"] = True
        case["stale"] = [gen_walk(r, p, r.random() < 0.4) for _ in range(r.choice([1, 1, 2, 3]))]
    elif flavour == "stale-default":
        case["avoid"] = False
        case["stale"] = [gen_walk(r, p, r.random() < 0.4) for _ in range(r.choice([1, 1, 2]))]
    ns = len(case["stale"])
    if flavour == "midcut":
        d = depth_of(p)
        for _ in range(r.choice([1, 1, 2])):
            t = ns + r.randrange(max(1, n))
            if all(c[0] != t for c in case["cuts"]):
                case["cuts"].append([t, "mid", r.randrange(max(1, d))])
    if r.random() < 0.35:
        for _ in range(r.choice([1, 1, 2, 3])):
            t = ns + r.randrange(max(1, n))
            if all(c[0] != t for c in case["cuts"]):
                case["cuts"].append([t, "end"])
    case["ks"] = gen_ks(r, n + len(case["cuts"]), finish)
    case["finish"] = finish
    return case


# ---------------------------------------------------------------------------------------------
# the real samplers, instrumented from outside
# ---------------------------------------------------------------------------------------------

class RecRng:
    """stands in for numpy's RandomState: records every `choice` call and answers from a seeded RNG"""

    def __init__(self, seed: int) -> None:
        self.r = random.Random(seed)
        self.calls: list[dict[str, Any]] = []

    def choice(self, a: Any, size: Any = None, replace: bool = True, p: Any = None) -> Any:
        a = list(a)
        if p is None:
            i = self.r.randrange(len(a))
            self.calls.append({"a": a, "p": None, "i": i})
            return a[i]
        p = [float(x) for x in p]
        pos = [i for i, x in enumerate(p) if x > 0]
        if not pos or any(x != x for x in p):
            self.calls.append({"a": a, "p": p, "i": None})
            raise ValueError("probabilities contain NaN")
        i = self.r.choice(pos)
        self.calls.append({"a": a, "p": p, "i": i})
        return a[i]

    def seed(self, *a: Any, **k: Any) -> None:
        pass

    def shuffle(self, x: Any) -> None:
        self.r.shuffle(x)


class LazyStub:
    def __init__(self, rng: RecRng) -> None:
        self.rng = rng


def _quiet() -> None:
    import optuna

    optuna.logging.set_verbosity(optuna.logging.CRITICAL)
    warnings.simplefilter("ignore")


def make_objective(p: dict[str, Any], cuts: dict[int, tuple], anomalies: list[Any], limit: int):
    import optuna

    def objective(trial: Any) -> float:
        if trial.number >= limit:
            anomalies.append("runaway")
            raise Runaway()
        cut = cuts.get(trial.number)
        node = p
        nsug = 0
        while "leaf" not in node:
            if cut == ("mid", nsug):
                raise KeyboardInterrupt()
            d = node["dist"]
            if d["k"] == "int":
                v = trial.suggest_int(node["name"], d["low"], d["high"], step=d["step"])
            elif d["k"] == "float":
                v = trial.suggest_float(node["name"], float(d["low"]), float(d["high"]), step=float(d["step"]))
            else:
                v = trial.suggest_categorical(node["name"], real_choices(d))
            nsug += 1
            i = index_of(d, v)
            if i is None:
                anomalies.append({"trial": trial.number, "name": node["name"], "value": repr(v)})
                raise HRaise("value off the grid")
            node = node["kids"][i][1]
        if cut == ("end",):
            raise KeyboardInterrupt()
        o = node["leaf"]
        if o == "pruned":
            raise optuna.TrialPruned()
        if o == "fail":
            raise HFail()
        if o == "raise":
            raise HRaise()
        return float(trial.number % 7)

    return objective


def run_bf_real(case: dict[str, Any]) -> dict[str, Any]:
    import optuna
    from optuna.samplers import BruteForceSampler

    _quiet()
    p = case["prog"]
    sampler = BruteForceSampler(avoid_premature_stop=case["avoid"])
    rec = RecRng(case["rng_seed"])
    sampler._rng = LazyStub(rec)  # type: ignore[assignment]
    study = optuna.create_study(sampler=sampler)
    for walk in case["stale"]:
        study.enqueue_trial({name: external(d, i) for name, d, i in walk})
        t = study.ask()
        for name, d, i in walk:
            if d["k"] == "int":
                t.suggest_int(name, d["low"], d["high"], step=d["step"])
            elif d["k"] == "float":
                t.suggest_float(name, float(d["low"]), float(d["high"]), step=float(d["step"]))
            else:
                t.suggest_categorical(name, real_choices(d))
    pre_calls = len(rec.calls)
    cuts = {c[0]: tuple(c[1:]) for c in case["cuts"]}
    anomalies: list[Any] = []
    limit = len(case["stale"]) + len(leaves_of(p)) + len(case["cuts"]) + 6 + len(case["ks"])
    obj = make_objective(p, cuts, anomalies, limit)
    crashed = None
    calls_made = 0
    runaway = False
    for k in case["ks"]:
        if study._stop_flag:
            break
        calls_made += 1
        try:
            study.optimize(obj, n_trials=k, catch=(HFail,))
        except (HRaise, KeyboardInterrupt):
            pass
        except Runaway:
            pass
        except Exception as e:  # the sampler raised (ValueError ...)
            crashed = repr(e)[:200]
        if "runaway" in anomalies:
            anomalies.remove("runaway")
            runaway = True
            break
    trials = []
    for t in study.get_trials(deepcopy=False):
        steps = []
        node = p
        ok = True
        for name in t.params:
            if "leaf" in node or node["name"] != name:
                ok = False
                break
            i = index_of(node["dist"], t.params[name])
            if i is None:
                ok = False
                break
            steps.append([name, i])
            node = node["kids"][i][1]
        trials.append({"steps": steps, "finished": t.state.is_finished(), "state": t.state.name, "on_tree": ok,
                       "at_leaf": ok and "leaf" in node})
    return {"trials": trials, "stop": bool(study._stop_flag), "crashed": crashed, "calls": rec.calls[pre_calls:],
            "pre_calls": pre_calls, "anomalies": anomalies, "optimize_calls": calls_made, "runaway": runaway}


def choice_frac(v: Any) -> str:
    if isinstance(v, bool):
        return "0/1"
    if isinstance(v, int):
        return "%d/1" % v
    return frac_s(Fraction(decimal.Decimal(repr(float(v)))))


def bf_request(case: dict[str, Any], real: dict[str, Any]) -> dict[str, Any]:
    return {"op": "run", "prog": prog_for_driver(case["prog"]), "avoid": case["avoid"], "ks": case["ks"],
            "cuts": case["cuts"],
            "choices": [choice_frac(c["a"][c["i"]]) if c["i"] is not None else "0/1" for c in real["calls"]],
            "stale": [[[name, dist_for_driver(d), frac_s(spec_cands(d)[i])] for name, d, i in walk]
                      for walk in case["stale"]]}


def compare_bf(case: dict[str, Any], real: dict[str, Any], model: dict[str, Any]) -> str | None:
    """first difference between the implementation and the Lean model, or None"""
    if "trials" not in model:
        return "driver: %s" % json.dumps(model)[:300]
    if c14_gen.gen_disagreement(model) is not None:
        return "interpreter of the methods generated from _brute_force.py differs from the hand model (Model/BruteForce.lean): %s" % (
            json.dumps(model["gen"])[:300])
    if real.get("runaway"):
        return "the implementation ran %d trials on a program with %d leaves and was stopped by the harness" % (
            len(real["trials"]), len(leaves_of(case["prog"])))
    if bool(real["crashed"]) != bool(model["crashed"]):
        return "sampler error: implementation %r / model %r" % (real["crashed"], model["crashed"])
    if len(real["trials"]) != len(model["trials"]):
        return "number of trials: implementation %d / model %d" % (len(real["trials"]), len(model["trials"]))
    p = case["prog"]
    for n, (rt, mt) in enumerate(zip(real["trials"], model["trials"])):
        # model steps -> candidate indices
        msteps = []
        node = p
        for name, v in mt["steps"]:
            q = Fraction(v)
            i = None
            if "leaf" not in node:
                for j, (c, _) in enumerate(node["kids"]):
                    if Fraction(c) == q:
                        i = j
            msteps.append([name, i])
            if i is not None:
                node = node["kids"][i][1]
        if not rt["on_tree"]:
            return "trial %d of the implementation is not a path of the program: %s" % (n, rt)
        if rt["steps"] != msteps:
            return "trial %d: implementation path %s / model path %s" % (n, rt["steps"], msteps)
        if rt["finished"] != mt["finished"]:
            return "trial %d: finished %s / %s" % (n, rt["finished"], mt["finished"])
    if real["stop"] != model["stop"]:
        return "stop flag: implementation %s / model %s" % (real["stop"], model["stop"])
    rc, mc = real["calls"], model["calls"]
    if len(rc) != len(mc):
        return "number of RNG calls: implementation %d / model %d" % (len(rc), len(mc))
    for n, (a, b) in enumerate(zip(rc, mc)):
        if b.get("error"):
            return "RNG call %d: model raised" % n
        mcands = [Fraction(c) for c in b["cands"]]
        if len(mcands) != len(a["a"]) or any(float(x) != float(y) for x, y in zip(mcands, a["a"])):
            return "RNG call %d (%s, trial %s): candidates %s / model %s" % (n, b["name"], b["trial"], a["a"], b["cands"])
        if (a["p"] is None) != (b["weights"] is None):
            return "RNG call %d (%s): exhausted-branch %s / model %s" % (n, b["name"], a["p"] is None, b["weights"] is None)
        if a["p"] is not None:
            tot = sum(b["weights"])
            exp = [w / tot for w in b["weights"]]
            if len(exp) != len(a["p"]) or any(abs(x - y) > 1e-12 for x, y in zip(exp, a["p"])):
                return "RNG call %d (%s, trial %s): weights %s / model %s (of %d)" % (
                    n, b["name"], b["trial"], a["p"], b["weights"], tot)
    return None


def bf_in_scope(case: dict[str, Any]) -> bool:
    """the hypotheses of bruteforce_exhaustive"""
    if any(c[1] == "mid" for c in case["cuts"]):
        return False
    return case["avoid"] or not case["stale"]


def oracle_bf(case: dict[str, Any], real: dict[str, Any]) -> tuple[str, str] | None:
    """the property itself, checked on what the implementation did (no model involved).
    Returns (kind, message) of the first failure."""
    leaves = leaves_of(case["prog"])
    leafset = set(leaves)
    if real.get("runaway"):
        fin = [t for t in real["trials"] if t["finished"]]
        paths = [tuple(map(tuple, t["steps"])) for t in fin]
        dup = [x for x in set(paths) if paths.count(x) > 1]
        return ("no-stop", "%d trials on a program with %d leaves and still running (stopped by the harness); "
                "combinations evaluated more than once: %s" % (len(real["trials"]), len(leaves), dup[:2]))
    if real["anomalies"]:
        return ("off-grid-value", "the sampler returned a value outside the domain: %s" % real["anomalies"][:2])
    if real["crashed"]:
        return ("sampler-raised", "optimize died with %s" % real["crashed"])
    fin = [t for t in real["trials"] if t["finished"]]
    paths = []
    for n, t in enumerate(fin):
        if not t["on_tree"] or not t["at_leaf"]:
            return ("not-a-leaf", "a finished trial does not end at a leaf of the program: %s" % t)
        paths.append(tuple((a, b) for a, b in t["steps"]))
    seen = set()
    for pth in paths:
        if pth in seen:
            return ("duplicate", "combination evaluated twice: %s" % (pth,))
        if pth not in leafset:
            return ("not-a-leaf", "evaluated combination is not a leaf: %s" % (pth,))
        seen.add(pth)
    allc = len(seen) == len(leafset)
    if real["stop"] and not allc:
        return ("stopped-early", "stopped by itself after %d of %d combinations; missing e.g. %s" % (
            len(seen), len(leafset), sorted(leafset - seen, key=repr)[:2]))
    if allc and not real["stop"]:
        return ("no-stop", "all %d combinations evaluated but the stop flag is not set" % len(leafset))
    if case.get("finish") and not real["stop"]:
        return ("no-stop", "run with unlimited budget ended without the stop flag (%d of %d)" % (len(seen), len(leafset)))
    if case.get("finish") and len(fin) != len(leaves):
        return ("count", "%d finished trials for %d leaves" % (len(fin), len(leaves)))
    return None


# ---------------------------------------------------------------------------------------------
# grid
# ---------------------------------------------------------------------------------------------

GRID_VALUES = [0, 1, 2, 5, -3, 0.5, 1.25, "a", "b", "zz", None, True]


def gen_grid_case(r: random.Random, tier: str, flavour: str) -> dict[str, Any]:
    npar = r.choice([1, 1, 2, 2, 3])
    space = {}
    cells = 1
    for i in range(npar):
        k = r.choice([1, 2, 2, 3, 4])
        if cells * k > (24 if tier == "quick" else 60):
            k = 1
        pool = r.random()
        if pool < 0.4:
            vals = r.sample([0, 1, 2, 5, -3], min(k, 5))
        elif pool < 0.75:
            vals = r.sample(["a", "b", "zz", "q", None], k)
        else:
            # float grid values incl. NaN / inf (legal for a categorical parameter): a NaN read back from a storage that
            # serialises attributes is a DIFFERENT object, and NaN != NaN
            vals = r.sample([0.0, float("nan"), 1.5, float("inf"), -2.25], k)
        space["p%d" % i] = vals
        cells *= k
    case: dict[str, Any] = {"kind": "grid", "flavour": flavour, "space": space, "pre": [], "rng_seed": r.randrange(1 << 30),
                            "seed": r.choice([None, 0, 1, 7]), "storage": r.choice(["mem", "mem", "sqlite", "journal"])}
    n = cells
    if flavour == "pre":
        for _ in range(r.choice([1, 1, 2, 3])):
            case["pre"].append(r.choice(["finished", "finished", "failed", "stale-grid", "killed-1", "killed-2", "killed-2"]))
    elif flavour == "queue":
        # enqueued trials waiting when the run starts (also on a one-cell grid, where after_trial sees
        # "exactly one free cell" while a trial without grid id finishes)
        for _ in range(r.choice([1, 1, 2])):
            case["pre"].append("waiting")
    elif flavour == "queue-mid":
        # some cells already evaluated by an earlier call, then trials are enqueued, then the run resumes
        for _ in range(r.randint(1, n - 1) if n >= 2 else 0):
            case["pre"].append("grid-done")
        for _ in range(r.choice([1, 1, 2])):
            case["pre"].append("waiting")
    total = n + len(case["pre"]) + 2
    outcomes = {}
    for t in range(len(case["pre"]), total + 3):
        x = r.random()
        if x < 0.12:
            outcomes[str(t)] = "pruned"
        elif x < 0.24:
            outcomes[str(t)] = "fail"
        elif x < 0.32:
            outcomes[str(t)] = "raise"
        elif x < 0.38:
            outcomes[str(t)] = "interrupt"
    case["outcomes"] = outcomes
    finish = r.random() < 0.85
    case["finish"] = finish
    case["ks"] = gen_ks(r, total, finish)
    return case


def run_grid_real(case: dict[str, Any]) -> dict[str, Any]:
    import optuna
    from optuna.samplers import GridSampler
    from optuna.trial import TrialState, create_trial

    _quiet()
    space = case["space"]
    sampler = GridSampler(space, seed=case["seed"])
    rec = RecRng(case["rng_seed"])
    sampler._rng = LazyStub(rec)  # type: ignore[assignment]
    import shutil
    import tempfile

    tmpd = tempfile.mkdtemp(prefix="c14grid_")
    try:
        return _run_grid_real_on(case, sampler, rec, tmpd)
    finally:
        shutil.rmtree(tmpd, ignore_errors=True)


class _Killed(BaseException):
    """stands for SIGKILL of the worker: no `except Exception` / `except KeyboardInterrupt` handler sees it"""


def _same(a: Any, b: Any) -> bool:
    return a == b or (isinstance(a, float) and isinstance(b, float) and a != a and b != b)


def _run_grid_real_on(case: dict[str, Any], sampler: Any, rec: Any, tmpd: str) -> dict[str, Any]:
    import optuna
    from optuna.samplers import GridSampler
    from optuna.trial import TrialState, create_trial

    space = case["space"]
    kind_st = case.get("storage", "mem")
    if kind_st == "sqlite":
        storage: Any = optuna.storages.RDBStorage("sqlite:///" + os.path.join(tmpd, "g.db"))
        # an unrelated study first: trial ids of the grid study differ from its trial numbers
        optuna.create_study(storage=storage, study_name="other").optimize(lambda t: 0.0, n_trials=2)
    elif kind_st == "journal":
        from optuna.storages.journal import JournalFileBackend

        storage = optuna.storages.JournalStorage(JournalFileBackend(os.path.join(tmpd, "g.log")))
    else:
        storage = None
    study = optuna.create_study(sampler=sampler, storage=storage, study_name="grid")
    all_grids = [list(g) for g in sampler._all_grids]
    names = list(sampler._param_names)
    n = len(all_grids)
    dists = {nm: optuna.distributions.CategoricalDistribution(space[nm]) for nm in space}
    some = {nm: space[nm][0] for nm in space}
    pre_crash: "str | None" = None
    for kind in case["pre"]:
        if kind == "finished":
            study.add_trial(create_trial(state=TrialState.COMPLETE, value=1.0, params=dict(some), distributions=dict(dists)))
        elif kind == "failed":
            study.add_trial(create_trial(state=TrialState.FAIL, params=dict(some), distributions=dict(dists)))
        elif kind == "waiting":
            study.enqueue_trial(dict(some))
        elif kind == "stale-grid":
            try:
                study.ask()  # before_trial assigns a grid id; the worker dies before it tells
            except Exception as e:  # noqa: BLE001 - the sampler raised while the pre-history was built (e.g. KeyError('search_space'))
                pre_crash = pre_crash or repr(e)[:200]
        elif kind.startswith("killed-"):
            # the worker process is killed INSIDE study.ask(): before the k-th attribute write of the sampler's
            # before_trial (kill -9: not an Exception, nothing cleans up; the trial stays RUNNING with part of its attrs)
            k_die = int(kind.split("-")[1])
            st_obj = study._storage
            orig = st_obj.set_trial_system_attr
            seen = [0]

            def dying(trial_id: int, key: str, value: Any, _orig: Any = orig, _seen: list[int] = seen, _k: int = k_die) -> None:
                _seen[0] += 1
                if _seen[0] == _k:
                    raise _Killed()
                _orig(trial_id, key, value)

            st_obj.set_trial_system_attr = dying  # type: ignore[method-assign]
            try:
                study.ask()
            except _Killed:
                pass
            except Exception as e:  # noqa: BLE001
                pre_crash = pre_crash or repr(e)[:200]
            finally:
                del st_obj.set_trial_system_attr
        elif kind == "grid-done":
            def plain(trial: Any) -> float:
                for nm in names:
                    trial.suggest_categorical(nm, space[nm])
                return 0.0
            try:
                study.optimize(plain, n_trials=1)
            except Exception as e:  # noqa: BLE001
                pre_crash = pre_crash or repr(e)[:200]
    pre_calls = len(rec.calls)
    outcomes = case["outcomes"]

    limit = len(case["pre"]) + n + 8 + len(case["ks"])
    flags: list[str] = []

    def objective(trial: Any) -> float:
        if trial.number >= limit:
            flags.append("runaway")
            raise Runaway()
        for nm in names:
            trial.suggest_categorical(nm, space[nm])
        o = outcomes.get(str(trial.number), "complete")
        if o == "pruned":
            raise optuna.TrialPruned()
        if o == "fail":
            raise HFail()
        if o == "raise":
            raise HRaise()
        if o == "interrupt":
            raise KeyboardInterrupt()
        return 0.0

    crashed = pre_crash
    for ki, k in enumerate(case["ks"]):
        if study._stop_flag or pre_crash:
            break
        if ki > 0 and case["rng_seed"] % 2 == 0:
            # resumed by a *new* sampler object built the same way (a restarted process / load_study):
            # the grid ids stored in the trials must mean the same cells to it
            sampler2 = GridSampler(space, seed=case["seed"])
            sampler2._rng = LazyStub(rec)  # type: ignore[assignment]
            study.sampler = sampler2
        try:
            study.optimize(objective, n_trials=k, catch=(HFail,))
        except (HRaise, KeyboardInterrupt):
            pass
        except Runaway:
            pass
        except Exception as e:
            crashed = repr(e)[:200]
        if flags:
            break
    runaway = bool(flags)
    trials = []
    for t in study.get_trials(deepcopy=False):
        gid = t.system_attrs.get("grid_id")
        st = "finished" if t.state.is_finished() else ("running" if t.state == TrialState.RUNNING else "waiting")
        cell_ok = None
        if gid is not None and t.state.is_finished() and set(t.params) == set(names):
            cell_ok = isinstance(gid, int) and 0 <= gid < n and all(_same(t.params[nm], g) for nm, g in zip(names, all_grids[gid]))
        trials.append({"gid": gid, "state": st, "params": {k: t.params[k] for k in t.params}, "cell_ok": cell_ok,
                       "tstate": t.state.name, "has_space": "search_space" in t.system_attrs})
    try:
        attrs: Any = real_attrs(study, study.sampler)
    except Exception as e:  # noqa: BLE001 - recorded; the comparison is skipped
        attrs = {"skip": repr(e)[:200]}
    return {"n": n, "trials": trials, "stop": bool(study._stop_flag), "crashed": crashed,
            "calls": [{"a": sorted(c["a"]), "i": c["i"], "v": c["a"][c["i"]]} for c in rec.calls[pre_calls:]],
            "grids": all_grids, "names": names, "runaway": runaway, "attrs": attrs}


def gval(v: Any, nan_ids: dict[int, int]) -> Any:
    """a grid value for the driver; a NaN carries the identity of its Python object (`nan_ids`: id(obj) -> small number;
    the caller keeps the objects alive)"""
    if v is None or isinstance(v, (bool, str)):
        return v
    if isinstance(v, int):
        return v
    if isinstance(v, float):
        if v != v:
            return {"nan": nan_ids.setdefault(id(v), len(nan_ids))}
        if v in (float("inf"), float("-inf")):
            return {"inf": v < 0}
        return {"f": frac_s(Fraction(v))}
    return {"nan": 10 ** 6}  # not a GridValueType: never equal to anything (not generated here)


def gspace(space: Any, nan_ids: dict[int, int]) -> list[Any]:
    return [[k, [gval(x, nan_ids) for x in vs]] for k, vs in space.items()]


def real_attrs(study: Any, sampler: Any) -> dict[str, Any]:
    """what the generated `_get_unvisited_grid_ids` is run on: the sampler's search space and every stored trial's
    grid_id / search_space / fixed_params attributes and state, exactly as read back from the storage, and the answer of
    the real method on them (a set, or the exception)"""
    from optuna.trial import TrialState

    nan_ids: dict[int, int] = {}
    keep = [sampler._search_space]
    trials = []
    for t in study._storage.get_all_trials(study._study_id, deepcopy=False):
        sa = t.system_attrs
        keep.append(sa)
        sp = sa.get("search_space")
        gid = sa.get("grid_id")
        ok = (gid is None or (isinstance(gid, int) and gid >= 0)) and (sp is None or (isinstance(sp, dict) and all(isinstance(v, (list, tuple)) for v in sp.values())))
        if not ok:
            return {"skip": "attributes outside the model: %r / %r" % (gid, sp)}
        st = "finished" if t.state.is_finished() else ("running" if t.state == TrialState.RUNNING else "waiting")
        trials.append({"gid": gid, "space": None if sp is None else gspace(sp, nan_ids), "fixed": "fixed_params" in sa, "state": st})
    mine = gspace(sampler._search_space, nan_ids)
    try:
        ans: Any = sorted(int(g) for g in sampler._get_unvisited_grid_ids(study))
    except KeyError as e:
        ans = "keyError:%s" % (e.args[0] if e.args else "")
    return {"space": mine, "n": sampler._n_min_trials, "trials": trials, "real": ans}


def gen_unvisited_diff(drv: Any, ra: dict[str, Any]) -> "str | None":
    """the generated `_get_unvisited_grid_ids` on the real attributes vs the real method"""
    if "skip" in ra:
        return None
    m = drv.ask({"op": "gen_unvisited", "space": ra["space"], "n": ra["n"], "trials": ra["trials"]})
    got: Any = sorted(m["ids"]) if "ids" in m else (m.get("error") or json.dumps(m)[:200])
    want = ra["real"] if isinstance(ra["real"], list) else ra["real"].split(":")[0]
    if got != want:
        return "_get_unvisited_grid_ids on the stored attributes: implementation %s / generated interpreter %s (hand model %s)" % (
            ra["real"], got, m.get("hand"))
    return None


def grid_request(case: dict[str, Any], real: dict[str, Any]) -> dict[str, Any]:
    pre = []
    for j, kind in enumerate(case["pre"]):
        if kind in ("finished", "failed"):
            pre.append([None, "finished"])
        elif kind == "waiting":
            pre.append([None, "waiting"])
        elif kind == "grid-done":
            pre.append([real["trials"][j]["gid"], "finished"])
        elif kind.startswith("killed-"):
            # RUNNING for ever; it counts for the grid only if BOTH attrs were written (grid id and search space)
            pre.append([real["trials"][j]["gid"] if real["trials"][j].get("has_space") else None, "running"])
        else:
            pre.append([real["trials"][j]["gid"], "running"])
    raises = [int(t) for t, o in case["outcomes"].items() if o in ("raise", "interrupt")]
    req = {"op": "run", "n": real["n"], "ks": case["ks"], "pre": pre, "choices": [int(c["v"]) for c in real["calls"]],
           "raises": raises}
    if isinstance(real.get("attrs"), dict) and "space" in real["attrs"]:
        req["space"] = real["attrs"]["space"]
    return req


def compare_grid(case: dict[str, Any], real: dict[str, Any], model: dict[str, Any]) -> str | None:
    if "trials" not in model:
        return "driver: %s" % json.dumps(model)[:300]
    if c14_gen.gen_disagreement(model) is not None:
        return "interpreter of the methods generated from _grid.py differs from the hand model (Model/Grid.lean): %s" % (
            json.dumps(model["gen"])[:300])
    if real.get("gen_unvisited_diff"):
        return real["gen_unvisited_diff"]
    if real.get("runaway"):
        return "the implementation ran %d trials on a grid of %d cells and was stopped by the harness" % (len(real["trials"]), real["n"])
    if real["crashed"]:
        return "the implementation raised %s; the model of the grid sampler never raises" % real["crashed"]
    rt = [[t["gid"], t["state"]] for t in real["trials"]]
    if rt != model["trials"]:
        return "trials (grid id, state): implementation %s / model %s" % (rt, model["trials"])
    if real["stop"] != model["stop"]:
        return "stop flag: implementation %s / model %s" % (real["stop"], model["stop"])
    if len(real["calls"]) != model["ncalls"]:
        return "number of RNG calls: implementation %d / model %d" % (len(real["calls"]), model["ncalls"])
    return None


def oracle_grid(case: dict[str, Any], real: dict[str, Any]) -> tuple[str, str] | None:
    n = real["n"]
    if real.get("runaway"):
        return ("no-stop", "%d trials on a grid of %d cells and still running (stopped by the harness)" % (len(real["trials"]), n))
    if real["crashed"]:
        return ("sampler-raised", "optimize died with %s" % real["crashed"])
    cells = []
    for t in real["trials"]:
        if t["state"] == "finished" and t["gid"] is not None:
            if t["cell_ok"] is False:
                return ("wrong-cell", "trial evaluated %s, its grid id is %s of %d" % (t["params"], t["gid"], n))
            cells.append(t["gid"])
    if len(set(cells)) != len(cells):
        return ("duplicate", "grid cell evaluated twice: ids %s" % cells)
    if any(not (0 <= g < n) for g in cells):
        return ("not-a-cell", "grid id out of range: %s" % cells)
    allc = len(cells) == n
    if real["stop"] and not allc:
        return ("stopped-early", "stopped by itself after %d of %d cells" % (len(cells), n))
    if allc and not real["stop"]:
        return ("no-stop", "all %d cells evaluated but the stop flag is not set" % n)
    if case.get("finish") and not real["stop"]:
        return ("no-stop", "run with unlimited budget ended without the stop flag (%d of %d)" % (len(cells), n))
    # the evaluated parameter combinations are the cartesian product, each once
    if allc:
        names = real["names"]
        combos = sorted(repr([t["params"].get(nm) for nm in names]) for t in real["trials"]
                        if t["state"] == "finished" and t["gid"] is not None)
        prod = sorted(repr(list(c)) for c in itertools.product(*[case["space"][nm] for nm in names]))
        if combos != prod:
            return ("wrong-cell", "evaluated combinations differ from the cartesian product")
    return None


# ---------------------------------------------------------------------------------------------
# candidate enumeration alone
# ---------------------------------------------------------------------------------------------

def check_enum(chk: core.Check, n: int, only: list[dict[str, Any]] | None = None) -> None:
    from optuna.distributions import CategoricalDistribution, FloatDistribution, IntDistribution
    from optuna.samplers._brute_force import _enumerate_candidates

    _quiet()
    r = chk.rng
    ds = []
    for _ in range(n):
        kind = r.choice(["int", "float", "float", "cat"])
        ds.append(gen_dist(r, kind, sample_choices(r, r.randint(1, 5)), 0.15))
    # hand-picked edge cases: the last grid point, decimal steps that are not binary fractions
    ds += [{"k": "float", "low": "0.1", "high": "1.0", "step": "0.3"}, {"k": "float", "low": "0.0", "high": "0.3", "step": "0.1"},
           {"k": "float", "low": "1.0", "high": "3.0", "step": "0.5"}, {"k": "float", "low": "-0.7", "high": "0.7", "step": "0.7"},
           {"k": "int", "low": 1, "high": 7, "step": 3}, {"k": "int", "low": 3, "high": 3, "step": 2},
           {"k": "float", "low": "2.5", "high": "2.5", "step": "0.05"}]
    if only is not None:
        ds = only
    resp = core.driver_batch("bruteforce", [{"op": "enum", "dist": dist_for_driver(d)} for d in ds])
    for d, m in zip(ds, resp):
        if d["k"] == "int":
            dist: Any = IntDistribution(d["low"], d["high"], step=d["step"])
        elif d["k"] == "float":
            dist = FloatDistribution(float(d["low"]), float(d["high"]), step=float(d["step"]))
        else:
            dist = CategoricalDistribution(real_choices(d))
        real = list(_enumerate_candidates(dist))
        spec = spec_cands(d)
        chk.count("enum:" + d["k"])
        case = {"kind": "enum", "dist": d}
        chk.evaluations += 1
        if len(spec) >= 2:
            chk.distinct.add("enum:" + core.canon(d))
        want = [int(c) if d["k"] != "float" else float(c) for c in spec]
        if real != want:
            chk.violation({"sampler": "bruteforce", "kind": "candidates"}, case,
                          "_enumerate_candidates(%s) = %s, the points of the domain are %s" % (d, real, want))
            continue
        if c14_gen.gen_disagreement(m) is not None:
            chk.broke("correspondence", {"what": "generated _enumerate_candidates differs from Dist.enumerate", "dist": d, "gen": m["gen"]})
        if "cands" not in m or [Fraction(c) for c in m["cands"]] != spec or m["single"] != bool(dist.single()):
            chk.broke("correspondence", {"what": "enumerate/single", "dist": d, "model": m, "real": real,
                                         "single": bool(dist.single())})
        if dist.single() != (len(spec) == 1):
            chk.violation({"sampler": "bruteforce", "kind": "single"}, case,
                          "single() = %s for a domain with %d points" % (dist.single(), len(spec)))


# ---------------------------------------------------------------------------------------------
# `_grid_value_equal` / `_same_search_space` as generated vs the real methods
# ---------------------------------------------------------------------------------------------

def check_value_equal(chk: core.Check, drv: core.Driver, n_spaces: int) -> None:
    """every pair of a pool of grid values (two different NaN objects, the same NaN object twice, inf, True/1/1.0, "1",
    None ...) through the real `_grid_value_equal` and the interpreter of the generated one (which the proofs equate with
    the hand model's `==`); then random pairs of search spaces (permuted keys, a copied NaN, a changed / dropped value,
    a dropped key) through `_same_search_space`."""
    import pickle

    from optuna.samplers import GridSampler

    _quiet()
    nan1, nan2 = float("nan"), float("nan")
    pool = [None, True, False, 0, 1, 2, -3, 0.0, 1.0, 0.5, -2.25, float("inf"), float("-inf"), nan1, nan2, "1", "a", "", "nan"]
    ids: dict[int, int] = {}
    veq = getattr(GridSampler, "_grid_value_equal", None)
    if veq is None:
        chk.broke("correspondence", {"what": "GridSampler._grid_value_equal is gone: the NaN-aware value comparison of the model has no counterpart to run against"})
    for a in (pool if veq is not None else []):
        for b in pool:
            real = bool(veq(a, b))
            m = drv.ask({"op": "gen_veq", "a": gval(a, ids), "b": gval(b, ids)})
            chk.count("gen:value-equal")
            chk.evaluations += 1
            if m.get("eq") is not real or m.get("hand") is not real:
                chk.broke("correspondence", {"what": "_grid_value_equal(%r, %r): implementation %s / generated interpreter %s / hand model %s" % (
                    a, b, real, m.get("eq", m.get("error")), m.get("hand"))})
                return
    r = chk.rng
    vals = [0, 1, 2, 5, -3, 0.5, 1.25, "a", "b", None, True, float("nan"), float("inf"), -2.25]
    for _ in range(n_spaces):
        mine = {"p%d" % i: [r.choice(vals) for _ in range(r.randint(1, 3))] for i in range(r.randint(1, 3))}
        theirs: dict[str, list[Any]] = pickle.loads(pickle.dumps(mine))   # new objects (NaN included), as after a storage round trip
        mut = r.choice(["same", "same", "perm", "value", "len", "key", "num"])
        k = r.choice(sorted(theirs))
        if mut == "perm":
            theirs = {kk: theirs[kk] for kk in sorted(theirs, reverse=True)}
        elif mut == "value":
            theirs[k][r.randrange(len(theirs[k]))] = r.choice(vals)
        elif mut == "len":
            theirs[k] = theirs[k][:-1] if r.random() < 0.5 else theirs[k] + [r.choice(vals)]
        elif mut == "key":
            if r.random() < 0.5:
                del theirs[k]
            else:
                theirs["q"] = [1]
        elif mut == "num":
            theirs[k] = [float(x) if isinstance(x, int) and not isinstance(x, bool) else x for x in theirs[k]]
        sampler = GridSampler(mine, seed=0)
        real = bool(sampler._same_search_space(theirs))
        ids = {}
        keep = [sampler._search_space, theirs]
        m = drv.ask({"op": "gen_samespace", "mine": gspace(sampler._search_space, ids), "theirs": gspace(theirs, ids)})
        chk.count("gen:same-space:%s" % real)
        chk.evaluations += 1
        del keep
        if m.get("same") is not real or m.get("hand") is not real:
            chk.broke("correspondence", {"what": "_same_search_space: implementation %s / generated interpreter %s / hand model %s" % (
                real, m.get("same", m.get("error")), m.get("hand")), "mine": repr(mine), "theirs": repr(theirs)})
            return


# ---------------------------------------------------------------------------------------------
# witnesses: where the full-strength statement is false today (brute force), and the repaired grid case
# ---------------------------------------------------------------------------------------------

PXY = {"name": "i0", "dist": {"k": "int", "low": 0, "high": 1, "step": 1}, "kids": [
    ["0/1", {"name": "i1", "dist": {"k": "int", "low": 0, "high": 1, "step": 1},
             "kids": [["0/1", {"leaf": "complete"}], ["1/1", {"leaf": "complete"}]]}],
    ["1/1", {"name": "i1", "dist": {"k": "int", "low": 0, "high": 1, "step": 1},
             "kids": [["0/1", {"leaf": "complete"}], ["1/1", {"leaf": "complete"}]]}]]}

W_MIDCUT = {"kind": "bruteforce", "flavour": "witness-midcut", "prog": PXY, "avoid": False, "cuts": [[0, "mid", 1]],
            "stale": [], "rng_seed": 1, "ks": [1, BIG], "finish": True}
W_STALE = {"kind": "bruteforce", "flavour": "witness-stale-default", "prog": PXY, "avoid": False, "cuts": [],
           "stale": [[["i0", PXY["dist"], 0]]], "rng_seed": 1, "ks": [BIG], "finish": True}
W_GRIDQ = {"kind": "grid", "flavour": "witness-enqueued", "space": {"p0": [1]}, "pre": ["waiting"], "rng_seed": 1, "seed": 0,
           "outcomes": {}, "ks": [BIG], "finish": True}
W_GRIDQ2 = {"kind": "grid", "flavour": "witness-enqueued", "space": {"p0": [1, 2]}, "pre": ["grid-done", "waiting"],
            "rng_seed": 1, "seed": 0, "outcomes": {}, "ks": [BIG], "finish": True}

SIG_MIDCUT = {"sampler": "bruteforce", "kind": "interrupt-before-last-suggest-closes-prefix"}


def witnesses(chk: core.Check, drv: core.Driver) -> None:
    # 1. KeyboardInterrupt between two suggests (Lean: interrupt_mid_trial_loses_subspace)
    real = run_bf_real(W_MIDCUT)
    model = drv["bf"].ask(bf_request(W_MIDCUT, real))
    diff = compare_bf(W_MIDCUT, real, model)
    fin = [t for t in real["trials"] if t["finished"] and t["at_leaf"]]
    if diff is not None:
        chk.broke("correspondence", {"witness": "midcut", "diff": diff})
    if real["stop"] and len(fin) < 4:
        chk.violation(SIG_MIDCUT, W_MIDCUT,
                      "BruteForceSampler: a trial interrupted (KeyboardInterrupt) after suggesting i0=%s and before i1 is "
                      "stored as FAIL with a partial path; after resuming, the sampler treats that prefix as a finished leaf: "
                      "%d of 4 combinations evaluated, then study.stop()" % (real["trials"][0]["steps"], len(fin)))
    chk.extra["witness_midcut"] = {"evaluated": len(fin), "of": 4, "stop": real["stop"]}
    # 2. stale RUNNING trial in the default mode (documented for avoid_premature_stop=False) — recorded, not a violation
    real = run_bf_real(W_STALE)
    model = drv["bf"].ask(bf_request(W_STALE, real))
    diff = compare_bf(W_STALE, real, model)
    if diff is not None:
        chk.broke("correspondence", {"witness": "stale-default", "diff": diff})
    fin = [t for t in real["trials"] if t["finished"]]
    chk.extra["witness_stale_running_default_mode"] = {
        "evaluated": len(fin), "of": 4, "stop": real["stop"],
        "note": "documented behaviour of avoid_premature_stop=False (Lean: stale_running_default_mode_stops_early); "
                "the strict mode is covered by bruteforce_exhaustive"}
    # 3. grid: enqueued trial finishing while exactly one cell is free (Lean: grid_enqueued_then_grid).  Before the
    #    repair f91818c after_trial raised KeyError('grid_id') here; if that ever comes back it is a violation.
    for w in (W_GRIDQ, W_GRIDQ2):
        real = run_grid_real(w)
        model = drv["grid"].ask(grid_request(w, real))
        real["gen_unvisited_diff"] = gen_unvisited_diff(drv["grid"], real["attrs"])
        diff = compare_grid(w, real, model)
        orc = oracle_grid(w, real)
        chk.count("grid:witness-enqueued")
        chk.traces_validated += 1
        if orc is not None:
            chk.violation(sig_of(w, orc[0]), w, "grid sampler with an enqueued trial and exactly one free cell: %s" % orc[1])
        elif diff is not None:
            chk.broke("correspondence", {"case": w, "diff": diff})
    chk.extra["witness_grid_enqueued"] = {"crashed": real["crashed"], "stop": real["stop"],
                                          "trials": [[t["gid"], t["state"]] for t in real["trials"]]}


# ---------------------------------------------------------------------------------------------
# running cases
# ---------------------------------------------------------------------------------------------

def run_case(case: dict[str, Any], drv: dict[str, core.Driver]) -> dict[str, Any]:
    """-> {"diff": str|None, "oracle": (kind,msg)|None, "nontrivial": bool, "stats": {...}}"""
    if case["kind"] == "bruteforce":
        real = run_bf_real(case)
        model = drv["bf"].ask(bf_request(case, real))
        diff = compare_bf(case, real, model)
        orc = oracle_bf(case, real) if bf_in_scope(case) else None
        n = len(leaves_of(case["prog"]))
        multi = any(c["p"] is not None and sum(1 for x in c["p"] if x > 0) >= 2 for c in real["calls"])
        return {"diff": diff, "oracle": orc, "nontrivial": n >= 2 and multi,
                "stats": {"leaves": n, "trials": len(real["trials"]), "rng_calls": len(real["calls"]),
                          "optimize_calls": real["optimize_calls"], "stop": real["stop"]}}
    real = run_grid_real(case)
    model = drv["grid"].ask(grid_request(case, real))
    real["gen_unvisited_diff"] = gen_unvisited_diff(drv["grid"], real["attrs"])
    diff = compare_grid(case, real, model)
    orc = oracle_grid(case, real)
    return {"diff": diff, "oracle": orc, "nontrivial": real["n"] >= 2,
            "stats": {"cells": real["n"], "trials": len(real["trials"]), "rng_calls": len(real["calls"]), "stop": real["stop"]}}


def shrink(case: dict[str, Any], drv: dict[str, core.Driver], bad) -> dict[str, Any]:
    """greedy: drop cuts / stale trials / splits, replace sub-programs by leaves, while `bad(case)` holds"""
    def tries(c: dict[str, Any]):
        if c["kind"] == "bruteforce":
            for i in range(len(c["cuts"])):
                d = copy.deepcopy(c); del d["cuts"][i]; yield d
            for i in range(len(c["stale"])):
                d = copy.deepcopy(c); del d["stale"][i]; yield d
            if len(c["ks"]) > 1 and c.get("finish"):
                d = copy.deepcopy(c); d["ks"] = [BIG] * (len(leaves_of(c["prog"])) + 3); yield d
            # hoist a sub-program / replace one by a leaf (only when no stale walk exists: walks refer to the tree)
            if not c["stale"] and not c["cuts"] and "leaf" not in c["prog"]:
                for _, k in c["prog"]["kids"]:
                    if "leaf" not in k:
                        d = copy.deepcopy(c); d["prog"] = copy.deepcopy(k); yield d
            if not c["stale"]:
                paths = []

                def rec(node: Any, path: list[int]) -> None:
                    if "leaf" in node:
                        return
                    for i, (_, k) in enumerate(node["kids"]):
                        if "leaf" not in k:
                            paths.append(path + [i])
                        rec(k, path + [i])
                rec(c["prog"], [])
                for pth in paths:
                    d = copy.deepcopy(c)
                    node = d["prog"]
                    for i in pth[:-1]:
                        node = node["kids"][i][1]
                    node["kids"][pth[-1]][1] = {"leaf": "complete"}
                    yield d
        else:
            for i in range(len(c["pre"])):
                d = copy.deepcopy(c); del d["pre"][i]; yield d
            if c["outcomes"]:
                d = copy.deepcopy(c); d["outcomes"] = {}; yield d
            for nm in list(c["space"]):
                if len(c["space"][nm]) > 1:
                    d = copy.deepcopy(c); d["space"][nm] = d["space"][nm][:-1]; yield d
    budget = 150
    progress = True
    while progress and budget > 0:
        progress = False
        for cand in tries(case):
            budget -= 1
            try:
                if bad(cand):
                    case = cand
                    progress = True
                    break
            except Exception:
                pass
            if budget <= 0:
                break
    return case


def sig_of(case: dict[str, Any], kind: str) -> dict[str, Any]:
    return {"sampler": case["kind"], "kind": kind}


def evaluate(case: dict[str, Any], drv: dict[str, core.Driver]) -> dict[str, Any]:
    """run one case, judge it, minimise it when it is bad (no book-keeping: also runs in worker processes)"""
    res = run_case(case, drv)
    out = {"case": case, "nontrivial": res["nontrivial"], "stats": res["stats"], "verdict": None}
    if res["oracle"] is not None:
        kind = res["oracle"][0]
        small = shrink(case, drv, lambda c: (run_case(c, drv)["oracle"] or ("",))[0] == kind)
        r2 = run_case(small, drv)
        out.update(verdict="violation", kind=kind, small=small,
                   msg="%s sampler: %s  [model vs implementation: %s]" % (
                       case["kind"], (r2["oracle"] or res["oracle"])[1], r2["diff"] or "agree"))
    elif res["diff"] is not None:
        small = shrink(case, drv, lambda c: run_case(c, drv)["diff"] is not None)
        out.update(verdict="broke", small=small, msg=run_case(small, drv)["diff"] or res["diff"])
    return out


def book(chk: core.Check, out: dict[str, Any]) -> None:
    case = out["case"]
    key = "%s:%s" % (case["kind"], case["flavour"])
    chk.case(case, nontrivial=out["nontrivial"])
    picked = chk.extra.setdefault("_samples", {})
    if key not in picked and out["nontrivial"] and len(json.dumps(case)) < 2400:
        picked[key] = case
    chk.count(key)
    chk.traces_validated += 1
    for k, v in out["stats"].items():
        if isinstance(v, int) and not isinstance(v, bool):
            chk.count("sum:%s:%s" % (case["kind"], k), v)
    if out["verdict"] == "violation":
        chk.violation(sig_of(case, out["kind"]), out["small"], out["msg"])
    elif out["verdict"] == "broke":
        chk.broke("correspondence", {"case": out["small"], "diff": out["msg"]})


def handle(chk: core.Check, case: dict[str, Any], drv: dict[str, core.Driver]) -> None:
    book(chk, evaluate(case, drv))


def _worker(cases: list[dict[str, Any]]) -> list[dict[str, Any]]:
    drv = {"bf": core.Driver("bruteforce"), "grid": core.Driver("grid")}
    outs = []
    bad = 0
    try:
        for case in cases:
            try:
                o = evaluate(case, drv)
            except core.DriverBroken as e:
                o = {"case": case, "nontrivial": False, "stats": {}, "verdict": "broke", "small": case,
                     "msg": "driver: %s" % str(e)[:300]}
                drv = {"bf": core.Driver("bruteforce"), "grid": core.Driver("grid")}
            outs.append(o)
            bad += o["verdict"] is not None
            if bad >= 3:
                break
    finally:
        for d in drv.values():
            d.close()
    return outs


def stream(chk: core.Check, n_bf: int, n_grid: int) -> list[dict[str, Any]]:
    r = chk.rng
    cases = []
    for _ in range(n_bf):
        x = r.random()
        fl = "plain" if x < 0.62 else "stale-strict" if x < 0.80 else "stale-default" if x < 0.90 else "midcut"
        cases.append(gen_bf_case(r, chk.tier, fl))
    for _ in range(n_grid):
        x = r.random()
        fl = "plain" if x < 0.45 else "pre" if x < 0.7 else "queue" if x < 0.85 else "queue-mid"
        cases.append(gen_grid_case(r, chk.tier, fl))
    return cases


def search(chk: core.Check) -> None:
    """failing-input search (only when something broke and no violation is known): many more programs, judged by
    the independent oracle alone"""
    core.ensure_driver()
    drv = {"bf": core.Driver("bruteforce"), "grid": core.Driver("grid")}
    try:
        r = random.Random(chk.seed * 7919 + 14)
        for i in range(1500):
            case = gen_bf_case(r, "quick", r.choice(["plain", "plain", "stale-strict"])) if i % 4 else gen_grid_case(
                r, "quick", r.choice(["plain", "pre", "queue", "queue-mid"]))
            res = run_case(case, drv)
            if res["oracle"] is not None:
                kind = res["oracle"][0]
                small = shrink(case, drv, lambda c: (run_case(c, drv)["oracle"] or ("",))[0] == kind)
                chk.violation(sig_of(case, kind), small, "%s sampler: %s" % (case["kind"], res["oracle"][1]))
                chk.search_log.append("found after %d cases" % (i + 1))
                return
        chk.search_log.append("1500 further cases: the oracle holds on all of them")
    finally:
        for d in drv.values():
            d.close()


def main(chk: core.Check) -> int:
    chk.rule = RULE
    c14_gen.regenerate(chk)  # T-brute: Generated/BruteForceMethods.lean, GridMethods.lean from _brute_force.py / _grid.py
    if not getattr(chk, "no_prove", False):
        chk.prove(["OptunaVerif.Props.C14", c14_gen.MODULE, "OptunaVerif.Props.C14GridResume"])
        c14_gen.explain_proof_failure(chk)
    quick = chk.tier == "quick"
    try:
        core.ensure_driver()
        drv = {"bf": core.Driver("bruteforce"), "grid": core.Driver("grid")}
        try:
            for c in core.corpus_cases("C14"):
                handle(chk, c, drv)
            check_enum(chk, 120 if quick else 1500)
            check_value_equal(chk, drv["grid"], 150 if quick else 3000)
            witnesses(chk, drv)
            cases = stream(chk, 400 if quick else 6000, 150 if quick else 2500)
            if quick:
                for case in cases:
                    handle(chk, case, drv)
                    if len(chk.violations) >= 3 or len(chk.broken) >= 5:
                        break
            else:
                import multiprocessing as mp

                nproc = 8
                chunks = [cases[i::nproc * 4] for i in range(nproc * 4)]
                with mp.get_context("spawn").Pool(nproc) as pool:
                    for outs in pool.imap_unordered(_worker, chunks):
                        for o in outs:
                            book(chk, o)
        finally:
            for d in drv.values():
                d.close()
    except core.DriverBroken as e:
        chk.broke("correspondence", {"driver": str(e)[:800]})
    chk.assumptions += [
        "sequential optimize (n_jobs=1) on the in-memory storage; trial numbers are dense",
        "parameter values cross the protocol as candidate indices / exact decimals; float(Decimal) rounding is outside the model",
        "categorical choices are pairwise different under == (a single NaN choice is allowed: it equals itself under the NaN-aware comparison the sampler uses since the repair of F38); no parameter name is suggested twice with different distributions on one path",
        "the default mode (avoid_premature_stop=False) is claimed only for studies without RUNNING trials left by dead workers "
        "(documented looser criterion; Lean counter-witness stale_running_default_mode_stops_early replayed each run)",
        "a KeyboardInterrupt that hits between two suggest calls of one trial is outside the theorem (Lean counter-witness "
        "interrupt_mid_trial_loses_subspace, replayed on the implementation each run and reported with its own signature)",
    ]
    picked = chk.extra.pop("_samples", {})
    order = ["bruteforce:plain", "grid:pre", "bruteforce:stale-strict", "grid:queue", "grid:plain", "bruteforce:midcut"]
    chosen = [picked[k] for k in order if k in picked][:4]
    if chosen:
        chk.samples = chosen
    chk.trusted += ["T-brute (verif/translators/tbrute.py): the whitelisted source shapes are mapped to the primitives of Model/SamplerIR.lean as documented there",
                    "the recording RNG stub replaces sampler._rng (numpy RandomState.choice semantics: only entries with p>0 can be drawn)"]
    return chk.finish(search=search)


def replay(chk: core.Check, path: str) -> int:
    w = json.load(open(path))
    if w.get("kind") == "no-failing-input-found":
        cands = [b["detail"] for b in w.get("no_longer_checks", []) if isinstance(b.get("detail"), dict)]
        cases = [d.get("case") for d in cands if isinstance(d.get("case"), dict)]
        if not cases:
            print("nothing to replay: %s" % json.dumps(w.get("no_longer_checks"))[:600])
            return 1
        case = cases[0]
    else:
        case = w.get("witness", w)
        if "case" in case:
            case = case["case"]
    c14_gen.regenerate(chk)  # the sub-drivers link the methods generated from the tree under test
    core.ensure_driver()
    drv = {"bf": core.Driver("bruteforce"), "grid": core.Driver("grid")}
    try:
        if case.get("kind") == "enum":
            chk.rule = RULE
            check_enum(chk, 0, only=[case["dist"]])
            bad = bool(chk.violations or chk.broken)
            print("REPRODUCED: %s" % (chk.violations or chk.broken)[0] if bad else "not reproduced")
            return 1 if bad else 0
        if case.get("flavour") == "witness-midcut":
            real = run_bf_real(case)
            fin = [t for t in real["trials"] if t["finished"] and t["at_leaf"]]
            if real["stop"] and len(fin) < len(leaves_of(case["prog"])):
                print("REPRODUCED: stopped after %d of %d combinations: %s" % (
                    len(fin), len(leaves_of(case["prog"])), [(t["state"], t["steps"]) for t in real["trials"]]))
                return 1
            print("not reproduced")
            return 0
        res = run_case(case, drv)
    finally:
        for d in drv.values():
            d.close()
    if res["oracle"] is not None:
        print("REPRODUCED (property fails on the implementation): %s" % res["oracle"][1])
        return 1
    if res["diff"] is not None:
        print("REPRODUCED (model and implementation differ): %s" % res["diff"])
        return 1
    print("not reproduced")
    return 0
