"""C14, translator tie: the exhaustive samplers as written in the source today -> Lean data -> proved equal to the hand models.

regenerate(chk)   run verif/translators/tbrute.py on core.REPO, write lean/OptunaVerif/Generated/BruteForceMethods.lean and
                  GridMethods.lean (only when the text changed), record what was read in chk.translated / chk.extra, and
                  report every untranslatable method as chk.broke("translation", ...).
                  Call it BEFORE chk.prove(["OptunaVerif.Props.C14", MODULE]) and before core.ensure_driver() (the sub-drivers
                  `bruteforce` / `grid` link the generated methods and run their interpreter side by side with the hand model).
explain_proof_failure(chk)   after a failed chk.prove: the NAMES of the obligations of Props/C14Gen.lean that no longer check.
gen_disagreement(resp)       the "gen" field of an answer of the `bruteforce` / `grid` sub-drivers (None = the interpreter of
                             the generated methods and the hand model agree on the whole run).

Used by verif/props/c14.py (helper module, like c06_gen.py for C06).
"""
from __future__ import annotations

import os
import re
from typing import Any

from verif import core
from verif.translators import tbrute

GEN_DIR = os.path.join(core.LEAN_DIR, "OptunaVerif", "Generated")
OUT_BF = os.path.join(GEN_DIR, "BruteForceMethods.lean")
OUT_GRID = os.path.join(GEN_DIR, "GridMethods.lean")
MODULE = "OptunaVerif.Props.C14Gen"

ASSUMPTIONS = [
    "T-brute: a `_TreeNode` is the record (param_name, children, is_running); `children` is a key list in insertion order plus a "
    "total function; the dict comprehension of expand ranges over a duplicate-free list (proved of every distribution: "
    "enumerate_nodup); pointers into the tree (current_node, leaf) are zippers; the asserts inside the methods are executed "
    "(they raise in the interpreter)",
    "T-brute: rng.choice(a, p=w) is an arbitrary choice among the entries of positive weight (as in the hand model); "
    "`weights /= weights.sum()` keeps the positivity pattern; Decimal arithmetic and float(Decimal) of _enumerate_candidates are "
    "abstract (the three Decimal constructor calls and the while loop are pinned as text)",
    "T-brute (grid): the set/list conversions of _get_unvisited_grid_ids are order-free (compared as sets by the harness); "
    "`a is b` is modelled for NaN objects only (for every other grid value `is` implies `==`); _logger.warning has no effect",
]


def regenerate(chk: "core.Check | None" = None) -> "dict[str, Any] | None":
    infos: dict[str, Any] = {}
    for name, fn, out in (("bruteforce", tbrute.translate_bruteforce, OUT_BF), ("grid", tbrute.translate_grid, OUT_GRID)):
        try:
            text, info, problems = fn(core.REPO)
        except (tbrute.Untranslatable, SyntaxError, OSError) as e:
            if chk is None:
                raise
            chk.broke("translation", {"translator": "T-brute", "file": name, "why": str(e)[:600]})
            return None
        changed = core.write_if_changed(out, text)
        infos[name] = info
        if chk is not None:
            ms = info["methods"]
            chk.translated.append("%s: %d/%d methods as statement IR%s%s" % (
                os.path.basename(out), sum(1 for v in ms.values() if v is not None), len(ms),
                ("; _enumerate_candidates arms %s" % info["enumerate"]["arms"]) if info.get("enumerate") else "",
                " (file changed)" if changed else ""))
            for p in problems:
                chk.broke("translation", dict(p, translator="T-brute", file=name))
    if chk is not None:
        chk.extra["sampler_ir"] = {k: {"nodes": v["methods"], **{x: v[x] for x in v if x != "methods"}} for k, v in infos.items()}
        for a in ASSUMPTIONS:
            if a not in chk.assumptions:
                chk.assumptions.append(a)
    return infos


def explain_proof_failure(chk: core.Check) -> list[str]:
    """after chk.prove([..., MODULE]) failed: name the declarations of Props/C14Gen.lean whose proof no longer checks
    (the build log only has line numbers); recorded in chk.extra["c14gen_failed"]"""
    pr = chk.proof
    if pr is None or pr.ok:
        return []
    lines = sorted({int(m.group(1)) for m in re.finditer(r"Props/C14Gen\.lean:(\d+):\d+: error", pr.build_log)}
                   | {int(m.group(1)) for m in re.finditer(r"error: \S*Props/C14Gen\.lean:(\d+):", pr.build_log)})
    if not lines:
        return []
    src = open(os.path.join(core.LEAN_DIR, MODULE.replace(".", "/") + ".lean")).read().splitlines()
    # declarations with the line range they own (a doc comment belongs to the declaration after it: Lean reports
    # e.g. `rfl` failures of a one-line theorem at the start of its doc comment)
    decls: list[tuple[int, str]] = []   # (first line (1-based) of doc comment or declaration, name)
    doc_start = None
    last_doc_end = None
    for i, line in enumerate(src, 1):
        st = line.strip()
        if st.startswith("/--") and doc_start is None:
            doc_start = i
        if doc_start is not None and st.endswith("-/"):
            last_doc_end, last_doc_start = i, doc_start
            doc_start = None
            continue
        if doc_start is not None:
            continue
        m = re.match(r"\s*(?:@\[[^\]]*\]\s*)?(?:private\s+)?(?:theorem|def|example|lemma)\b\s*([^\s:(]*)", line)
        if m:
            name = m.group(1) or ("example at line %d: %s" % (i, st[:90]))
            first = last_doc_start if last_doc_end == i - 1 else i
            decls.append((first, name))
    names: list[str] = []
    for ln in lines:
        name = None
        for first, nm in decls:
            if first <= ln:
                name = nm
            else:
                break
        if name and name not in names:
            names.append(name)
    chk.extra["c14gen_failed"] = names
    chk.broke("proof", {"module": MODULE, "generated_methods_no_longer_equal_hand_model": names})
    return names


def gen_disagreement(resp: Any) -> Any:
    if isinstance(resp, dict):
        return resp.get("gen")
    return None
