"""C15 — hypervolume, non-domination rank and hypervolume subset selection are exact.

prove:      Props/C15.lean (WFG recursion = number of dominated unit cells for every dimension and point
            list; 2-D sweep; Pareto filters; rank = repeated front peeling; lazy greedy picks a true
            argmax; k distinct members; (1-1/e) bound).
correspond: optuna's compute_hypervolume / _is_pareto_front / _fast_non_domination_rank / _solve_hssp vs the
            compiled Lean models on the same inputs, exact integer comparison on lattice sets, exact
            rational comparison (power-of-two scaling) on continuous sets.
observe:    the property itself on the real code against oracles that do not share code with the model:
            brute-force cell counting, inclusion-exclusion over subsets, O(n^2) peeling, exhaustive subsets.

A disagreement real-vs-oracle is a violation of C15; a disagreement real-vs-model with the oracle satisfied
only breaks the tie (chk.broke) and triggers the failing-input search.
"""
from __future__ import annotations

import itertools
import json
import math
import random
import signal
import warnings
from fractions import Fraction
from typing import Any

import numpy as np

from verif import core
from verif.props import c15_gen as G15

RULE = (
    "seeded point sets: lattice rows in 1-5 dimensions with coordinates 0..6 (modes: uniform, antichain/staircase, "
    "heavy duplicates, per-coordinate ties, chains of dominated points), reference point any lattice point weakly "
    "dominated by all rows (incl. touching), all subset sizes / n_below / penalty patterns; plus +-inf/NaN coordinates "
    "and continuous float sets scaled exactly to integers. A case = (function, arguments). Non-trivial = at least 3 "
    "distinct rows of which at least one is dominated or duplicated or tied with another in some coordinate "
    "(so the optimised branches differ from the naive ones; for the special-value and float stages: at least 2 resp. 3 rows); "
    "distinct by SHA-1 of the canonical arguments."
)

INF = float("inf")


# ------------------------------------------------------------------------------------------------
# real code (imported lazily so that PYTHONPATH / VERIF_REPO point at the tree under test)
# ------------------------------------------------------------------------------------------------
def _real():
    from optuna._hypervolume import compute_hypervolume
    from optuna._hypervolume.hssp import _solve_hssp
    from optuna.study import _multi_objective as mo

    return compute_hypervolume, _solve_hssp, mo


class Exc(tuple):
    """an exception raised by the real code, as an observation"""


class Hang(Exception):
    pass


def _on_alarm(signum, frame):  # a loop of the code under test that does not terminate is an observation too
    raise Hang("no result after %.0f s" % CALL_TIMEOUT_S)


CALL_TIMEOUT_S = 5.0
HANGS = [0]


class AbortRun(Exception):
    """the code under test stopped terminating: report what was found so far instead of waiting for ever"""



def call(f, *a, **k) -> Any:
    """Run real code; exceptions (and non-termination) become Exc(("exc", class name, message))."""
    if HANGS[0] >= 2:
        raise AbortRun()
    old = signal.signal(signal.SIGALRM, _on_alarm)
    signal.setitimer(signal.ITIMER_REAL, CALL_TIMEOUT_S)
    try:
        with warnings.catch_warnings():
            warnings.simplefilter("ignore")
            with np.errstate(all="ignore"):
                return f(*a, **k)
    except Hang as e:
        HANGS[0] += 1
        return Exc(("exc", "Hang", str(e)))
    except Exception as e:  # noqa: BLE001 - the class is the observation
        return Exc(("exc", type(e).__name__, str(e)[:200]))
    finally:
        signal.setitimer(signal.ITIMER_REAL, 0)
        signal.signal(signal.SIGALRM, old)


# ------------------------------------------------------------------------------------------------
# independent oracles
# ------------------------------------------------------------------------------------------------
def cell_masks(pts: list[list[int]], ref: list[int]) -> tuple[np.ndarray, tuple[int, ...]]:
    """Boolean array [n, cells]: cell c (lattice point of the box [lo, ref)) is dominated by row i."""
    d = len(ref)
    lo = [min([p[i] for p in pts] + [ref[i]]) for i in range(d)]
    shape = tuple(max(ref[i] - lo[i], 0) for i in range(d))
    if any(s == 0 for s in shape):
        return np.zeros((len(pts), 0), dtype=bool), shape
    grids = np.indices(shape).reshape(d, -1) + np.array(lo).reshape(d, 1)
    out = np.ones((len(pts), grids.shape[1]), dtype=bool)
    for k, p in enumerate(pts):
        for i in range(d):
            out[k] &= grids[i] >= p[i]
    return out, shape


def brute_hv(pts: list[list[int]], ref: list[int]) -> int:
    if not pts:
        return 0
    m, _ = cell_masks(pts, ref)
    return int(np.count_nonzero(m.any(axis=0))) if m.shape[1] else 0


def incl_excl(pts: list[list[Fraction]], ref: list[Fraction]) -> Fraction:
    """Volume of a union of boxes by inclusion-exclusion over all non-empty subsets (exact)."""
    n, d = len(pts), len(ref)
    total = Fraction(0)
    for mask in range(1, 1 << n):
        idx = [i for i in range(n) if mask >> i & 1]
        v = Fraction(1)
        for j in range(d):
            v *= ref[j] - max(pts[i][j] for i in idx)
        total += v if len(idx) % 2 == 1 else -v
    return total


def dominates(q, p) -> bool:
    return all(a <= b for a, b in zip(q, p)) and tuple(q) != tuple(p)


def peel_ranks(rows: list[Any], dom) -> list[int]:
    """Repeatedly remove the rows no remaining row dominates."""
    n = len(rows)
    rank = [-1] * n
    alive = set(range(n))
    k = 0
    while alive:
        front = [i for i in alive if not any(dom(rows[j], rows[i]) for j in alive)]
        assert front, "dominance relation has a cycle"
        for i in front:
            rank[i] = k
        alive -= set(front)
        k += 1
    return rank


def pen_class(v) -> int:
    return 2 if v is None else (0 if v <= 0 else 1)


def cdom(e0, e1) -> bool:
    """constrained domination of (row, penalty) pairs, None = no constraint information"""
    c0, c1 = pen_class(e0[1]), pen_class(e1[1])
    if c0 != c1:
        return c0 < c1
    if c0 == 1:
        return e0[1] < e1[1]
    return dominates(e0[0], e1[0])


# ------------------------------------------------------------------------------------------------
# generators
# ------------------------------------------------------------------------------------------------
def gen_points(r: random.Random, d: int, n: int, hi: int = 6) -> list[list[int]]:
    mode = r.choice(["uniform", "uniform", "antichain", "dups", "ties", "chain", "small"])
    pts: list[list[int]] = []
    if mode == "uniform":
        pts = [[r.randint(0, hi) for _ in range(d)] for _ in range(n)]
    elif mode == "small":
        pts = [[r.randint(0, 2) for _ in range(d)] for _ in range(n)]
    elif mode == "antichain":
        tries = 0
        while len(pts) < n and tries < 40 * n:
            tries += 1
            p = [r.randint(0, hi) for _ in range(d)]
            if d == 1 or all(not dominates(p, q) and not dominates(q, p) and p != q for q in pts):
                pts.append(p)
        if r.random() < 0.4 and pts:  # duplicates inside a Pareto set
            pts += [list(r.choice(pts)) for _ in range(r.randint(1, 2))]
    elif mode == "dups":
        base = [[r.randint(0, hi) for _ in range(d)] for _ in range(max(1, n // 2))]
        pts = [list(r.choice(base)) for _ in range(n)]
    elif mode == "ties":
        vals = [[r.randint(0, hi) for _ in range(2)] for _ in range(d)]
        pts = [[r.choice(vals[i]) for i in range(d)] for _ in range(n)]
    else:  # chain of dominated points plus noise
        p = [r.randint(0, 2) for _ in range(d)]
        for _ in range(n):
            pts.append(list(p))
            if r.random() < 0.7:
                p = [min(hi, x + r.randint(0, 2)) for x in p]
            else:
                p = [r.randint(0, hi) for _ in range(d)]
    r.shuffle(pts)
    return pts or [[0] * d]


def gen_ref(r: random.Random, pts: list[list[int]], hi: int = 6) -> list[int]:
    d = len(pts[0])
    worst = [max(p[i] for p in pts) for i in range(d)]
    mode = r.random()
    if mode < 0.25:
        return worst  # touching in every coordinate
    if mode < 0.6:
        return [w + r.randint(0, 1) for w in worst]
    return [r.randint(w, hi + 2) for w in worst]


def nontrivial(pts: list[list[int]]) -> bool:
    u = {tuple(p) for p in pts}
    if len(u) < 3:
        return False
    if len(u) < len(pts):
        return True
    ul = list(u)
    for a, b in itertools.combinations(ul, 2):
        if dominates(a, b) or dominates(b, a) or any(x == y for x, y in zip(a, b)):
            return True
    return False


def is_antichain(pts: list[list[int]]) -> bool:
    u = [tuple(p) for p in pts]
    return not any(dominates(a, b) for a in u for b in u)


# ------------------------------------------------------------------------------------------------
# helpers
# ------------------------------------------------------------------------------------------------
def as_int(x: Any) -> Any:
    """float result of the real code -> exact int / "inf" / "nan" / the exception"""
    if isinstance(x, Exc):
        return x
    x = float(x)
    if math.isinf(x):
        return "inf"
    if math.isnan(x):
        return "nan"
    f = Fraction(x)
    return int(f) if f.denominator == 1 else str(f)


def fl(pts: list[list[int]]) -> np.ndarray:
    d = len(pts[0]) if pts else 1
    return np.array(pts, dtype=float).reshape(len(pts), d)


def enc(v: float) -> Any:
    if v == INF:
        return "inf"
    if v == -INF:
        return "-inf"
    if v != v:
        return "nan"
    return int(v)


def dec(v: Any) -> float:
    return {"inf": INF, "-inf": -INF, "nan": float("nan")}[v] if isinstance(v, str) else float(v)


class Ctx:
    def __init__(self, chk: core.Check) -> None:
        self.chk = chk
        self.compute_hypervolume, self.solve_hssp, self.mo = _real()


class Bad(dict):
    """a failed judgement: kind, msg, witness (dict), sig (extra signature keys), tie (True = only the model/code tie)"""


def bad(kind: str, msg: str, witness: dict[str, Any], tie: bool = False, **sig: Any) -> Bad:
    return Bad(kind=kind, msg=msg, witness=witness, sig=sig, tie=tie)


def ask_model(obj: dict[str, Any]) -> dict[str, Any]:
    return core.driver_batch(G15.DRIVER, [obj])[0]


# ------------------------------------------------------------------------------------------------
# judges: one case of one function -> None (fine) or Bad.  Used by the stages, the shrinker and the replay.
# `model` is the driver's answer when the caller already has it (batched), else it is fetched when needed.
# ------------------------------------------------------------------------------------------------
def judge_hv(cx: Ctx, case: dict[str, Any], model: dict[str, Any] | None = None, tie: bool = True) -> Bad | None:
    """finite lattice rows: compute_hypervolume(pts, ref, assume_pareto) vs the dominated cell count"""
    pts, ref, ap = case["pts"], case["ref"], bool(case.get("assume_pareto", False))
    d = len(ref)
    truth = brute_hv(pts, ref)
    got = as_int(call(cx.compute_hypervolume, fl(pts), np.array(ref, dtype=float), assume_pareto=ap))
    w = dict(case, got=got, want=truth)
    if got != truth:
        # (assume_pareto=True included, in every dimension: the docstring promises the flag never changes the result,
        #  and since the repair of F22 the 2-D sweep takes the running minimum, so it does not)
        return bad("wrong-volume", "compute_hypervolume(%s, ref=%s%s) = %s but the dominated volume is %s" % (
            pts, ref, ", assume_pareto=True" if ap else "", got, truth), w, dim=d, assume_pareto=ap)
    if tie:
        m = model if model is not None else ask_model({"op": "hvfin", "pts": pts, "ref": ref, "brute": True})
        if m.get("brute") != truth:
            return bad("tie", "Lean hvBrute %s differs from the Python cell count %s" % (m.get("brute"), truth), w, tie=True)
        mv = m.get("ap" if ap else "default")
        if mv != got:
            return bad("tie", "hv model (%s) gives %s, the code %s" % ("assume_pareto" if ap else "default", mv, got), w, tie=True)
    return None


def true_volume_class(pts: list[list[float]], ref: list[float]) -> str:
    """'error' (a row does not weakly dominate the reference / NaN), 'inf' (Lebesgue measure infinite) or 'finite'."""
    for p in pts:
        for a, b in zip(p, ref):
            if not (a <= b):
                return "error"
    for p in pts:
        if all(a < b for a, b in zip(p, ref)) and any(a == -INF or b == INF for a, b in zip(p, ref)):
            return "inf"
    return "finite"


def judge_hv_special(cx: Ctx, case: dict[str, Any], model: dict[str, Any] | None = None, tie: bool = True) -> Bad | None:
    """rows / reference with +-inf and NaN (encoded): reference check, infinite => inf"""
    pts = [[dec(x) for x in p] for p in case["pts"]]
    ref = [dec(x) for x in case["ref"]]
    ap = bool(case.get("assume_pareto", False))
    cls = true_volume_class(pts, ref)
    got = call(cx.compute_hypervolume, np.array(pts, dtype=float), np.array(ref, dtype=float), assume_pareto=ap)
    obs = ("error" if got[1] == "ValueError" else "exc:" + got[1]) if isinstance(got, Exc) else as_int(got)
    w = dict(case, got=obs, volume_class=cls)
    if cls == "error":
        if obs != "error":
            return bad("reference-check", "a row does not weakly dominate the reference point (or NaN is present) but compute_hypervolume(%s, ref=%s) "
                       "returned %s instead of raising ValueError" % (case["pts"], case["ref"], obs), w)
    elif cls == "inf":
        if obs != "inf":
            return bad("infinite-volume-not-inf", "the dominated volume of %s below %s is infinite but compute_hypervolume returned %s" % (case["pts"], case["ref"], obs), w)
    else:
        finite = all(abs(x) != INF for x in itertools.chain(ref, *pts))
        if finite:
            ipts, iref = [[int(x) for x in p] for p in pts], [int(x) for x in ref]
            truth = brute_hv(ipts, iref)
            if obs != truth:
                return bad("wrong-volume", "compute_hypervolume(%s, ref=%s) = %s, dominated volume %s" % (case["pts"], case["ref"], obs, truth), dict(w, want=truth), dim=len(ref), assume_pareto=ap)
        elif isinstance(got, Exc):
            return bad("exception", "compute_hypervolume(%s, ref=%s) raised %s" % (case["pts"], case["ref"], got), w)
        elif not all(abs(x) != INF for x in ref):
            # a non-finite reference point: the code answers inf whatever the rows are (pinned by the suite's
            # test_wfg_with_inf, where the only row TOUCHES the infinite reference coordinate); the dominated volume of
            # rows none of which is strictly below the reference point is 0.  Both answers are accepted.
            cx.chk.count("hv-special:non-finite reference, no row strictly below (inf by convention or 0)")
            if obs not in ("inf", 0):
                return bad("degenerate-box-wrong-volume", "no row is strictly below the non-finite reference point %s but compute_hypervolume(%s) returned %s (neither inf nor 0)" % (
                    case["ref"], case["pts"], obs), w, dim=len(ref), assume_pareto=ap)
        else:
            # finite reference point; every row with a -inf coordinate touches the reference point in another coordinate,
            # i.e. dominates a box of zero volume: the dominated volume is that of the rows strictly below the reference
            proper = [[int(x) for x in p] for p in pts if all(a < b for a, b in zip(p, ref))]
            truth = brute_hv(proper, [int(x) for x in ref]) if proper else 0
            if obs != truth:
                return bad("degenerate-box-wrong-volume", "every row with an infinite extent touches the reference point in another coordinate (a box of zero "
                           "volume), so the dominated volume of %s below %s is %s, but compute_hypervolume returned %s" % (case["pts"], case["ref"], truth, obs),
                           dict(w, want=truth), dim=len(ref), assume_pareto=ap)
    if tie:
        m = model if model is not None else ask_model({"op": "hv", "pts": case["pts"], "ref": case["ref"], "ap": ap})
        mobs = m.get("v") if m.get("k") == "fin" else m.get("k")
        finite = all(abs(x) != INF and x == x for x in itertools.chain(ref, *pts))
        if mobs != obs:
            return bad("tie", "hv model gives %s, the code %s" % (m, obs), w, tie=True)
    return None


def judge_front(cx: Ctx, case: dict[str, Any], model: dict[str, Any] | None = None, tie: bool = True) -> Bad | None:
    pts, assume = case["pts"], bool(case["assume_unique_lexsorted"])
    d = len(pts[0])
    got = call(cx.mo._is_pareto_front, fl(pts), assume)
    if isinstance(got, Exc):
        return bad("exception", "_is_pareto_front(%s, %s) raised %s" % (pts, assume, got), dict(case, got=got), dim=d)
    mask = [bool(x) for x in got]
    want = [not any(dominates(q, p) for q in pts) for p in pts]
    w = dict(case, got=mask, want=want)
    if not assume:
        if mask != want:
            return bad("wrong-front", "_is_pareto_front(%s, assume_unique_lexsorted=False) = %s, the non-dominated rows are %s" % (pts, mask, want), w, dim=d)
        return None
    kept = [p for p, k in zip(pts, mask) if k]
    for p, k in zip(pts, mask):
        if not k and not any(all(a <= b for a, b in zip(q, p)) for q in kept):
            return bad("drops-undominated-row", "_is_pareto_front(%s, True) drops %s although no kept row weakly dominates it" % (pts, p), w, dim=d)
    if pts == [list(p) for p in sorted({tuple(p) for p in pts})] and mask != want:
        return bad("wrong-front", "_is_pareto_front(%s, True) = %s on unique lexsorted rows; the non-dominated rows are %s" % (pts, mask, want), w, dim=d)
    if tie:
        m = model if model is not None else ask_model({"op": "front", "pts": pts, "d": d})
        if m.get("mask") != mask:
            return bad("tie", "front mask model %s, code %s" % (m.get("mask"), mask), w, tie=True)
    return None


def rank_nbelow_failure(real: list[int], truth: list[int], n_below: int | None, n: int) -> str | None:
    """Documented guarantee: ranks are exact for the best n_below rows (all levels up to the first level L at which
    at least n_below rows are ranked), every other row gets a rank greater than L."""
    nb = n_below or n
    levels = sorted(set(truth))
    acc, L = 0, levels[-1]
    for lev in levels:
        acc += sum(1 for t in truth if t == lev)
        if acc >= nb:
            L = lev
            break
    for i, (a, t) in enumerate(zip(real, truth)):
        if t <= L and a != t:
            return "row %d has peeling rank %d (within the top n_below=%s rows' levels) but got %d" % (i, t, n_below, a)
        if t > L and not a > L:
            return "row %d has peeling rank %d > %d but got %d" % (i, t, L, a)
    return None


def judge_rank(cx: Ctx, case: dict[str, Any], model: dict[str, Any] | None = None, tie: bool = True) -> Bad | None:
    pts, pen, nb = case["pts"], case.get("pen"), case.get("nb")
    n, d = len(pts), len(pts[0])
    penalty = None if pen is None else np.array([float("nan") if x is None else float(x) for x in pen])
    got = call(cx.mo._fast_non_domination_rank, fl(pts), penalty=penalty, n_below=nb)
    sig = dict(dim=d, penalty=pen is not None, n_below=nb is not None)
    if isinstance(got, Exc):
        return bad("exception", "_fast_non_domination_rank(%s, penalty=%s, n_below=%s) raised %s" % (pts, pen, nb, got), dict(case, got=got), **sig)
    real = [int(x) for x in got]
    truth = peel_ranks(pts, dominates) if pen is None else peel_ranks(list(zip(pts, pen)), cdom)
    w = dict(case, got=real, want=truth)
    why = None
    if nb is None:
        if real != truth:
            why = "ranks %s, repeated front peeling gives %s" % (real, truth)
    else:
        why = rank_nbelow_failure(real, truth, nb, n)
    if why is not None:
        return bad("wrong-rank", "_fast_non_domination_rank(%s, penalty=%s, n_below=%s): %s" % (pts, pen, nb, why), w, **sig)
    if tie:
        m = model if model is not None else ask_model({"op": "rank", "pts": pts, "d": d, "pen": pen, "nb": nb})
        if m.get("naive") != peel_ranks(pts, dominates):
            return bad("tie", "Lean naive peeling %s differs from the Python peeling" % (m.get("naive"),), w, tie=True)
        if m.get("ranks") != real:
            return bad("tie", "rank model %s, code %s" % (m.get("ranks"), real), w, tie=True)
    return None


def hssp_failures(pts: list[list[int]], ref: list[int], k: int, sel_pos: list[int], exhaustive: bool) -> tuple[str | None, str | None]:
    """(property failure, greedy-run failure).  Property: k distinct positions, hv(sel) >= (1-1/e) OPT_k.
    Greedy: every pick has maximal true marginal gain among the rows not yet picked."""
    n = len(pts)
    if len(sel_pos) != k or len(set(sel_pos)) != k or any(not (0 <= i < n) for i in sel_pos):
        return "selection %s is not %d distinct members" % (sel_pos, k), None
    masks, _ = cell_masks(pts, ref)
    if masks.shape[1] == 0:
        return None, None

    def hv_of(idx) -> int:
        idx = list(idx)
        return int(np.count_nonzero(masks[idx].any(axis=0))) if idx else 0

    prop = None
    got = hv_of(sel_pos)
    if exhaustive:
        best = max(hv_of(c) for c in itertools.combinations(range(n), k)) if k > 0 else 0
        if got < (1 - 1 / math.e) * best - 1e-9:
            prop = "hv(selection)=%d < (1-1/e)*%d, the best subset of size %d" % (got, best, k)
    greedy = None
    n_unique = len({tuple(p) for p in pts})
    if k < n and n_unique > k:
        covered = np.zeros(masks.shape[1], dtype=bool)
        for t, i in enumerate(sel_pos):
            gains = (masks & ~covered).sum(axis=1)
            rest = [j for j in range(n) if j not in sel_pos[:t]]
            if gains[i] != max(gains[j] for j in rest):
                greedy = "pick %d (row %d) has marginal gain %d but row %d has %d" % (
                    t, i, int(gains[i]), max(rest, key=lambda j: gains[j]), int(max(gains[j] for j in rest)))
                break
            covered |= masks[i]
    elif k < n and got != hv_of(range(n)):
        prop = prop or "no more than k unique rows but the selection does not cover all of them: hv %d < %d" % (got, hv_of(range(n)))
    return prop, greedy


def judge_hssp(cx: Ctx, case: dict[str, Any], model: dict[str, Any] | None = None, tie: bool = True) -> Bad | None:
    pts, ref, k = case["pts"], case["ref"], case["k"]
    n, d = len(pts), len(ref)
    labels = case.get("labels") or list(range(n))
    got = call(cx.solve_hssp, fl(pts), np.array(labels), k, np.array(ref, dtype=float))
    if isinstance(got, Exc):
        return bad("exception", "_solve_hssp(%s, k=%d, ref=%s) raised %s" % (pts, k, ref, got), dict(case, got=got), dim=d)
    sel = [int(x) for x in np.asarray(got).reshape(-1)]
    w = dict(case, got=sel)
    if any(s not in labels for s in sel):
        return bad("not-members", "_solve_hssp returned %s, not all members of rank_i_indices %s" % (sel, labels), w, dim=d)
    pos = [labels.index(s) for s in sel]
    w["positions"] = pos
    prop, greedy = hssp_failures(pts, ref, k, pos, exhaustive=n <= 9)
    if prop is not None:
        return bad("subset-guarantee", "_solve_hssp(%s, k=%d, ref=%s) -> positions %s: %s" % (pts, k, ref, pos, prop), w, dim=d)
    if tie:
        if greedy is not None and not (d == 2 and not is_antichain(pts)):
            # (2-D: _solve_hssp_2d is specified for mutually non-dominated rows only, which is what the sampler passes)
            return bad("tie", "_solve_hssp output %s is not a greedy run: %s" % (pos, greedy), w, tie=True)
        m = model if model is not None else ask_model({"op": "hssp", "pts": pts, "ref": ref, "k": k, "finite": True})
        if m.get("sel") != pos:
            return bad("tie", "hssp model selects %s, the code %s" % (m.get("sel"), pos), w, tie=True)
    return None


JUDGES = {"hv": judge_hv, "hv-special": judge_hv_special, "front": judge_front, "rank": judge_rank, "hssp": judge_hssp}
FN = {"hv": "compute_hypervolume", "hv-special": "compute_hypervolume", "front": "_is_pareto_front",
      "rank": "_fast_non_domination_rank", "hssp": "_solve_hssp"}


def shrink(cx: Ctx, stage: str, case: dict[str, Any], b: Bad) -> tuple[dict[str, Any], Bad]:
    """delta-debug the row list (and the lists parallel to it) while the same kind of failure persists"""
    if stage == "hv-special" or HANGS[0]:
        return case, b
    n = len(case["pts"])
    par = [key for key in ("pen", "labels") if case.get(key) is not None]
    last: dict[str, Any] = {"case": case, "bad": b}

    def build(idx: list[int]) -> dict[str, Any]:
        c = dict(case, pts=[case["pts"][i] for i in idx])
        for key in par:
            c[key] = [case[key][i] for i in idx]
        if stage == "hssp":
            c["k"] = min(case["k"], len(idx))
        if stage == "rank" and c.get("nb") is not None:
            c["nb"] = max(1, min(c["nb"], len(idx)))
        return c

    def fails(idx: list[int]) -> bool:
        c = build(idx)
        try:
            r = JUDGES[stage](cx, c, None, tie=b["tie"])
        except (AbortRun, core.DriverBroken):
            return False
        if r is not None and r["kind"] == b["kind"] and r["tie"] == b["tie"]:
            last["case"], last["bad"] = c, r
            return True
        return False

    core.ddmin(list(range(n)), fails, budget=150)
    return last["case"], last["bad"]


def report(cx: Ctx, stage: str, case: dict[str, Any], b: Bad, shrunk: set[str]) -> None:
    chk = cx.chk
    key = "%s/%s/%s" % (stage, b["kind"], b["tie"])
    if key not in shrunk and len(shrunk) < 6:  # minimise the first failure of each kind
        shrunk.add(key)
        case, b = shrink(cx, stage, case, b)
    if b["tie"]:
        chk.broke("correspondence", {"stage": stage, "case": case, "what": b["msg"][:400]})
    else:
        chk.violation(dict({"fn": FN[stage], "kind": b["kind"]}, **b["sig"]), dict(b["witness"], stage=stage, case=case), b["msg"])


def run_cases(cx: Ctx, stage: str, cases: list[dict[str, Any]], reqs: list[dict[str, Any]], shrunk: set[str], nontriv) -> None:
    chk = cx.chk
    models = core.driver_batch(G15.DRIVER, reqs) if reqs else [None] * len(cases)
    for case, m in zip(cases, models):
        chk.case(dict(case, fn=FN[stage]), nontrivial=nontriv(case))
        if m is not None and m.get("k") in ("bad-op", "bad-json"):
            chk.broke("correspondence", {"stage": stage, "case": case, "what": "driver rejected the case: %s" % m})
            continue
        G15.note(chk, stage, case, m)   # "gen": interpreters of the IR generated from wfg.py vs the hand model (driver `hvgen`)
        b = JUDGES[stage](cx, case, m)
        if b is not None:
            report(cx, stage, case, b, shrunk)
        chk.traces_validated += 1


# ------------------------------------------------------------------------------------------------
# stages
# ------------------------------------------------------------------------------------------------
def stage_hv_lattice(cx: Ctx, n_cases: int, max_n: int, shrunk: set[str]) -> None:
    chk, r = cx.chk, cx.chk.rng
    sets = [(c["pts"], c["ref"]) for c in core.corpus_cases("C15") if c.get("stage") == "hv"]
    for _ in range(n_cases):
        d = r.choice([1, 2, 2, 3, 3, 3, 4, 4, 5])
        n = r.randint(1, max_n if d < 5 else min(max_n, 7))
        pts = gen_points(r, d, n)
        sets.append((pts, gen_ref(r, pts)))
    if chk.seed == 0 or chk.tier == "thorough":
        # small exhaustive family: every multiset of <=3 rows over {0,1,2}^2, touching and non-touching reference
        grid = [list(p) for p in itertools.product(range(3), repeat=2)]
        for k in (1, 2, 3):
            for comb in itertools.combinations_with_replacement(grid, k):
                sets.append(([list(p) for p in comb], [2, 2]))
                sets.append(([list(p) for p in comb], [3, 3]))
    # 2-D inputs that are NOT what assume_pareto assumes: dominated rows, rows tied in column 0 (either order), duplicates
    sets += [([[0, 0], [2, 3]], [4, 6]), ([[0, 0], [1, 1]], [2, 2]), ([[1, 2], [1, 1], [1, 3]], [4, 4]), ([[1, 1], [1, 2], [1, 3]], [4, 4]),
             ([[0, 3], [1, 2], [1, 1], [1, 1], [2, 3], [3, 0]], [4, 4]), ([[2, 2], [2, 2], [0, 3], [0, 3], [3, 3]], [3, 4])]
    for _ in range(max(40, n_cases // 10)):
        n = r.randint(2, max_n)
        pts = [[r.randint(0, 3), r.randint(0, 5)] for _ in range(n)]
        pts += [list(r.choice(pts)) for _ in range(r.randint(0, 2))]
        r.shuffle(pts)
        sets.append((pts, gen_ref(r, pts)))
    cases, reqs = [], []
    for pts, ref in sets:
        d = len(ref)
        chk.count("hv:dim=%d" % d)
        if d == 2 and not is_antichain(pts):
            chk.count("hv:2d assume_pareto on non-Pareto rows")
        if d == 2 and len({p[0] for p in pts}) < len(pts):
            chk.count("hv:2d rows tied in column 0")
        chk.count("hv:branch=%s" % ("2d-sweep" if d == 2 else "1pt" if len({tuple(p) for p in pts}) == 1 else
                                    "2pt" if len({tuple(p) for p in pts}) == 2 else "wfg"))
        for ap in (False, True):
            cases.append({"pts": pts, "ref": ref, "assume_pareto": ap})
            reqs.append({"op": "hvfin", "pts": pts, "ref": ref, "brute": True})
    run_cases(cx, "hv", cases, reqs, shrunk, lambda c: nontrivial(c["pts"]))


def stage_hv_special(cx: Ctx, n_cases: int, shrunk: set[str]) -> None:
    chk, r = cx.chk, cx.chk.rng
    sets: list[tuple[list[list[float]], list[float]]] = [
        ([[-INF, 5.0]], [5.0, 5.0]),
        ([[INF, 0.0]], [INF, 1.0]),
        ([[0.0, 1.0]], [INF, 1.0]),
        ([[0.0, -INF]], [1.0, -INF]),
        ([[0.0, 2.0]], [1.0, 1.0]),
        ([[0.0, float("nan")]], [1.0, 1.0]),
        ([[0.0, 0.0]], [1.0, float("nan")]),
        ([[-INF, 4.0], [1.0, 1.0]], [5.0, 5.0]),
    ]
    for _ in range(n_cases):
        d = r.choice([1, 2, 3, 4])
        ipts = gen_points(r, d, r.randint(1, 5), hi=4)
        n = len(ipts)
        pts = [[float(x) for x in p] for p in ipts]
        ref = [float(x) for x in gen_ref(r, ipts, hi=4)]
        for _ in range(r.randint(1, 3)):
            what = r.random()
            i = r.randrange(d)
            if what < 0.35:
                pts[r.randrange(n)][i] = -INF
            elif what < 0.6:
                ref[i] = INF
                if r.random() < 0.4:
                    pts[r.randrange(n)][i] = INF
            elif what < 0.7:
                ref[i] = -INF
                for p in pts:
                    p[i] = -INF
            elif what < 0.8:
                pts[r.randrange(n)][i] = INF
            elif what < 0.9:
                (pts[r.randrange(n)] if r.random() < 0.7 else ref)[i] = float("nan")
            else:
                pts[r.randrange(n)][i] = ref[i] + 1.0
        if d >= 2 and r.random() < 0.3:
            # a degenerate infinite box (repaired F23): a row that touches the reference point in one coordinate and is -inf in another
            k, (i, j) = r.randrange(n), r.sample(range(d), 2)
            if all(math.isfinite(x) for x in ref):
                pts[k][i], pts[k][j] = ref[i], -INF
        sets.append((pts, ref))
    sets += [([[-INF, 5.0], [1.0, 1.0]], [5.0, 5.0]), ([[-INF, 5.0, 1.0], [1.0, 1.0, 1.0], [2.0, -INF, 5.0]], [5.0, 5.0, 5.0]),
             ([[3.0, -INF], [3.0, -INF]], [3.0, 4.0])]
    cases, reqs = [], []
    for pts, ref in sets:
        chk.count("hv-special:%s" % true_volume_class(pts, ref))
        if true_volume_class(pts, ref) == "finite" and any(x == -INF for p in pts for x in p) and all(math.isfinite(x) for x in ref):
            chk.count("hv-special:degenerate infinite box (touching row with -inf)")
        for ap in (False, True):
            c = {"pts": [[enc(x) for x in p] for p in pts], "ref": [enc(x) for x in ref], "assume_pareto": ap}
            cases.append(c)
            reqs.append({"op": "hv", "pts": c["pts"], "ref": c["ref"], "ap": ap})
    run_cases(cx, "hv-special", cases, reqs, shrunk, lambda c: len(c["pts"]) >= 2)


def stage_hv_continuous(cx: Ctx, n_cases: int) -> None:
    """float sets: the Lean WFG model on exactly scaled integers == inclusion-exclusion (exact); the code within 1e-9"""
    chk, r = cx.chk, cx.chk.rng
    nprng = np.random.RandomState(chk.seed * 7919 + 15)
    cases = []
    for _ in range(n_cases):
        d = r.choice([1, 2, 3, 3, 4, 5])
        n = r.randint(1, 9)
        kind = r.random()
        if kind < 0.5:
            pts = nprng.uniform(-1.0, 1.0, size=(n, d))
        elif kind < 0.8:  # near-Pareto: points on a sphere-like front
            raw = np.abs(nprng.normal(size=(n, d))) + 1e-3
            pts = 1.0 - raw / np.linalg.norm(raw, axis=1, keepdims=True)
        else:  # ties and duplicates in floats
            base = nprng.uniform(0, 1, size=(3, d))
            pts = base[nprng.randint(0, 3, size=(n, d)), np.arange(d)]
        ref = pts.max(axis=0) + (nprng.uniform(0, 0.5, size=d) if r.random() < 0.8 else 0.0)
        cases.append((pts, np.asarray(ref, dtype=float)))
    reqs, scales = [], []
    for pts, ref in cases:
        fr = [[Fraction(float(x)) for x in p] for p in pts]
        frr = [Fraction(float(x)) for x in ref]
        den = max(x.denominator for x in itertools.chain(frr, *fr))
        scales.append(den)
        reqs.append({"op": "hvfin", "pts": [[int(x * den) for x in p] for p in fr], "ref": [int(x * den) for x in frr]})
    models = core.driver_batch(G15.DRIVER, reqs)
    worst = 0.0
    for (pts, ref), den, m in zip(cases, scales, models):
        G15.note(chk, "hv-continuous", {"pts": [[float(x).hex() for x in p] for p in pts], "ref": [float(x).hex() for x in ref]}, m)
        d = len(ref)
        fr = [[Fraction(float(x)) for x in p] for p in pts]
        frr = [Fraction(float(x)) for x in ref]
        truth = incl_excl(fr, frr)
        w = {"pts": [[float(x).hex() for x in p] for p in pts], "ref": [float(x).hex() for x in ref], "stage": "hv-continuous"}
        chk.case(dict(w, fn="compute_hypervolume"), nontrivial=len(pts) >= 3)
        chk.count("hv-cont:dim=%d" % d)
        if Fraction(m["default"], den ** d) != truth:
            chk.broke("correspondence", {"stage": "hv-continuous", "case": w, "what": "Lean WFG model %s differs from inclusion-exclusion %s (exact rationals)" % (
                Fraction(m["default"], den ** d), truth)})
        for ap in (False, True):
            got = call(cx.compute_hypervolume, pts.copy(), ref.copy(), assume_pareto=ap)
            if isinstance(got, Exc):
                chk.violation({"fn": "compute_hypervolume", "kind": "exception"}, dict(w, got=got, assume_pareto=ap), "compute_hypervolume raised %s on %s" % (got, w))
                continue
            err = abs(Fraction(float(got)) - truth) if math.isfinite(float(got)) else Fraction(10 ** 9)
            rel = float(err) / max(float(truth), 1e-300)
            worst = max(worst, rel) if truth > 0 else worst
            if rel > 1e-9 and float(err) > 1e-15:
                chk.violation({"fn": "compute_hypervolume", "kind": "wrong-volume-float", "dim": d, "assume_pareto": ap},
                              dict(w, got=float(got).hex(), want=str(truth), assume_pareto=ap),
                              "compute_hypervolume = %r but the exact dominated volume is %r (relative error %.3g) for rows %s ref %s" % (
                                  float(got), float(truth), rel, pts.tolist(), ref.tolist()))
        chk.traces_validated += 1
    chk.extra["max_relative_error_continuous"] = worst


def stage_front(cx: Ctx, n_cases: int, shrunk: set[str]) -> None:
    chk, r = cx.chk, cx.chk.rng
    cases, reqs = [], []
    for _ in range(n_cases):
        d = r.choice([1, 2, 2, 3, 3, 4, 5])
        pts = gen_points(r, d, r.randint(1, 9))
        chk.count("front:dim=%d" % d)
        # (a) arbitrary array, assume_unique_lexsorted=False: exactly the non-dominated rows
        cases.append({"pts": pts, "assume_unique_lexsorted": False})
        reqs.append({"op": "front", "pts": pts, "d": d})
        # (b) column-0-sorted array (unique lexsorted half of the time): the model's mask, nothing undominated is dropped
        if r.random() < 0.5:
            arr = [list(p) for p in sorted({tuple(p) for p in pts})]
        else:
            arr = [list(p) for p in sorted((tuple(p) for p in pts), key=lambda p: p[0])]
        cases.append({"pts": arr, "assume_unique_lexsorted": True})
        reqs.append({"op": "front", "pts": arr, "d": d})
    run_cases(cx, "front", cases, reqs, shrunk, lambda c: nontrivial(c["pts"]))


def stage_rank(cx: Ctx, n_cases: int, shrunk: set[str]) -> None:
    chk, r = cx.chk, cx.chk.rng
    cases = [{"pts": c["pts"], "pen": c.get("pen"), "nb": c.get("nb")} for c in core.corpus_cases("C15") if c.get("stage") == "rank"]
    for _ in range(n_cases):
        d = r.choice([1, 2, 2, 3, 3, 4, 5])
        pts = gen_points(r, d, r.randint(1, 10))
        n = len(pts)
        pen = None
        if r.random() < 0.45:
            pen = [r.choice([None, -1, 0, 0, 1, 1, 2, 3]) for _ in range(n)]
            if r.random() < 0.2:
                pen = [x if x is not None else 0 for x in pen]
        nb = None if r.random() < 0.5 else r.randint(1, n)
        cases.append({"pts": pts, "pen": pen, "nb": nb})
    for c in cases:
        chk.count("rank:dim=%d%s%s" % (len(c["pts"][0]), " penalty" if c["pen"] is not None else "", " n_below" if c["nb"] is not None else ""))
    reqs = [{"op": "rank", "pts": c["pts"], "d": len(c["pts"][0]), "pen": c["pen"], "nb": c["nb"]} for c in cases]
    run_cases(cx, "rank", cases, reqs, shrunk, lambda c: nontrivial(c["pts"]))
    # infinities: replacing, per coordinate, the smallest value by -inf and the largest by +inf is an order isomorphism,
    # so ranks and fronts must not change
    for c in cases[::4]:
        pts = c["pts"]
        d = len(pts[0])
        lo = [min(p[i] for p in pts) for i in range(d)]
        hi = [max(p[i] for p in pts) for i in range(d)]
        arr = np.array([[(-INF if p[i] == lo[i] and lo[i] != hi[i] else INF if p[i] == hi[i] and lo[i] != hi[i] else float(p[i]))
                         for i in range(d)] for p in pts], dtype=float).reshape(len(pts), d)
        penalty = None if c["pen"] is None else np.array([float("nan") if x is None else float(x) for x in c["pen"]])
        got = call(cx.mo._fast_non_domination_rank, arr, penalty=penalty, n_below=None)
        truth = peel_ranks(pts, dominates) if c["pen"] is None else peel_ranks(list(zip(pts, c["pen"])), cdom)
        chk.count("rank:with-infinities")
        chk.case({"fn": "_fast_non_domination_rank", "pts": [[enc(x) for x in p] for p in arr.tolist()], "pen": c["pen"]}, nontrivial=nontrivial(pts))
        if isinstance(got, Exc) or [int(x) for x in got] != truth:
            chk.violation({"fn": "_fast_non_domination_rank", "kind": "wrong-rank-with-infinities", "dim": d},
                          {"pts": [[enc(x) for x in p] for p in arr.tolist()], "pen": c["pen"], "got": str(got), "want": truth},
                          "_fast_non_domination_rank(%s, penalty=%s) = %s, peeling gives %s" % (arr.tolist(), c["pen"], got, truth))
        got = call(cx.mo._is_pareto_front, arr, False)
        want = [t == 0 for t in peel_ranks(pts, dominates)]
        if isinstance(got, Exc) or [bool(x) for x in got] != want:
            chk.violation({"fn": "_is_pareto_front", "kind": "wrong-front-with-infinities", "dim": d},
                          {"pts": [[enc(x) for x in p] for p in arr.tolist()], "got": str(got), "want": want},
                          "_is_pareto_front(%s, False) = %s, non-dominated rows are %s" % (arr.tolist(), got, want))


def gen_hssp_case(r: random.Random, it: int, max_n: int) -> dict[str, Any]:
    if it % 3 == 0:
        # what the lazy update is for: one non-domination rank in >= 3 dimensions with many ties between stored
        # upper bounds and exact contributions (small coordinate range), several picks
        d = r.choice([3, 3, 4, 5])
        hi = r.choice([2, 3, 4, 6])
        want = r.randint(4, max_n if d < 5 else min(max_n, 7))
        pts: list[list[int]] = []
        for _ in range(60):
            p = [r.randint(0, hi) for _ in range(d)]
            if all(not dominates(p, q) and not dominates(q, p) and p != q for q in pts):
                pts.append(p)
            if len(pts) >= want:
                break
        if r.random() < 0.25:
            pts += [list(r.choice(pts))]
        r.shuffle(pts)
        n = len(pts)
        ref = [max(p[i] for p in pts) + r.randint(1, 2) for i in range(d)]
        k = r.randint(2, max(2, n - 1)) if n >= 3 else r.randint(0, n)
    else:
        d = r.choice([1, 2, 2, 3, 3, 3, 4, 5])
        pts = gen_points(r, d, r.randint(1, max_n if d < 5 else min(max_n, 7)))
        if r.random() < 0.55:  # what the sampler passes: one non-domination rank (duplicates allowed)
            rk = peel_ranks(pts, dominates)
            lev = r.choice(sorted(set(rk)))
            pts = [p for p, t in zip(pts, rk) if t == lev]
        n = len(pts)
        ref = gen_ref(r, pts)
        if r.random() < 0.7:
            ref = [x + 1 for x in ref]
        k = r.randint(0, n)
    labels = list(range(100, 100 + n))
    r.shuffle(labels)
    return {"pts": pts, "ref": ref, "k": k, "labels": labels}


def hssp_branch(c: dict[str, Any]) -> str:
    n, d, k = len(c["pts"]), len(c["ref"]), c["k"]
    nu = len({tuple(p) for p in c["pts"]})
    return "k=n" if k == n else "dups" if nu < k else "unique=k" if nu == k else "2d" if d == 2 else "lazy-greedy(k=%s)" % (k if k < 3 else ">=3")


def stage_hssp(cx: Ctx, n_cases: int, max_n: int, shrunk: set[str]) -> None:
    chk, r = cx.chk, cx.chk.rng
    cases = [{"pts": c["pts"], "ref": c["ref"], "k": c["k"], "labels": c.get("labels")} for c in core.corpus_cases("C15") if c.get("stage") == "hssp"]
    cases += [gen_hssp_case(r, it, max_n) for it in range(n_cases)]
    for c in cases:
        chk.count("hssp:branch=%s" % hssp_branch(c))
    reqs = [{"op": "hssp", "pts": c["pts"], "ref": c["ref"], "k": c["k"], "finite": True} for c in cases]
    run_cases(cx, "hssp", cases, reqs, shrunk, lambda c: nontrivial(c["pts"]) and 0 < c["k"] < len(c["pts"]))
    # rows with -inf coordinates (finite reference): k distinct members, and a row of infinite volume is selected if there is one
    for _ in range(max(5, n_cases // 15)):
        d = r.choice([2, 3, 4])
        n = r.randint(2, 7)
        pts = [[r.choice([-INF, 0.0, 1.0, 2.0, 3.0]) for _ in range(d)] for _ in range(n)]
        k = r.randint(1, n)
        got = call(cx.solve_hssp, np.array(pts), np.arange(n), k, np.array([4.0] * d))
        chk.case({"fn": "_solve_hssp", "pts": [[enc(x) for x in p] for p in pts], "ref": [4] * d, "k": k}, nontrivial=n >= 3)
        chk.count("hssp:rows-with-neg-inf")

        def infinite(idx) -> bool:
            return any(all(x < 4.0 for x in pts[i]) and any(x == -INF for x in pts[i]) for i in idx)

        sel = None if isinstance(got, Exc) else [int(x) for x in got]
        if sel is None or len(set(sel)) != k or any(not (0 <= x < n) for x in sel) or (infinite(range(n)) and not infinite(sel)):
            chk.violation({"fn": "_solve_hssp", "kind": "rows-with-neg-inf"}, {"pts": [[enc(x) for x in p] for p in pts], "k": k, "ref": [4] * d, "got": str(got)},
                          "_solve_hssp(%s, k=%d, ref=%s) returned %s: not k distinct members, or a finite-volume selection although a row of infinite volume exists" % (pts, k, [4] * d, got))
    # non-finite reference point: first k labels, whatever the rows
    for _ in range(max(3, n_cases // 40)):
        d = r.choice([2, 3])
        pts = gen_points(r, d, r.randint(2, 6))
        n = len(pts)
        k = r.randint(0, n)
        ref = [INF] + [float(x) for x in gen_ref(r, pts)][1:]
        got = call(cx.solve_hssp, fl(pts), np.arange(n), k, np.array(ref))
        chk.case({"fn": "_solve_hssp", "pts": pts, "ref": "inf-first", "k": k}, nontrivial=False)
        chk.count("hssp:branch=nonfinite-ref")
        if isinstance(got, Exc) or len(set(int(x) for x in got)) != k or any(not (0 <= int(x) < n) for x in got):
            chk.violation({"fn": "_solve_hssp", "kind": "not-k-distinct"}, {"pts": pts, "k": k, "ref": [enc(x) for x in ref], "got": str(got)},
                          "_solve_hssp(%s, k=%d) with a non-finite reference returned %s" % (pts, k, got))


def stage_glue(cx: Ctx, n_cases: int) -> None:
    """the call sites: TPE's below/above split and NSGA-II's ranking of a population"""
    import optuna
    from optuna.samplers._base import _CONSTRAINTS_KEY
    from optuna.samplers._tpe import sampler as tpe
    from optuna.samplers.nsgaii._elite_population_selection_strategy import _rank_population

    optuna.logging.set_verbosity(optuna.logging.ERROR)
    chk, r = cx.chk, cx.chk.rng
    for _ in range(n_cases):
        d = r.choice([2, 2, 3, 4])
        pts = gen_points(r, d, r.randint(2, 10))
        n = len(pts)
        dirs = [r.choice(["minimize", "maximize"]) for _ in range(d)]
        sign = [1 if x == "minimize" else -1 for x in dirs]
        study = optuna.create_study(directions=dirs)
        cons = [None if r.random() < 0.15 else [r.choice([-1, 0, 0, 1, 2]), r.choice([-1, 0, 1])] for _ in range(n)]
        trials = []
        for i, p in enumerate(pts):
            t = optuna.trial.create_trial(values=[float(s * x) for s, x in zip(sign, p)], state=optuna.trial.TrialState.COMPLETE)
            t.number = i
            if cons[i] is not None:
                t.system_attrs = {_CONSTRAINTS_KEY: cons[i]}
            trials.append(t)
        truth = peel_ranks(pts, dominates)
        nb = r.randint(0, n)
        w = {"pts": pts, "dirs": dirs, "n_below": nb, "stage": "glue"}
        got = call(tpe._split_complete_trials_multi_objective, trials, study, nb)
        chk.case(dict(w, fn="_split_complete_trials_multi_objective"), nontrivial=nontrivial(pts) and 0 < nb < n)
        chk.count("glue:tpe-split")
        if isinstance(got, Exc):
            chk.violation({"fn": "_split_complete_trials_multi_objective", "kind": "exception"}, dict(w, got=got), "TPE split of %s (n_below=%d) raised %s" % (pts, nb, got))
        else:
            below = [t.number for t in got[0]]
            above = [t.number for t in got[1]]
            why = None
            if len(below) != nb or sorted(below + above) != list(range(n)):
                why = "below=%s above=%s is not a split with %d trials below" % (below, above, nb)
            elif below and above and max(truth[i] for i in below) > min(truth[i] for i in above):
                why = "a trial of peeling rank %d is below while one of rank %d is above" % (max(truth[i] for i in below), min(truth[i] for i in above))
            if why:
                chk.violation({"fn": "_split_complete_trials_multi_objective", "kind": "wrong-split"}, dict(w, below=below, above=above, ranks=truth),
                              "TPE split of %s directions %s (n_below=%d): %s" % (pts, dirs, nb, why))
        for constrained in (False, True):
            got = call(_rank_population, list(trials), study.directions, is_constrained=constrained)
            chk.count("glue:nsgaii-rank%s" % ("-constrained" if constrained else ""))
            chk.case({"fn": "_rank_population", "pts": pts, "dirs": dirs, "cons": cons if constrained else None}, nontrivial=nontrivial(pts))
            if constrained:
                pen = [None if c is None else sum(v for v in c if v > 0) for c in cons]
                want_rank = peel_ranks(list(zip(pts, pen)), cdom)
            else:
                want_rank = truth
            want = [[i for i in range(n) if want_rank[i] == lev] for lev in range(max(want_rank) + 1)]
            wr = {"pts": pts, "dirs": dirs, "cons": cons if constrained else None, "want": want, "stage": "glue"}
            if isinstance(got, Exc):
                chk.violation({"fn": "_rank_population", "kind": "exception"}, dict(wr, got=got), "_rank_population(%s) raised %s" % (pts, got))
            else:
                g = [[t.number for t in lev] for lev in got]
                if g != want:
                    chk.violation({"fn": "_rank_population", "kind": "wrong-fronts", "constrained": constrained}, dict(wr, got=g),
                                  "_rank_population(%s, %s, constraints=%s) = %s, peeling gives %s" % (pts, dirs, wr["cons"], g, want))
        chk.traces_validated += 1


# ------------------------------------------------------------------------------------------------
# search (only when the tie/proof broke and no violation is known): bigger hunt on the real code, property only
# ------------------------------------------------------------------------------------------------
def search(chk: core.Check) -> None:
    from verif.props import c15_nsga
    c15_nsga.search(chk)
    if chk.violations:
        return
    cx = Ctx(chk)
    r = chk.rng
    shrunk: set[str] = set()
    chk.search_log.append("property-directed search on the real code (no model): 4000 HSSP cases with the exhaustive optimum, 3000 hv cases, 2000 rank cases")
    try:
        for it in range(4000):
            if chk.violations:
                break
            c = gen_hssp_case(r, it, 9)
            b = judge_hssp(cx, c, None, tie=False)
            if b is not None:
                report(cx, "hssp", c, b, shrunk)
        for _ in range(3000):
            if chk.violations:
                break
            d = r.choice([1, 2, 3, 4, 5])
            pts = gen_points(r, d, r.randint(1, 10 if d < 5 else 7))
            for ap in (False, True):
                c = {"pts": pts, "ref": gen_ref(r, pts), "assume_pareto": ap}
                b = judge_hv(cx, c, None, tie=False)
                if b is not None:
                    report(cx, "hv", c, b, shrunk)
        for _ in range(2000):
            if chk.violations:
                break
            d = r.choice([2, 3, 4])
            pts = gen_points(r, d, r.randint(2, 10))
            c = {"pts": pts, "pen": None, "nb": r.choice([None, r.randint(1, len(pts))])}
            b = judge_rank(cx, c, None, tie=False)
            if b is not None:
                report(cx, "rank", c, b, shrunk)
    except AbortRun:
        pass
    chk.search_log.append("search finished; violations=%d" % len(chk.violations))


# ------------------------------------------------------------------------------------------------
def main(chk: core.Check) -> int:
    chk.rule = RULE
    from verif.props import c15_nsga as _nsga
    _nsga.translate(chk)  # T-nsga2: content keys of the NSGA-II functions mirrored by Model/Nsga2.lean
    G15.regenerate(chk)   # T-hv: wfg.py as written today -> Generated/HvMethods.lean; text of hssp.py / rank functions -> Generated/HvShapes.lean
    if not getattr(chk, "no_prove", False):
        chk.prove(G15.MODULES)
        G15.explain_proof_failure(chk)
    quick = chk.tier == "quick"
    shrunk: set[str] = set()
    if not quick and not getattr(chk, "no_prove", False):
        # independent kernel replay of the compiled proofs (DESIGN 1.2)
        mods = ["OptunaVerif.Props.C15", "OptunaVerif.Props.C15Nsga", "OptunaVerif.Lemmas.Hypervolume", "OptunaVerif.Lemmas.Rank", "OptunaVerif.Lemmas.Hssp", "OptunaVerif.Lemmas.HsspReal"]
        with core.lake_lock():
            rc, out, err = core.run(["lake", "env", "leanchecker"] + mods, cwd=core.LEAN_DIR, timeout=1500)
        chk.extra["leanchecker"] = {"modules": mods, "exit": rc}
        if rc != 0:
            chk.broke("proof", {"module": " ".join(mods), "reason": "leanchecker rejected the compiled proofs", "errors": (out + err)[-600:]})
    try:
        core.ensure_driver()
        cx = Ctx(chk)
        stage_hv_lattice(cx, 2500 if quick else 80000, 9 if quick else 11, shrunk)
        stage_hv_special(cx, 300 if quick else 10000, shrunk)
        stage_hv_continuous(cx, 400 if quick else 10000)
        stage_front(cx, 800 if quick else 25000, shrunk)
        stage_rank(cx, 1500 if quick else 50000, shrunk)
        stage_hssp(cx, 1800 if quick else 50000, 8 if quick else 9, shrunk)
        stage_glue(cx, 200 if quick else 6000)
        from verif.props import c15_nsga
        c15_nsga.correspond(chk, chk.tier)  # NSGA-II elite selection / crowding distance / whole-sampler replay
    except core.DriverBroken as e:
        chk.broke("correspondence", {"driver": str(e)[:800]})
    except AbortRun:
        chk.count("aborted-after-non-termination")
    chk.assumptions += [
        "lattice coordinates are exact in float64 (all products below 2^53), so integer results are compared exactly",
        "continuous sets: floats are scaled to integers by a common power of two; the Lean WFG model and the inclusion-exclusion "
        "oracle agree exactly, the float result of the code is accepted within relative 1e-9 (float rounding of sums/products is not modelled)",
        "a -inf coordinate (finite reference) makes some inclusive volume inf or nan and the code maps every non-finite result to inf: modelled as a branch, sampled not proved",
        "empty point sets are outside the domain (compute_hypervolume raises IndexError for them in 1-D)",
        "_solve_hssp in 2-D is only required to be a greedy run for mutually non-dominated rows (what the sampler passes); the (1-1/e) bound and k-distinctness are checked for every input",
        "numpy's argsort/argmax/unique behave as documented (ties: first maximum; unique: lexicographic rows, first-occurrence indices)",
    ]
    chk.trusted += ["verif/props/c15.py oracles: numpy cell counting, Fraction inclusion-exclusion, O(n^2) peeling, itertools exhaustive subsets"]
    return chk.finish(search=search)


def replay(chk: core.Check, path: str) -> int:
    rep = json.load(open(path))
    from verif.props import c15_nsga
    rc = c15_nsga.replay(chk, rep)
    if rc is not None:
        return rc
    cx = Ctx(chk)
    core.ensure_driver()
    if rep.get("kind") != "violation":
        # a broken tie / proof without a failing input: re-judge the recorded disagreeing cases
        again = 0
        for item in rep.get("no_longer_checks", []):
            det = item.get("detail", {})
            if item.get("what") == "correspondence" and det.get("stage") in JUDGES:
                b = JUDGES[det["stage"]](cx, det["case"], None)
                print("%s %s -> %s" % (det["stage"], json.dumps(det["case"])[:300], "still disagrees: " + b["msg"][:300] if b else "agrees now"))
                again += b is not None
            else:
                print("recorded: %s" % json.dumps(item)[:600])
                if item.get("what") == "proof":
                    res = core.lean_prove(["OptunaVerif.Props.C15"])
                    again += not res.ok
        if again:
            print("REPRODUCED: %d recorded item(s) still do not check" % again)
            return 1
        print("not reproduced")
        return 0
    w = rep["witness"]
    stage = w.get("stage")
    if stage in JUDGES:
        b = JUDGES[stage](cx, w["case"], None, tie=False)
        print("%s(%s)" % (FN[stage], json.dumps(w["case"])[:800]))
        if b is not None:
            print("REPRODUCED: %s" % b["msg"][:700])
            return 1
        print("not reproduced")
        return 0
    if stage == "hv-continuous":
        pts = np.array([[float.fromhex(x) for x in p] for p in w["pts"]])
        ref = np.array([float.fromhex(x) for x in w["ref"]])
        got = call(cx.compute_hypervolume, pts, ref, assume_pareto=bool(w.get("assume_pareto", False)))
        truth = incl_excl([[Fraction(float(x)) for x in p] for p in pts], [Fraction(float(x)) for x in ref])
        print("compute_hypervolume(%s, %s) = %s ; exact %r" % (pts.tolist(), ref.tolist(), got, float(truth)))
        okv = not isinstance(got, Exc) and abs(Fraction(float(got)) - truth) <= Fraction(1, 10 ** 9) * truth
        print("not reproduced" if okv else "REPRODUCED: %s" % rep.get("message", "")[:500])
        return 0 if okv else 1
    # glue and the non-finite-reference HSSP case: re-run the stage with the recorded seed
    chk.rng = random.Random(int(rep.get("seed", 0)) * 1000003 + 15)
    print("re-running the call-site stage with seed %s; recorded witness: %s" % (rep.get("seed"), json.dumps(w)[:800]))
    stage_glue(cx, 600)
    if chk.violations:
        print("REPRODUCED: %s" % chk.violations[0]["message"][:600])
        return 1
    print("not reproduced")
    return 0
