"""C15, translator tie: optuna/_hypervolume/wfg.py as written in the source today -> Lean data -> proved equal to the hand model
(Props/C15Gen: _compute_2d, _compute_hv / _compute_exclusive_hv, compute_hypervolume for ALL inputs); hssp.py (part 2) and the two rank functions (part 3: Generated/RankMethods.lean,
Model/RankIR.lean, gen_calculate_rank_eq / gen_fast_rank_eq) are interpreted as well; every function in scope keeps its normalised-text pin (`*_shape`).  Props/C15GenSpec restates the hypervolume theorems of Props/C15 for the interpreters.

regenerate(chk)   Generated/HvShapes.lean (always) + Generated/HvMethods.lean (whitelisted shapes; else chk.broke("translation") and the file
                  stays as it was).  Call BEFORE chk.prove(MODULES).
DRIVER            `hvgen`: protocol of `hypervolume`; `hv` / `hvfin` answers carry "gen" (null = generated compute_hypervolume agrees with the
                  hand model on this input).
explain_proof_failure(chk)   NAMED declarations of Props/C15Gen.lean / C15GenSpec.lean that no longer check.
To accept a reviewed upstream change of a pinned function: /venv/bin/python -m verif.translators.thv --accept <repo>   (rewrites Lemmas/HvExpected.lean)
"""
from __future__ import annotations

import os
import re
from typing import Any

from verif import core
from verif.translators import thv

MODULE = "OptunaVerif.Props.C15Gen"
MODULE_SPEC = "OptunaVerif.Props.C15GenSpec"
MODULES = ["OptunaVerif.Props.C15", "OptunaVerif.Props.C15Nsga", MODULE, MODULE_SPEC]
DRIVER = "hvgen"

ASSUMPTION = ("T-hv: the IR's numpy primitives mean what Model/HvIR.lean says (a[:, k], a[i], a[:-1], np.minimum.accumulate, np.append, "
              "'-' with row broadcast, np.maximum, np.prod(axis=-1) / np.prod / np.sum, '@', np.all(a <cmp> ref[, axis=1]), np.isfinite, boolean row "
              "selection, np.unique(axis=0) = uniqueLex, a[a[:, 0].argsort()] = a stable sort by column 0, S[:, np.newaxis] pair-maximum + suffix slices); "
              "_is_pareto_front(., assume_unique_lexsorted=True) inside _compute_exclusive_hv / compute_hypervolume is the hand model's frontSorted "
              "(its own translation is C12Gen's gen_front_assume_sorted; the bridge between the two hand models of the front is not proved); "
              "IEEE: a remaining non-finite coordinate makes hv non-finite (modelled as in the hand model, sampled by the tie); hssp.py and the rank "
              "functions: only their normalised text is pinned against the reviewed snapshot Lemmas/HvExpected.lean; "
              "hssp.py part 2: _solve_hssp is interpreted (index-array primitives of Model/HsspIR.lean: np.unique(return_index) = uniqueLex + first positions, "
              "m[idx] = True, ~m, a[mask], a[idx] (an out-of-range index is ignored / reads 0 where numpy raises), a[:n], np.setdiff1d, np.append); "
              "_solve_hssp_on_unique_loss_vals is a record of holes over a fixed loop skeleton (first-maximum argmax, which arrays drop the pick, break at "
              "the last pick, the slice handed to the lazy update, result through rank_i_indices) - statement order and everything else of its body is "
              "checked syntactically by the translator; _lazy_contribs_update and _solve_hssp_2d remain text pins; "
              "rank functions part 3: _calculate_nondomination_rank and _fast_non_domination_rank are interpreted (statement lists of Model/RankIR.lean: "
              "np.unique(axis=0, return_inverse=True) = uniqueLex + position of every row, np.unique(a[:, 0], return_inverse=True)[1], x[idx] = v / x[mask] = v "
              "scatter writes (a write that does not fit is ignored where numpy raises), a[mask], a[idx], ~m, np.logical_and, np.isnan / <= 0 / > 0 on the penalty "
              "vector with NaN = none, np.count_nonzero, np.max(initial=), k + a, p[:, np.newaxis], the while loop with an explicit bound n_unique, Python's "
              "short-circuit and/or, `a or b`); _is_pareto_front(., True) is a parameter of that interpreter (the hand model's frontSorted in the theorems and the "
              "driver); the constrained branch is proved equal to the three-scatter reference fastRef, and fastRef equal to Rank.fastRank "
              "(Lemmas/RankBridge2.lean), for penalty vectors of the right length")


def regenerate(chk: core.Check | None = None) -> dict[str, Any] | None:
    text_s, shapes = thv.shapes(core.REPO)
    ch1 = core.write_if_changed(os.path.join(core.LEAN_DIR, thv.SHAPES_REL), text_s)
    info = None
    try:
        text, info = thv.translate(core.REPO)
        ch2 = core.write_if_changed(os.path.join(core.LEAN_DIR, thv.METHODS_REL), text)
    except (thv.Untranslatable, SyntaxError, OSError, IndexError, AttributeError, KeyError) as e:
        if chk is None:
            raise
        ch2 = False
        chk.broke("translation", {"translator": "T-hv", "source": thv.WFG, "why": ("%s: %s" % (type(e).__name__, e))[:600]})
    try:
        text_h, info_h = thv.translate_hssp(core.REPO)
        ch3 = core.write_if_changed(os.path.join(core.LEAN_DIR, thv.HSSP_METHODS_REL), text_h)
        if chk is not None:
            chk.translated.append("optuna/_hypervolume/hssp.py: _solve_hssp (one index-array expression), _solve_hssp_on_unique_loss_vals (greedy-loop record; "
                                  "_lazy_contribs_update and _solve_hssp_2d are parameters) -> lean/OptunaVerif/Generated/HsspMethods.lean%s" % (" (changed)" if ch3 else ""))
            chk.extra["hssp_ir"] = {k: v[:500] for k, v in info_h["fields"].items()}
    except (thv.Untranslatable, SyntaxError, OSError, IndexError, AttributeError, KeyError, ValueError) as e:
        if chk is None:
            raise
        chk.broke("translation", {"translator": "T-hv", "source": thv.HSSP, "why": ("%s: %s" % (type(e).__name__, e))[:600]})
    try:
        text_r, info_r = thv.translate_rank(core.REPO)
        ch4 = core.write_if_changed(os.path.join(core.LEAN_DIR, thv.RANK_METHODS_REL), text_r)
        if chk is not None:
            chk.translated.append("optuna/study/_multi_objective.py: _calculate_nondomination_rank, _fast_non_domination_rank (statement lists over named numpy "
                                  "primitives; _is_pareto_front(., True) is a parameter) -> lean/OptunaVerif/Generated/RankMethods.lean%s" % (" (changed)" if ch4 else ""))
            chk.extra["rank_ir"] = {k: v[:700] for k, v in info_r["fields"].items()}
    except (thv.Untranslatable, SyntaxError, OSError, IndexError, AttributeError, KeyError, ValueError) as e:
        if chk is None:
            raise
        chk.broke("translation", {"translator": "T-hv", "source": thv.MO, "why": ("%s: %s" % (type(e).__name__, e))[:600]})
    if chk is not None:
        chk.translated.append("optuna/_hypervolume/wfg.py: _compute_2d, _compute_hv, _compute_exclusive_hv, compute_hypervolume -> "
                              "lean/OptunaVerif/Generated/HvMethods.lean%s; normalised text of these + hssp.py (4 functions) + _fast_non_domination_rank / "
                              "_calculate_nondomination_rank -> Generated/HvShapes.lean%s" % (" (changed)" if ch2 else "", " (changed)" if ch1 else ""))
        if info is not None:
            chk.extra["hv_ir"] = {"sha1_of_source": info["sha1_of_source"], "fields": {k: v[:400] for k, v in info["fields"].items()}}
        if ASSUMPTION not in chk.assumptions:
            chk.assumptions.append(ASSUMPTION)
    return info


def explain_proof_failure(chk: core.Check) -> list[str]:
    pr = chk.proof
    if pr is None or pr.ok:
        return []
    names: list[str] = []
    for rel in ("OptunaVerif/Props/C15Gen.lean", "OptunaVerif/Props/C15GenSpec.lean", "OptunaVerif/Lemmas/RankIR.lean", "OptunaVerif/Lemmas/RankBridge.lean", "OptunaVerif/Lemmas/RankBridge2.lean"):
        short = rel.split("OptunaVerif/", 1)[1]
        lines = sorted({int(m.group(1)) for m in re.finditer(re.escape(short) + r":(\d+):\d+: error", pr.build_log)}
                       | {int(m.group(1)) for m in re.finditer(r"error: \S*" + re.escape(short) + r":(\d+):", pr.build_log)})
        if not lines:
            continue
        src = open(os.path.join(core.LEAN_DIR, rel)).read().splitlines()
        for ln in lines:
            name = None
            for i in range(min(ln, len(src)) - 1, -1, -1):
                m = re.match(r"\s*(?:theorem|def|example)\b\s*([^\s:(]*)", src[i])
                if m:
                    name = m.group(1) or ("example at %s:%d: %s" % (short, i + 1, src[i].strip()[:80]))
                    break
            if name and name not in names:
                names.append(name)
    if names:
        chk.extra["c15gen_failed"] = names
        chk.broke("proof", {"module": MODULE, "generated_hv_methods_no_longer_equal_hand_model": names})
    return names


def gen_disagreement(resp: Any) -> Any:
    if isinstance(resp, dict):
        return resp.get("gen")
    return None


def note(chk: core.Check, stage: str, case: Any, m: Any) -> None:
    """record the side-by-side field of one driver answer"""
    if not isinstance(m, dict) or "gen" not in m:
        return
    if m["gen"] is None:
        chk.count("gen:side-by-side")
    else:
        chk.count("gen:differs")
        if chk.hist.get("gen:differs", 0) <= 5:
            chk.broke("correspondence", {"stage": stage, "kind": "generated-vs-hand", "case": case, "diff": m["gen"]})
