"""NSGA-II selection and child generation: correspondence of `Model/Nsga2.lean` (driver `nsga2`) with the real code,
plus model-free oracles.  Called by the harnesses of C15 / C13 / C10 as `correspond(chk, tier)`.

Proved (Props/C15Nsga.lean, Props/C13Nsga.lean, Props/C10Nsga.lean): elite size / distinct members / whole better fronts
first; crowding distance: boundary individuals get inf; distances AND (since the repair of F-C13-1: sort key
(-distance, number)) the sorted order are symmetric under negation of objectives (columns without ties), the sorted
front / the elite set do not depend on the input order; whatever raw vector a crossover operator returns, `perform_crossover`
only ever returns members of the declared domain; a mutated (dropped) parameter is re-sampled independently.

Tied here (every run, real code in-process against the compiled model on the same inputs):
  crowd      `_calc_crowding_distance` / `_crowding_distance_sort` on generated fronts: the model's generic definitions
             at the IEEE-double instance bit for bit (distances, list order after the call, sorted order), and at the exact
             rational instance wherever the float distances are exact; oracles: permutation, non-increasing distances,
             an extreme individual of every finite non-constant objective has distance inf
  elite      `NSGAIIElitePopulationSelectionStrategy.__call__` (constraints absent / present / missing / NaN / ragged):
             returned numbers in order; oracles: size = min(population_size, n), distinct members, every better front
             (O(n^2) peeling, no code shared with the model) entirely selected before a worse one is touched
  dom        `_dominates` / `_constrained_dominates` on pairs, incl. missing constraints, ragged constraints, non-COMPLETE
  crossover  `perform_crossover` with a scripted operator (raw vectors far outside / on the boundary / half-step ties /
             +-inf / NaN) and a recording random generator: child, every attempt's parents and transformed rows, the
             ValueError of int(NaN); oracle: every returned value is `_contains(to_internal_repr(v))`
  child      `NSGAIIChildGenerationStrategy.__call__`: crossover or copy of a parent, mutation drops
  sampler    whole `NSGAIISampler` runs (real operators uniform/blx/sbx/vsbx/spx/undx, recording generator): every
             `select_parent` and every `sample_relative` is replayed through the model
  mirror     (C13) `_calc_crowding_distance` / `_crowding_distance_sort` on fronts without per-objective ties and on the
             same fronts with a random subset of objectives negated: equal distances per trial, SAME sorted order; the
             witness front of the repaired F-C13-1 and the column-tie witness replayed on the real code
Translator: `translate(chk)` = T-nsga2 (verif/translators/nsga2_src.py): content keys of the 16 mirrored functions ->
Generated/Nsga2Src.lean, checked by the `modelled_source_unchanged` obligations.
Entry points for the harnesses c15.py / c13.py / c10.py: translate(chk) before chk.prove([... , "OptunaVerif.Props.CxxNsga"]),
correspond(chk, chk.tier) among the stages, search(chk) at the top of their search(), replay(chk, rep) at the top of replay().
"""
from __future__ import annotations

import itertools
import math
import random
import struct
import time
import warnings
from fractions import Fraction
from typing import Any

import numpy as np

from verif import core

INF = float("inf")
NAN = float("nan")

RULE_NSGA = (
    "NSGA-II stages: populations of 0-10 trials with 1-4 objectives on the lattice 0..6 (many per-objective ties, duplicate rows, "
    "+-inf entries), dyadic and continuous float values, every direction vector, constraints absent / satisfied / violated / missing / "
    "NaN / ragged, population_size 2..n+2; crossover: search spaces of 1-4 parameters (continuous, stepped, log floats; ints with "
    "steps; log ints; categoricals), scripted operator outputs far outside, on the bounds, at half-step ties, +-inf and NaN. "
    "Non-trivial = at least 3 trials and (a per-objective tie or a duplicate or an infinity or a truncated last front), resp. a crossover "
    "with at least one retry, exception or out-of-range raw value."
)


# ------------------------------------------------------------------------------------------------------------------
# encodings
# ------------------------------------------------------------------------------------------------------------------
def rs(q: Any) -> str:
    q = Fraction(q)
    return "%d/%d" % (q.numerator, q.denominator)


def xval(v: float) -> str:
    v = float(v)
    if v != v:
        return "nan"
    if v == INF:
        return "inf"
    if v == -INF:
        return "-inf"
    return rs(Fraction(v))


def unx(s: str) -> Any:
    return {"nan": "nan", "inf": INF, "-inf": -INF}.get(s) if s in ("nan", "inf", "-inf") else Fraction(s)


def bits(v: float) -> str:
    return str(struct.unpack("<Q", struct.pack("<d", float(v)))[0])


def unbits(s: str) -> float:
    return struct.unpack("<d", struct.pack("<Q", int(s)))[0]


def same_float(a: float, b: float) -> bool:
    return (a != a and b != b) or (a == b and math.copysign(1.0, a) == math.copysign(1.0, b)) or (a == b == 0.0)


class Exc(tuple):
    """an exception of the real code, as an observation"""


def call(f, *a, **k) -> Any:
    try:
        with warnings.catch_warnings():
            warnings.simplefilter("ignore")
            with np.errstate(all="ignore"):
                return f(*a, **k)
    except Exception as e:  # noqa: BLE001 - the class is the observation
        return Exc((type(e).__name__, str(e)[:200]))


# ------------------------------------------------------------------------------------------------------------------
# real objects
# ------------------------------------------------------------------------------------------------------------------
class Real:
    def __init__(self) -> None:
        import optuna
        from optuna.samplers._base import _CONSTRAINTS_KEY
        from optuna.samplers.nsgaii import _child_generation_strategy as cg
        from optuna.samplers.nsgaii import _constraints_evaluation as ce
        from optuna.samplers.nsgaii import _crossover as xo
        from optuna.samplers.nsgaii import _elite_population_selection_strategy as es
        from optuna.samplers.nsgaii._crossovers._base import BaseCrossover
        from optuna.study import _multi_objective as mo

        optuna.logging.set_verbosity(optuna.logging.ERROR)
        self.optuna, self.es, self.ce, self.xo, self.cg, self.mo = optuna, es, ce, xo, cg, mo
        self.CKEY = _CONSTRAINTS_KEY
        self.BaseCrossover = BaseCrossover
        self._studies: dict[tuple[str, ...], Any] = {}

    def study(self, dirs: list[str]) -> Any:
        key = tuple(dirs)
        if key not in self._studies:
            self._studies[key] = self.optuna.create_study(directions=["maximize" if d == "max" else "minimize" for d in dirs])
        return self._studies[key]

    def trial(self, number: int, values: list[float] | None, cons: Any = None, params: dict[str, Any] | None = None,
              dists: dict[str, Any] | None = None, state: str = "COMPLETE") -> Any:
        st = getattr(self.optuna.trial.TrialState, state)
        t = self.optuna.trial.FrozenTrial(
            number=number, state=st, value=None, values=values, datetime_start=None, datetime_complete=None,
            params=dict(params or {}), distributions=dict(dists or {}), user_attrs={}, system_attrs={} if cons is None else {self.CKEY: cons},
            intermediate_values={}, trial_id=number)
        return t


def ind_json(number: int, values: list[float], cons: Any = None, params: list[Any] | None = None, complete: bool = True,
             with_bits: bool = True) -> dict[str, Any]:
    o: dict[str, Any] = {"n": number, "v": [xval(v) for v in values]}
    if with_bits:
        o["b"] = [bits(v) for v in values]
    if cons is not None:
        o["c"] = [xval(c) for c in cons]
    if params is not None:
        o["p"] = params
    if not complete:
        o["complete"] = False
    return o


# ------------------------------------------------------------------------------------------------------------------
# generators
# ------------------------------------------------------------------------------------------------------------------
def gen_values(r: random.Random, n: int, d: int) -> tuple[list[list[float]], str]:
    mode = r.choice(["lattice", "lattice", "ties", "dups", "pow2", "inf", "inf", "dyadic", "cont", "front"])
    if mode == "lattice":
        rows = [[float(r.randint(0, 6)) for _ in range(d)] for _ in range(n)]
    elif mode == "ties":
        vals = [[float(r.randint(0, 6)) for _ in range(2)] for _ in range(d)]
        rows = [[r.choice(vals[i]) for i in range(d)] for _ in range(n)]
    elif mode == "dups":
        base = [[float(r.randint(0, 4)) for _ in range(d)] for _ in range(max(1, n // 2))]
        rows = [list(r.choice(base)) for _ in range(n)]
    elif mode == "pow2":  # widths 1, 2, 4, 8: every gap / width is dyadic, the float sums are exact
        rows = [[float(r.choice([0, 0, 1, 2, 3, 4, 4, 8, 8])) for _ in range(d)] for _ in range(n)]
    elif mode == "inf":
        rows = [[r.choice([-INF, INF, 0.0, 1.0, 2.0, 3.0, 4.0, 4.0]) for _ in range(d)] for _ in range(n)]
    elif mode == "dyadic":
        rows = [[r.randint(-16, 16) / 4.0 for _ in range(d)] for _ in range(n)]
    elif mode == "cont":
        rows = [[r.uniform(-3.0, 3.0) if r.random() < 0.9 else r.choice([0.0, 1.0]) for _ in range(d)] for _ in range(n)]
    else:  # mutually non-dominated rows (what the last front is made of), d >= 2
        rows = []
        tries = 0
        while len(rows) < n and tries < 60 * max(1, n):
            tries += 1
            p = [float(r.randint(0, 8)) for _ in range(d)]
            if d == 1 or all(not _dom(p, q) and not _dom(q, p) for q in rows):
                rows.append(p)
        while len(rows) < n:
            rows.append(list(r.choice(rows)) if rows else [0.0] * d)
    return rows, mode


def _dom(q: list[float], p: list[float]) -> bool:
    return all(a <= b for a, b in zip(q, p)) and q != p


def gen_cons(r: random.Random, n: int) -> tuple[list[Any], str]:
    """constraints per trial (None = the trial has none) and the kind of the case"""
    kind = r.choice(["ok", "ok", "ok", "missing", "nan", "ragged", "inf"])
    k = r.randint(1, 3)
    cons: list[Any] = [[float(r.choice([-2, -1, 0, 0, 1, 1, 2, 3])) for _ in range(k)] for _ in range(n)]
    if r.random() < 0.3:
        cons = [[min(c, 0.0) for c in cs] if r.random() < 0.7 else cs for cs in cons]
    if kind == "missing" and n:
        for i in r.sample(range(n), r.randint(1, max(1, n // 2))):
            cons[i] = None
    elif kind == "nan" and n:
        cons[r.randrange(n)][r.randrange(k)] = NAN
    elif kind == "ragged" and n >= 2:
        i = r.randrange(n)
        cons[i] = cons[i] + [1.0] if r.random() < 0.5 or k == 1 else cons[i][:-1]
    elif kind == "inf" and n:
        cons[r.randrange(n)][r.randrange(k)] = r.choice([INF, -INF])
    else:
        kind = "ok"
    return cons, kind


def penalty(cs: Any) -> Any:
    return None if cs is None else sum(v for v in cs if v > 0)


def peel(rows: list[Any], dom) -> list[int]:
    """O(n^2) peeling ranks (independent of the model and of the code under test)"""
    n = len(rows)
    rank = [-1] * n
    alive = set(range(n))
    k = 0
    while alive:
        front = [i for i in alive if not any(dom(rows[j], rows[i]) for j in alive)]
        assert front
        for i in front:
            rank[i] = k
        alive -= set(front)
        k += 1
    return rank


def cdom_rows(e0: Any, e1: Any) -> bool:
    """constrained domination on (loss row, penalty or None)"""
    def cls(p: Any) -> int:
        return 2 if p is None else (0 if p <= 0 else 1)
    c0, c1 = cls(e0[1]), cls(e1[1])
    if c0 != c1:
        return c0 < c1
    if c0 == 1:
        return e0[1] < e1[1]
    return _dom(e0[0], e1[0])


def enc_for(values: list[list[float]], pens: list[Any]) -> dict[str, Any]:
    fin = [Fraction(v) for row in values for v in row if math.isfinite(v)]
    fin += [Fraction(p) for p in pens if p is not None and math.isfinite(p)]
    den = 1
    for q in fin:
        den = den * q.denominator // math.gcd(den, q.denominator)
    big = max([abs(int(q * den)) for q in fin] + [0]) + 2
    return {"den": den, "big": str(big)}


# ------------------------------------------------------------------------------------------------------------------
# stage: crowding distance
# ------------------------------------------------------------------------------------------------------------------
def judge_crowd(R: Real, chk: core.Check, values: list[list[float]], numbers: list[int], m: dict[str, Any]) -> str | None:
    """one front through `_calc_crowding_distance` and `_crowding_distance_sort`; returns the kind of disagreement"""
    n = len(values)
    d = len(values[0]) if values else 0
    pop = [R.trial(k, list(v)) for k, v in zip(numbers, values)]
    dist = call(R.es._calc_crowding_distance, pop)
    if isinstance(dist, Exc):
        chk.broke("correspondence", {"stage": "crowd", "values": [[xval(v) for v in row] for row in values], "what": "the code raised %s" % (dist,)})
        return "exc"
    after = [t.number for t in pop]
    rd = {k: float(dist.get(k, 0.0)) for k in numbers}
    pop2 = [R.trial(k, list(v)) for k, v in zip(numbers, values)]
    call(R.es._crowding_distance_sort, pop2)
    order = [t.number for t in pop2]
    w = {"values": [[xval(v) for v in row] for row in values], "numbers": numbers, "code": {"after": after, "sorted": order, "dists": {str(k): repr(v) for k, v in rd.items()}}}
    # -- oracles ------------------------------------------------------------------------------------------------
    if sorted(order) != sorted(numbers):
        chk.violation({"fn": "_crowding_distance_sort", "kind": "not-a-permutation"}, w, "_crowding_distance_sort turned %s into %s" % (numbers, order))
        return "viol"
    ds = [rd[k] for k in order]
    if any(not (a >= b) for a, b in zip(ds, ds[1:])) and not any(x != x for x in ds):
        chk.violation({"fn": "_crowding_distance_sort", "kind": "not-descending"}, w, "after _crowding_distance_sort the distances are %s" % ds)
        return "viol"
    for i in range(d):
        col = [row[i] for row in values]
        if all(math.isfinite(v) for v in col) and min(col) != max(col):
            lo = [k for k, v in zip(numbers, col) if v == min(col)]
            hi = [k for k, v in zip(numbers, col) if v == max(col)]
            if not any(rd[k] == INF for k in lo) or not any(rd[k] == INF for k in hi):
                chk.violation({"fn": "_calc_crowding_distance", "kind": "boundary-not-inf"}, dict(w, objective=i),
                              "objective %d: no individual with the smallest / largest value has an infinite crowding distance: %s" % (i, rd))
                return "viol"
    # -- the model, float instance: bit for bit -----------------------------------------------------------------
    f = m.get("f")
    if f is None or "x" not in m:
        chk.broke("correspondence", {"stage": "crowd", "case": w, "what": "driver answer %s" % str(m)[:300]})
        return "tie"
    fd = {int(k): unbits(v) for k, v in f["dists"]}
    bad = [k for k in numbers if not same_float(fd.get(k, 0.0), rd[k])]
    if bad or f["after"] != after or f["sorted"] != order:
        old = " [the code's order is the one of the sort BEFORE the repair of F-C13-1: sort(key=distance); reverse()]" if (
            not bad and f["after"] == after and f.get("sortedOld") == order) else ""
        chk.broke("correspondence", {"stage": "crowd", "case": w, "what": "float instance of the model: after %s sorted %s dists %s%s" % (
            f["after"], f["sorted"], {k: repr(v) for k, v in fd.items()}, old)})
        return "tie"
    # -- the model, exact instance: wherever the float distances are exact --------------------------------------
    x = m["x"]
    xd = {int(k): unx(v) for k, v in x["dists"]}
    exact = all((xd.get(k, Fraction(0)) == rd[k]) if not isinstance(xd.get(k, Fraction(0)), Fraction) or not math.isfinite(rd[k])
                else (Fraction(rd[k]) == xd.get(k, Fraction(0))) for k in numbers)
    if x["after"] != after:
        chk.broke("correspondence", {"stage": "crowd", "case": w, "what": "exact instance: list order after the call %s" % x["after"]})
        return "tie"
    if exact:
        chk.count("crowd:float-distances-exact")
        if x["sorted"] != order:
            chk.broke("correspondence", {"stage": "crowd", "case": w, "what": "exact instance: sorted %s although every float distance is exact" % x["sorted"]})
            return "tie"
    else:
        chk.count("crowd:float-rounding (exact instance not compared)")
        worst = max((abs(Fraction(rd[k]) - xd[k]) for k in numbers if isinstance(xd.get(k), Fraction) and math.isfinite(rd[k])), default=Fraction(0))
        if worst > Fraction(1, 10 ** 9):
            chk.broke("correspondence", {"stage": "crowd", "case": w, "what": "exact distances %s differ from the float ones by %s" % (x["dists"], float(worst))})
            return "tie"
    return None


def stage_crowd(R: Real, chk: core.Check, n_cases: int) -> None:
    r = chk.rng
    cases = []
    fixed = [([[0.0, 0.0], [1.0, 1.0]], [0, 1]), ([[-INF, 1.0], [-INF, 2.0], [3.0, 0.0], [5.0, -1.0]], [0, 1, 2, 3]),
             ([[INF], [-INF]], [4, 2]), ([[5.0, INF], [INF, 5.0]], [0, 1]), ([], []), ([[1.0, 2.0]], [7]),
             ([[1.0, 0.0, 5.0], [1.0, 5.0, 0.0], [0.0, 6.0, 6.0], [3.0, -1.0, 7.0]], [0, 1, 2, 3])]
    for v, nums in fixed:
        cases.append((v, nums, "fixed"))
    for _ in range(n_cases):
        n = r.choice([0, 1, 2, 2, 3, 3, 4, 5, 6, 7, 8, 10])
        d = r.choice([1, 2, 2, 3, 3, 4])
        values, mode = gen_values(r, n, d)
        numbers = r.sample(range(0, 3 * n + 3), n)
        cases.append((values, numbers, mode))
    reqs = [{"op": "crowd", "pop": [ind_json(k, v) for k, v in zip(nums, vals)]} for vals, nums, _ in cases]
    ms = core.driver_batch("nsga2", reqs)
    for (vals, nums, mode), m in zip(cases, ms):
        cols_tied = any(len({row[i] for row in vals}) < len(vals) for i in range(len(vals[0]))) if vals else False
        chk.case({"fn": "_crowding_distance_sort", "values": [[xval(v) for v in row] for row in vals], "numbers": nums},
                 nontrivial=len(vals) >= 3 and (cols_tied or any(not math.isfinite(v) for row in vals for v in row)))
        chk.count("crowd:mode=%s" % mode)
        if m.get("k") in ("bad-op", "bad-json"):
            chk.broke("correspondence", {"stage": "crowd", "what": "driver rejected the case: %s" % m})
            continue
        judge_crowd(R, chk, vals, nums, m)
        chk.traces_validated += 1


# ------------------------------------------------------------------------------------------------------------------
# stage: elite selection
# ------------------------------------------------------------------------------------------------------------------
def judge_elite(R: Real, chk: core.Check, case: dict[str, Any], m: dict[str, Any]) -> None:
    values, numbers, dirs, cons, pop_size = case["values"], case["numbers"], case["dirs"], case["cons"], case["pop_size"]
    constrained = cons is not None
    n = len(values)
    pop = [R.trial(k, list(v), None if not constrained else cons[i]) for i, (k, v) in enumerate(zip(numbers, values))]
    strat = R.es.NSGAIIElitePopulationSelectionStrategy(population_size=pop_size, constraints_func=(lambda t: [0.0]) if constrained else None)
    got = call(strat, R.study(dirs), list(pop))
    w = {"values": [[xval(v) for v in row] for row in values], "numbers": numbers, "dirs": dirs, "population_size": pop_size,
         "cons": None if cons is None else [None if c is None else [xval(x) for x in c] for c in cons]}
    if isinstance(got, Exc):
        expected = constrained and case["cons_kind"] in ("nan", "ragged")
        if expected and got[0] == "ValueError":
            chk.count("elite:ValueError(%s)" % case["cons_kind"])
            if m.get("err") != "ValueError":
                chk.broke("correspondence", {"stage": "elite", "case": w, "what": "the code raises %s, the model answers %s" % (got, str(m)[:200])})
            return
        chk.violation({"fn": "NSGAIIElitePopulationSelectionStrategy", "kind": "exception"}, dict(w, got=got),
                      "elite selection raised %s on population %s" % (got, w["values"]))
        return
    sel = [t.number for t in got]
    w["code"] = sel
    # -- oracles ------------------------------------------------------------------------------------------------
    if len(sel) != min(pop_size, n) or len(set(sel)) != len(sel) or any(k not in numbers for k in sel):
        chk.violation({"fn": "NSGAIIElitePopulationSelectionStrategy", "kind": "size"}, w,
                      "elite selection with population_size=%d on %d trials returned %s: not min(population_size, n) distinct members" % (pop_size, n, sel))
        return
    sign = [-1.0 if d == "max" else 1.0 for d in dirs]
    loss = [[s * v for s, v in zip(sign, row)] for row in values]
    if constrained:
        pens = [penalty(c) for c in cons]
        truth = peel(list(zip(loss, pens)), cdom_rows)
    else:
        pens = []
        truth = peel(loss, _dom)
    rk = dict(zip(numbers, truth))
    worst = max((rk[k] for k in sel), default=-1)
    missing = [k for k in numbers if rk[k] < worst and k not in sel]
    if missing:
        chk.violation({"fn": "NSGAIIElitePopulationSelectionStrategy", "kind": "front-skipped"}, dict(w, ranks=truth),
                      "elite selection took a trial of non-domination rank %d but left out %s of better rank (ranks %s, selected %s)" % (worst, missing, truth, sel))
        return
    levels = [rk[k] for k in sel]
    if levels != sorted(levels):
        chk.violation({"fn": "NSGAIIElitePopulationSelectionStrategy", "kind": "front-order"}, dict(w, ranks=truth),
                      "the elite population is not listed front by front: ranks %s" % levels)
        return
    # -- order independence (`C15Nsga.elite_set_order_independent`): no per-objective ties => same elite set for the reversed population
    if n >= 2 and values and all(len({row[i] for row in values}) == n for i in range(len(values[0]))):
        got2 = call(strat, R.study(dirs), list(reversed(pop)))
        chk.count("elite:order-independence checked")
        if isinstance(got2, Exc) or sorted(t.number for t in got2) != sorted(sel):
            chk.broke("correspondence", {"stage": "elite", "case": w, "what": "elite set %s for the population as listed, %s for the reversed list (no per-objective ties)" % (
                sorted(sel), got2 if isinstance(got2, Exc) else sorted(t.number for t in got2))})
            return
    # -- the model ------------------------------------------------------------------------------------------------
    if "elite" not in m:
        chk.broke("correspondence", {"stage": "elite", "case": w, "what": "the code returns %s, the model answers %s" % (sel, str(m)[:200])})
        return
    if m["ranks"] != truth:
        chk.broke("correspondence", {"stage": "elite", "case": w, "what": "model ranks %s, O(n^2) peeling %s" % (m["ranks"], truth)})
        return
    if m.get("viaElite") != m["elite"]:
        chk.broke("correspondence", {"stage": "elite", "case": w, "what": "driver: elite %s vs eliteWith %s" % (m.get("viaElite"), m["elite"])})
    if m.get("eliteF") != sel:
        chk.broke("correspondence", {"stage": "elite", "case": w, "what": "float instance of the model selects %s" % (m.get("eliteF"),)})
        return
    if m["elite"] != sel:
        # only acceptable when float rounding decided a comparison of crowding distances of the last front
        last = [k for k in numbers if rk[k] == worst]
        lv = [values[numbers.index(k)] for k in last]
        mm = core.driver_batch("nsga2", [{"op": "crowd", "pop": [ind_json(k, v) for k, v in zip(last, lv)]}])[0]
        popl = [R.trial(k, list(v)) for k, v in zip(last, lv)]
        rd = call(R.es._calc_crowding_distance, popl)
        xd = {int(k): unx(v) for k, v in mm["x"]["dists"]}
        exact = not isinstance(rd, Exc) and all(
            (Fraction(float(rd.get(k, 0.0))) == xd.get(k, Fraction(0))) if math.isfinite(float(rd.get(k, 0.0))) and isinstance(xd.get(k, Fraction(0)), Fraction)
            else xd.get(k, Fraction(0)) == float(rd.get(k, 0.0)) for k in last)
        if exact:
            chk.broke("correspondence", {"stage": "elite", "case": w, "what": "exact instance of the model selects %s (float distances of the last front are exact)" % m["elite"]})
        else:
            chk.count("elite:float-rounding (exact instance not compared)")
    else:
        chk.count("elite:exact-instance-agrees")


def stage_elite(R: Real, chk: core.Check, n_cases: int) -> None:
    r = chk.rng
    cases = []
    for _ in range(n_cases):
        n = r.choice([0, 1, 2, 3, 4, 5, 6, 7, 8, 9, 10])
        d = r.choice([1, 2, 2, 3, 3, 4])
        values, mode = gen_values(r, n, d)
        numbers = r.sample(range(0, 3 * n + 3), n)
        dirs = [r.choice(["min", "max"]) for _ in range(d)]
        cons, kind = (None, "none") if r.random() < 0.45 else gen_cons(r, n)
        cases.append({"values": values, "numbers": numbers, "dirs": dirs, "cons": cons, "cons_kind": kind, "mode": mode,
                      "pop_size": r.randint(2, max(2, n + 2))})
    reqs = []
    for c in cases:
        pens = [] if c["cons"] is None else [penalty(cs) if cs is None or not any(x != x for x in cs) else None for cs in c["cons"]]
        reqs.append({"op": "elite", "pop": [ind_json(k, v, None if c["cons"] is None else c["cons"][i]) for i, (k, v) in enumerate(zip(c["numbers"], c["values"]))],
                     "enc": enc_for(c["values"], pens), "dirs": c["dirs"], "constrained": c["cons"] is not None, "popSize": c["pop_size"]})
    ms = core.driver_batch("nsga2", reqs)
    for c, m in zip(cases, ms):
        vals = c["values"]
        tied = any(len({row[i] for row in vals}) < len(vals) for i in range(len(vals[0]))) if vals else False
        chk.case({"fn": "elite", "values": [[xval(v) for v in row] for row in vals], "numbers": c["numbers"], "dirs": c["dirs"], "pop_size": c["pop_size"],
                  "cons": str(c["cons"])}, nontrivial=len(vals) >= 3 and (tied or c["pop_size"] < len(vals)))
        chk.count("elite:constraints=%s" % c["cons_kind"])
        chk.count("elite:%s" % ("truncating" if c["pop_size"] < len(vals) else "everything fits"))
        if m.get("k") in ("bad-op", "bad-json"):
            chk.broke("correspondence", {"stage": "elite", "what": "driver rejected the case: %s" % m})
            continue
        judge_elite(R, chk, c, m)
        chk.traces_validated += 1


# ------------------------------------------------------------------------------------------------------------------
# stage: domination of two trials
# ------------------------------------------------------------------------------------------------------------------
def stage_dom(R: Real, chk: core.Check, n_cases: int) -> None:
    r = chk.rng
    cases = []
    for _ in range(n_cases):
        d = r.choice([1, 2, 2, 3])
        dirs = [r.choice(["min", "max"]) for _ in range(d)]
        vals = [[r.choice([-INF, INF, 0.0, 1.0, 1.0, 2.0, 3.0]) if r.random() < 0.2 else float(r.randint(0, 3)) for _ in range(d)] for _ in range(2)]
        if r.random() < 0.15:
            vals[1] = list(vals[0])
        k = r.randint(1, 3)
        cons: list[Any] = [None if r.random() < 0.25 else [float(r.choice([-1, 0, 0, 1, 2])) for _ in range(k)] for _ in range(2)]
        if cons[1] is not None and r.random() < 0.1:
            cons[1] = cons[1] + [0.0]
        states = [r.choice(["COMPLETE"] * 8 + ["PRUNED", "FAIL"]) for _ in range(2)]
        cases.append({"dirs": dirs, "vals": vals, "cons": cons, "states": states})
    reqs = [{"op": "dom", "dirs": c["dirs"],
             "t0": ind_json(0, c["vals"][0], c["cons"][0], complete=c["states"][0] == "COMPLETE", with_bits=False),
             "t1": ind_json(1, c["vals"][1], c["cons"][1], complete=c["states"][1] == "COMPLETE", with_bits=False)} for c in cases]
    ms = core.driver_batch("nsga2", reqs)
    for c, m in zip(cases, ms):
        ts = [R.trial(i, list(c["vals"][i]) if c["states"][i] == "COMPLETE" else None, c["cons"][i], state=c["states"][i]) for i in range(2)]
        study = R.study(c["dirs"])
        w = {"dirs": c["dirs"], "vals": [[xval(v) for v in row] for row in c["vals"]], "cons": c["cons"], "states": c["states"]}
        chk.case(dict(w, fn="_constrained_dominates"), nontrivial=True)
        for key, fn in (("plain", R.mo._dominates), ("constrained", R.ce._constrained_dominates)):
            got = call(fn, ts[0], ts[1], study.directions)
            obs = {"err": got[0]} if isinstance(got, Exc) else {"ok": bool(got)}
            chk.count("dom:%s=%s" % (key, obs.get("ok", obs.get("err"))))
            if obs != m.get(key):
                chk.broke("correspondence", {"stage": "dom", "case": w, "what": "%s: code %s, model %s" % (key, obs, m.get(key))})
            # oracle: for two COMPLETE trials the answer is the constrained domination of (loss row, penalty)
            if c["states"] == ["COMPLETE", "COMPLETE"] and "ok" in obs:
                sign = [-1.0 if d == "max" else 1.0 for d in c["dirs"]]
                loss = [[s * v for s, v in zip(sign, row)] for row in c["vals"]]
                want = _dom(loss[0], loss[1]) if key == "plain" else cdom_rows((loss[0], penalty(c["cons"][0])), (loss[1], penalty(c["cons"][1])))
                if obs["ok"] != want:
                    chk.violation({"fn": fn.__name__, "kind": "wrong-domination"}, w, "%s(%s) = %s, expected %s" % (fn.__name__, w, obs["ok"], want))
        chk.traces_validated += 1


# ------------------------------------------------------------------------------------------------------------------
# stages: perform_crossover / child generation with a scripted operator and a recording random generator
# ------------------------------------------------------------------------------------------------------------------
class RecRng:
    """stands in for `numpy.random.RandomState`: answers come from the seeded generator of the check and are recorded
    as the script the model replays"""

    def __init__(self, r: random.Random) -> None:
        self.r = r
        self.script: list[dict[str, Any]] = []

    def _q(self) -> float:
        k = self.r.random()
        if k < 0.15:
            return 0.0
        if k < 0.25:
            return 1.0 - 2.0 ** -53
        if k < 0.45:
            return self.r.choice([0.25, 0.5, 0.75, 0.125])
        return self.r.randrange(0, 1024) / 1024.0

    def rand(self, *a: int) -> Any:
        if not a:
            q = self._q()
            self.script.append({"rand": rs(Fraction(q))})
            return q
        qs = [self._q() for _ in range(a[0])]
        self.script.append({"vec": [rs(Fraction(q)) for q in qs]})
        return np.array(qs, dtype=float)

    def choice(self, n: int) -> int:
        if n <= 0:
            raise ValueError("a must be greater than 0 unless no samples are taken")
        i = self.r.randrange(n)
        self.script.append({"choice": i})
        return i


def gen_space(r: random.Random, K: Any, OD: Any, n_params: int, dyadic_only: bool = False) -> dict[str, Any]:
    space: dict[str, Any] = {}
    for i in range(n_params):
        kind = r.choice(["float", "float", "step", "step", "logfloat", "int", "int", "intstep", "logint", "cat", "cat"])
        name = "p%d" % i
        with warnings.catch_warnings():
            warnings.simplefilter("ignore")
            if kind == "float":
                lo = r.randint(-8, 8) / 4.0
                space[name] = OD.FloatDistribution(lo, lo + r.choice([0.25, 1.0, 2.5, 8.0]))
            elif kind == "step":
                lo = r.randint(-8, 8) / 4.0
                st = r.choice([0.25, 0.5, 1.0, 2.0])
                space[name] = OD.FloatDistribution(lo, lo + st * r.randint(1, 6), step=st)
            elif kind == "logfloat":
                lo = r.choice([0.125, 0.5, 1.0, 3.0])
                space[name] = OD.FloatDistribution(lo, lo * r.choice([2.0, 8.0, 100.0]), log=True)
            elif kind == "int":
                lo = r.randint(-5, 5)
                space[name] = OD.IntDistribution(lo, lo + r.randint(1, 9))
            elif kind == "intstep":
                lo = r.randint(-5, 5)
                st = r.randint(2, 3)
                space[name] = OD.IntDistribution(lo, lo + st * r.randint(1, 4), step=st)
            elif kind == "logint":
                lo = r.randint(1, 4)
                space[name] = OD.IntDistribution(lo, lo + r.randint(1, 40), log=True)
            else:
                pool = ["a", "b", "c", 1, 2, 2.5, None, True, "z"]
                space[name] = OD.CategoricalDistribution(tuple(r.sample(pool, r.randint(2, 4))))
    return space


def member_value(r: random.Random, d: Any) -> Any:
    name = type(d).__name__
    if name == "CategoricalDistribution":
        return r.choice(d.choices)
    if name == "IntDistribution":
        k = (d.high - d.low) // d.step
        return d.low + d.step * r.randint(0, k)
    if d.step is not None:
        k = int(round((d.high - d.low) / d.step))
        return d.low + d.step * r.randint(0, k)
    if d.log:
        return r.choice([d.low, d.high, d.low * 1.5, (d.low + d.high) / 2.0])
    return r.choice([d.low, d.high, d.low + (d.high - d.low) * r.randint(0, 8) / 8.0])


def is_member(d: Any, v: Any) -> str | None:
    """model-free membership: the test the code itself applies"""
    try:
        q = d.to_internal_repr(v)
    except Exception as e:  # noqa: BLE001
        return "to_internal_repr raised %s" % type(e).__name__
    return None if d._contains(q) else "_contains(%r) is False" % (q,)


def raw_choice(r: random.Random, d: Any, lo: float, hi: float, parent_vals: list[float]) -> float:
    """one raw (transformed-space) value for a numerical column with bounds [lo, hi]"""
    k = r.random()
    log = bool(getattr(d, "log", False))
    if type(d).__name__ == "FloatDistribution" and d.step is None and r.random() < 0.35:
        return lo - r.choice([0.25, 1.0, 3.0])  # below the range of a continuous float: nothing clips it, the loop must retry
    if k < 0.30:
        return r.choice(parent_vals)
    if k < 0.42:
        return r.choice([lo, hi])
    if k < 0.60:  # outside
        far = r.choice([0.25, 1.0, 3.0] if log else [0.25, 1.0, 1000.25, 65536.0])
        return lo - far if r.random() < 0.5 else hi + far
    if k < 0.70:
        return r.choice([INF, -INF])
    if k < 0.73:
        return NAN
    if k < 0.90 and not log:  # half-step ties and grid points of stepped / int parameters
        st = float(d.step) if getattr(d, "step", None) is not None else 1.0
        return float(d.low) + st * (r.randint(-2, 8) + r.choice([0.0, 0.5, 0.5, 0.25]))
    return lo + (hi - lo) * r.randrange(0, 65) / 64.0


def make_scripted_op(R: Real, r: random.Random, rec: RecRng, n_parents: int, num_space: dict[str, Any], max_bad: int, all_good: bool) -> Any:
    class ScriptedOp(R.BaseCrossover):
        def __init__(self) -> None:
            self.seen: list[Any] = []

        @property
        def n_parents(self) -> int:
            return n_parents

        def crossover(self, parents_params: Any, rng: Any, study: Any, search_space_bounds: Any) -> Any:
            self.seen.append((np.array(parents_params, dtype=float).copy(), np.array(search_space_bounds, dtype=float).copy()))
            if len(self.seen) > max_bad + 200:
                # perform_crossover has no retry cap: if even the parents' own values are rejected (a broken projection /
                # containment test in the tree under test) it would spin for ever and the recording would eat the memory
                raise RuntimeError("harness: perform_crossover asked the operator %d times; members of the domain keep being rejected" % len(self.seen))
            good = all_good or len(self.seen) > max_bad
            raw = []
            for j, d in enumerate(num_space.values()):
                pv = [float(x) for x in parents_params[:, j]]
                raw.append(r.choice(pv) if good else raw_choice(r, d, float(search_space_bounds[j][0]), float(search_space_bounds[j][1]), pv))
            rec.script.append({"op": [xval(v) for v in raw]})
            return np.array(raw, dtype=float)

    return ScriptedOp()


def env_tables(space: dict[str, Any], pop_params: list[dict[str, Any]], script: list[dict[str, Any]]) -> dict[str, Any]:
    """math.log / math.exp / nextafter at exactly the points where the model asks for them"""
    lg: dict[str, str] = {}
    ex: dict[str, str] = {}
    below: dict[str, str] = {}
    num = [(n, d) for n, d in space.items() if type(d).__name__ != "CategoricalDistribution"]
    for j, (n, d) in enumerate(num):
        if type(d).__name__ == "FloatDistribution":
            below[rs(Fraction(float(d.high)))] = rs(Fraction(float(np.nextafter(d.high, d.high - 1))))
        if d.log:
            for p in pop_params:
                v = float(p[n])
                if v > 0:
                    lg[rs(Fraction(v))] = rs(Fraction(math.log(v)))
            for dr in script:
                if "op" in dr and j < len(dr["op"]):
                    s = dr["op"][j]
                    if s not in ("nan", "inf", "-inf"):
                        x = float(Fraction(s))
                        if abs(x) < 700:
                            ex[s] = rs(Fraction(math.exp(x)))
    return {"lg": [[k, v] for k, v in lg.items()], "ex": [[k, v] for k, v in ex.items()], "below": [[k, v] for k, v in below.items()]}


def gen_parents(R: Real, K: Any, r: random.Random, space: dict[str, Any], m: int, d_obj: int, constrained: bool) -> tuple[list[Any], list[dict[str, Any]]]:
    trials, js = [], []
    numbers = sorted(r.sample(range(0, 3 * m + 2), m))
    for k in numbers:
        params = {n: member_value(r, d) for n, d in space.items()}
        values = [float(r.randint(0, 3)) for _ in range(d_obj)]
        cons = None
        if constrained and r.random() < 0.85:
            cons = [float(r.choice([-1, 0, 0, 1, 2])) for _ in range(2)]
        trials.append(R.trial(k, values, cons, params, dict(space)))
        js.append(ind_json(k, values, cons, [[n, K.tok(v)] for n, v in params.items()], with_bits=False))
    return trials, js


def cfg_json(cp: float, sp: float, mp: float | None, n_parents: int, constrained: bool, dirs: list[str]) -> dict[str, Any]:
    return {"crossoverProb": rs(Fraction(cp)), "swappingProb": rs(Fraction(sp)), "mutationProb": None if mp is None else rs(Fraction(mp)),
            "nParents": n_parents, "constrained": constrained, "dirs": dirs}


def tok_pairs(K: Any, params: dict[str, Any]) -> list[Any]:
    return [[n, K.tok(v)] for n, v in params.items()]


def stage_crossover(R: Real, chk: core.Check, n_cases: int, with_child: bool) -> None:
    """`perform_crossover` (with_child=False) or `NSGAIIChildGenerationStrategy.__call__` (True) on scripted operator
    outputs; model replay of the recorded script"""
    from optuna import distributions as OD

    from verif import dist_k as K

    r = chk.rng
    cases = []
    for _ in range(n_cases):
        space = gen_space(r, K, OD, r.randint(1, 4))
        num_space = {n: d for n, d in space.items() if type(d).__name__ != "CategoricalDistribution"}
        n_parents = r.choice([2, 2, 2, 3])
        d_obj = r.choice([1, 2, 2, 3])
        dirs = [r.choice(["min", "max"]) for _ in range(d_obj)]
        constrained = r.random() < 0.35
        m = r.randint(n_parents, n_parents + 3) if r.random() < 0.95 else r.randint(1, n_parents - 1)
        trials, pop_js = gen_parents(R, K, r, space, m, d_obj, constrained)
        rec = RecRng(r)
        all_good = r.random() < 0.25
        op = make_scripted_op(R, r, rec, n_parents, num_space, r.randint(1, 4), all_good)
        sp = r.choice([0.0, 0.5, 0.5, 1.0, 0.25])
        cp = r.choice([0.0, 1.0, 0.9, 0.9, 0.5])
        mp = r.choice([None, None, 0.0, 1.0, 0.5, 0.25])
        study = R.study(dirs)
        dominates = R.ce._constrained_dominates if constrained else R.mo._dominates
        if with_child:
            class _Lazy:
                rng = rec
            strat = R.cg.NSGAIIChildGenerationStrategy(mutation_prob=mp, crossover=op, crossover_prob=cp, swapping_prob=sp,
                                                       constraints_func=(lambda t: [0.0]) if constrained else None, rng=_Lazy())  # type: ignore[arg-type]
            got = call(strat, study, dict(space), list(trials))
        else:
            got = call(R.xo.perform_crossover, op, study, list(trials), dict(space), rec, sp, dominates)
        req = {"op": "child" if with_child else "crossover", "cfg": cfg_json(cp, sp, mp, n_parents, constrained, dirs),
               "space": [[n, K.mdist(d, "bin")] for n, d in space.items()], "pop": pop_js, "script": list(rec.script),
               "env": env_tables(space, [t.params for t in trials], rec.script)}
        cases.append((space, got, op, req, trials))
    ms = core.driver_batch("nsga2", [c[3] for c in cases])
    stage = "child" if with_child else "crossover"
    fn = "NSGAIIChildGenerationStrategy.__call__" if with_child else "perform_crossover"
    for (space, got, op, req, trials), m in zip(cases, ms):
        n_ops = sum(1 for dr in req["script"] if "op" in dr)
        special = any(s in ("nan", "inf", "-inf") for dr in req["script"] if "op" in dr for s in dr["op"])
        w = {"space": {n: repr(d) for n, d in space.items()}, "cfg": req["cfg"], "script": req["script"][:40],
             "parents": [[t.number, t.values, dict(t.params)] for t in trials]}
        chk.case({"fn": fn, "req": {k: req[k] for k in ("cfg", "space", "script")}}, nontrivial=n_ops >= 2 or special or isinstance(got, Exc))
        if m.get("k") in ("bad-op", "bad-json"):
            chk.broke("correspondence", {"stage": stage, "what": "driver rejected the case: %s" % str(m)[:300], "case": w})
            continue
        chk.count("%s:operator-calls=%s" % (stage, n_ops if n_ops < 4 else ">=4"))
        if isinstance(got, Exc):
            chk.count("%s:raises %s" % (stage, got[0]))
            # the only exceptions that may escape: ValueError (int(NaN), to_internal_repr(NaN / non-positive log value),
            # rng.choice(0) when fewer candidates than n_parents)
            if m.get("stop") != got[0]:
                chk.broke("correspondence", {"stage": stage, "case": w, "what": "the code raises %s, the model answers %s" % (got, str(m)[:300])})
            chk.traces_validated += 1
            continue
        # -- oracle: every returned value is a member of its declared domain ----------------------------------------
        bad = {n: is_member(space[n], v) for n, v in got.items() if n not in space or is_member(space[n], v) is not None}
        if bad:
            chk.violation({"fn": fn, "kind": "outside-domain"}, dict(w, got={n: repr(v) for n, v in got.items()}, why=bad),
                          "%s returned %s; not in the declared domain: %s" % (fn, got, bad))
            continue
        if not with_child and list(got.keys()) != [n for n, d in space.items() if type(d).__name__ == "CategoricalDistribution"] + \
                [n for n, d in space.items() if type(d).__name__ != "CategoricalDistribution"]:
            chk.violation({"fn": fn, "kind": "missing-parameter"}, dict(w, got=list(got)), "perform_crossover returned the parameters %s for the space %s" % (list(got), list(space)))
            continue
        if "ok" not in m:
            chk.broke("correspondence", {"stage": stage, "case": w, "what": "the code returns %s, the model answers %s" % (got, str(m)[:300])})
            continue
        mo = m["ok"]
        key = "params" if with_child else "child"
        if mo[key] != tok_pairs(K, got):
            chk.broke("correspondence", {"stage": stage, "case": w, "what": "the code returns %s, the model %s" % (tok_pairs(K, got), mo[key])})
            continue
        if mo["rest"] != 0:
            chk.broke("correspondence", {"stage": stage, "case": w, "what": "the model left %d draws of the script unused" % mo["rest"]})
            continue
        if with_child:
            dropped = len(mo["child"]) - len(mo["params"])
            chk.count("child:dropped-by-mutation=%d" % dropped)
            chk.count("child:%s" % ("crossover" if mo["attempts"] else "copy-of-a-parent"))
        # what the operator was handed: parents' transformed rows (and, once per case, the bounds)
        has_num = any(type(d).__name__ != "CategoricalDistribution" for d in space.values())
        if has_num and len(mo["attempts"]) != len(op.seen):
            chk.broke("correspondence", {"stage": stage, "case": w, "what": "operator called %d times, model has %d attempts" % (len(op.seen), len(mo["attempts"]))})
            continue
        for att, (pp, bounds) in zip(mo["attempts"] if has_num else [], op.seen):
            rows = [[Fraction(x) for x in row] for row in att["rows"]]
            real_rows = [[Fraction(float(x)) for x in row] for row in pp]
            if rows != real_rows:
                chk.broke("correspondence", {"stage": stage, "case": w, "what": "operator input: code %s, model %s" % (pp.tolist(), att["rows"])})
                break
        chk.traces_validated += 1


# ------------------------------------------------------------------------------------------------------------------
# stage: whole NSGAIISampler runs with the real operators
# ------------------------------------------------------------------------------------------------------------------
class RecordingRandomState:
    """a real `RandomState` whose `rand` / `choice` calls are recorded, except while a crossover operator runs"""

    def __init__(self, seed: int) -> None:
        self.rs = np.random.RandomState(seed)
        self.script: list[dict[str, Any]] = []
        self.inside_operator = False

    def seed(self, *a: Any, **k: Any) -> None:
        self.rs.seed(*a, **k)

    def rand(self, *a: int) -> Any:
        out = self.rs.rand(*a)
        if not self.inside_operator:
            if not a:
                self.script.append({"rand": rs(Fraction(float(out)))})
            else:
                self.script.append({"vec": [rs(Fraction(float(x))) for x in out]})
        return out

    def choice(self, n: Any, *a: Any, **k: Any) -> Any:
        out = self.rs.choice(n, *a, **k)
        if not self.inside_operator:
            self.script.append({"choice": int(out)})
        return out

    def __getattr__(self, name: str) -> Any:  # normal(), ... used by operators only
        return getattr(self.rs, name)


def stage_sampler(R: Real, chk: core.Check, n_runs: int, n_trials: int) -> None:
    from optuna import distributions as OD

    from verif import dist_k as K

    optuna = R.optuna
    r = chk.rng
    from optuna.samplers import nsgaii as N2

    ops = {"uniform": lambda: N2.UniformCrossover(), "blx": lambda: N2.BLXAlphaCrossover(), "sbx": lambda: N2.SBXCrossover(),
           "vsbx": lambda: N2.VSBXCrossover(), "spx": lambda: N2.SPXCrossover(), "undx": lambda: N2.UNDXCrossover()}
    for run in range(n_runs):
        opname = r.choice(sorted(ops))
        d_obj = r.choice([2, 2, 3])
        dirs = [r.choice(["min", "max"]) for _ in range(d_obj)]
        constrained = r.random() < 0.4
        pop_size = r.randint(3, 6)
        space = gen_space(r, K, OD, r.randint(2, 4))
        lattice = r.random() < 0.5
        seed = r.randrange(10 ** 6)
        orng = random.Random(seed)
        with warnings.catch_warnings():
            warnings.simplefilter("ignore")
            sampler = optuna.samplers.NSGAIISampler(population_size=pop_size, crossover=ops[opname](), seed=seed,
                                                    mutation_prob=r.choice([None, None, 0.3]), swapping_prob=r.choice([0.5, 0.25]),
                                                    crossover_prob=r.choice([0.9, 0.6]),
                                                    constraints_func=(lambda t: t.user_attrs["c"]) if constrained else None)
        rec = RecordingRandomState(seed)
        sampler._rng._rng = rec  # the LazyRandomState shared with the child generation strategy
        calls: list[dict[str, Any]] = []
        cgs, els = sampler._child_generation_strategy, sampler._elite_population_selection_strategy
        xo = cgs._crossover
        orig_cross = xo.crossover

        def crossover(parents_params: Any, rng: Any, study: Any, bounds: Any, _orig: Any = orig_cross) -> Any:
            rec.inside_operator = True
            try:
                out = _orig(parents_params, rng, study, bounds)
            finally:
                rec.inside_operator = False
            rec.script.append({"op": [xval(v) for v in np.asarray(out, dtype=float).reshape(-1)]})
            return out

        xo.crossover = crossover  # type: ignore[method-assign]

        def child_gen(study: Any, search_space: Any, parents: Any) -> Any:
            start = len(rec.script)
            out = call(cgs, study, search_space, parents)
            calls.append({"kind": "child", "space": dict(search_space), "parents": list(parents), "script": rec.script[start:], "out": out})
            if isinstance(out, Exc):
                raise ValueError(out[1])
            return out

        def elite(study: Any, population: Any) -> Any:
            out = call(els, study, list(population))
            calls.append({"kind": "elite", "population": list(population), "out": out})
            if isinstance(out, Exc):
                raise ValueError(out[1])
            return out

        sampler._child_generation_strategy = child_gen
        sampler._elite_population_selection_strategy = elite

        def objective(trial: Any) -> Any:
            for n, d in space.items():
                trial._suggest(n, d)
            if constrained:
                trial.set_user_attr("c", [float(orng.choice([-1, 0, 0, 1, 2])), float(orng.choice([-1, 0, 1]))])
            if lattice:
                return [float(orng.randint(0, 4)) for _ in range(d_obj)]
            return [orng.uniform(-2.0, 2.0) for _ in range(d_obj)]

        study = optuna.create_study(directions=["maximize" if d == "max" else "minimize" for d in dirs], sampler=sampler)
        res = call(study.optimize, objective, n_trials=n_trials)
        chk.count("sampler:operator=%s" % opname)
        if isinstance(res, Exc):
            chk.count("sampler:optimize-raised:%s" % res[0])
        # -- replay every recorded call through the model ---------------------------------------------------------------
        reqs, metas = [], []
        for c in calls:
            if c["kind"] == "elite":
                pop = c["population"]
                values = [list(t.values) for t in pop]
                cons = [t.system_attrs.get(R.CKEY) for t in pop] if constrained else None
                pens = [] if cons is None else [penalty(cs) for cs in cons]
                reqs.append({"op": "elite", "pop": [ind_json(t.number, t.values, None if cons is None else cons[i]) for i, t in enumerate(pop)],
                             "enc": enc_for(values, pens), "dirs": dirs, "constrained": constrained, "popSize": pop_size})
            else:
                sp = c["space"]
                reqs.append({"op": "child", "cfg": cfg_json(cgs._crossover_prob, cgs._swapping_prob, cgs._mutation_prob, xo.n_parents, constrained, dirs),
                             "space": [[n, K.mdist(d, "bin")] for n, d in sp.items()],
                             "pop": [ind_json(t.number, t.values, t.system_attrs.get(R.CKEY) if constrained else None,
                                              [[n, K.tok(v)] for n, v in t.params.items()], with_bits=False) for t in c["parents"]],
                             "script": c["script"], "env": env_tables(sp, [t.params for t in c["parents"]], c["script"])})
            metas.append(c)
        ms = core.driver_batch("nsga2", reqs) if reqs else []
        for c, req, m in zip(metas, reqs, ms):
            if c["kind"] == "elite":
                chk.count("sampler:select_parent")
                chk.case({"fn": "select_parent", "pop": req["pop"], "dirs": dirs, "popSize": pop_size}, nontrivial=len(c["population"]) > pop_size)
                got = c["out"]
                if isinstance(got, Exc):
                    chk.violation({"fn": "NSGAIIElitePopulationSelectionStrategy", "kind": "exception"}, {"pop": req["pop"], "got": got},
                                  "elite selection raised %s inside a sampler run" % (got,))
                    continue
                sel = [t.number for t in got]
                n = len(c["population"])
                if len(sel) != min(pop_size, n) or len(set(sel)) != len(sel):
                    chk.violation({"fn": "NSGAIIElitePopulationSelectionStrategy", "kind": "size"}, {"pop": req["pop"], "got": sel},
                                  "elite selection inside a sampler run returned %s for population_size %d and %d trials" % (sel, pop_size, n))
                elif m.get("eliteF") != sel:
                    chk.broke("correspondence", {"stage": "sampler", "operator": opname, "call": "select_parent", "req": req, "what": "code %s, model (float instance) %s" % (sel, str(m)[:300])})
            else:
                chk.count("sampler:sample_relative")
                n_ops = sum(1 for dr in c["script"] if "op" in dr)
                chk.case({"fn": "child", "req": {k: req[k] for k in ("cfg", "space", "script")}}, nontrivial=n_ops >= 1)
                got = c["out"]
                w = {"operator": opname, "space": {n: repr(d) for n, d in c["space"].items()}, "script": c["script"][:30]}
                if isinstance(got, Exc):
                    chk.count("sampler:child-raises-%s" % got[0])
                    if m.get("stop") != got[0]:
                        chk.broke("correspondence", {"stage": "sampler", "case": w, "what": "the code raises %s, the model answers %s" % (got, str(m)[:300])})
                    continue
                bad = {n: is_member(c["space"][n], v) for n, v in got.items() if n not in c["space"] or is_member(c["space"][n], v) is not None}
                if bad:
                    chk.violation({"fn": "NSGAIIChildGenerationStrategy.__call__", "kind": "outside-domain", "operator": opname}, dict(w, got={n: repr(v) for n, v in got.items()}),
                                  "child generation with %s returned %s; not in the declared domain: %s" % (opname, got, bad))
                    continue
                if n_ops >= 2:
                    chk.count("sampler:crossover-retried")
                if "ok" not in m or m["ok"]["rest"] != 0:
                    chk.broke("correspondence", {"stage": "sampler", "case": w, "what": "the code returns %s, the model answers %s" % (got, str(m)[:300])})
                elif m["ok"]["params"] != tok_pairs(K, got):
                    # float rounding inside the stepped-float / int projection can only matter next to a half-step tie
                    near_tie = False
                    for (n_, tv), (_, mv) in zip(tok_pairs(K, got), m["ok"]["params"]):
                        if tv != mv:
                            near_tie = True
                    chk.broke("correspondence", {"stage": "sampler", "case": w, "near_tie": near_tie, "what": "the code returns %s, the model %s" % (tok_pairs(K, got), m["ok"]["params"])})
            chk.traces_validated += 1
        # the trials themselves: every parameter value is a member (the property, observed at the public level)
        for t in study.trials:
            for n, v in t.params.items():
                why = is_member(space[n], v)
                if why is not None:
                    chk.violation({"fn": "NSGAIISampler", "kind": "outside-domain", "operator": opname}, {"trial": t.number, "param": n, "value": repr(v), "dist": repr(space[n])},
                                  "NSGAIISampler(%s) trial %d: %s = %r is not in %r (%s)" % (opname, t.number, n, v, space[n], why))


# ------------------------------------------------------------------------------------------------------------------
# stage (C13): crowding distance under negation of objectives, on the real code
# ------------------------------------------------------------------------------------------------------------------
KNOWN_TIE_ORDER = {"site": "nsga2-crowding-tie-order", "level": "witness", "attributed": True}


def stage_mirror(R: Real, chk: core.Check, n_cases: int) -> None:
    r = chk.rng

    def run(values: list[list[float]], numbers: list[int]) -> tuple[dict[int, float], list[int]]:
        pop = [R.trial(k, list(v)) for k, v in zip(numbers, values)]
        d = R.es._calc_crowding_distance(pop)
        pop2 = [R.trial(k, list(v)) for k, v in zip(numbers, values)]
        R.es._crowding_distance_sort(pop2)
        return {k: float(d.get(k, 0.0)) for k in numbers}, [t.number for t in pop2]

    for _ in range(n_cases):
        n = r.choice([2, 3, 4, 5, 6, 8])
        d = r.choice([1, 2, 2, 3, 4])
        # columns without ties (C13's quantifier): a permutation of distinct values per objective, some +-inf at the ends
        cols = []
        for _i in range(d):
            vals = r.sample([float(x) for x in range(-6, 12)] + [x / 4.0 for x in range(1, 40, 2)], n)
            if r.random() < 0.2:
                vals[vals.index(min(vals))] = -INF
            if r.random() < 0.2:
                vals[vals.index(max(vals))] = INF
            if r.random() < 0.3:
                vals = [r.uniform(-5, 5) for _ in range(n)]
            cols.append(vals)
        values = [[cols[i][k] for i in range(d)] for k in range(n)]
        numbers = r.sample(range(3 * n), n)
        mask = [r.random() < 0.5 for _ in range(d)]
        if not any(mask):
            mask[r.randrange(d)] = True
        flipped = [[-v if m else v for v, m in zip(row, mask)] for row in values]
        da, oa = run(values, numbers)
        db, ob = run(flipped, numbers)
        w = {"values": [[xval(v) for v in row] for row in values], "numbers": numbers, "mask": mask}
        chk.case(dict(w, fn="_calc_crowding_distance mirrored"), nontrivial=n >= 3)
        chk.count("mirror:cases")
        if any(not same_float(da[k], db[k]) for k in numbers):
            chk.violation({"site": "nsga2-crowding-distance", "level": "site", "attributed": True}, dict(w, dist=str(da), dist_mirrored=str(db)),
                          "_calc_crowding_distance is not symmetric under negation of objectives %s although no objective has ties: %s vs %s" % (mask, da, db))
            continue
        if [da[k] for k in oa] != [db[k] for k in ob]:
            chk.violation({"site": "nsga2-crowding-distance", "level": "site", "attributed": True}, dict(w, order=oa, order_mirrored=ob),
                          "_crowding_distance_sort: the sequences of distances along the sorted fronts differ: %s vs %s" % ([da[k] for k in oa], [db[k] for k in ob]))
            continue
        if oa != ob:
            # since the repair of F-C13-1 the order is a function of (distance, number): `C13Nsga.crowding_sort_mirror`
            chk.violation({"site": "nsga2-crowding-tie-order", "level": "site", "attributed": True}, dict(w, order=oa, order_mirrored=ob, dist=str(da)),
                          "_crowding_distance_sort: the front %s (numbers %s) is ordered %s, with objectives %s negated %s, although the crowding distances are equal "
                          "trial by trial (%s): ties between equal distances are not broken symmetrically" % (
                              w["values"], numbers, oa, [i for i, m in enumerate(mask) if m], ob, da))
            continue
        chk.count("mirror:same-order")
        chk.traces_validated += 1
    # the witness front of the former finding F-C13-1, replayed on the real code: [0, 1] both ways since the repair
    # (`crowding_old_tie_order_not_symmetric` is what the code did before: [1, 0] / [0, 1])
    _, o1 = run([[0.0, 0.0], [1.0, 1.0]], [0, 1])
    _, o2 = run([[0.0, -0.0], [1.0, -1.0]], [0, 1])
    chk.extra["witness_crowding_tie_order"] = {"code": [o1, o2], "model": [[0, 1], [0, 1]], "model_before_repair": [[1, 0], [0, 1]]}
    if o1 != o2 and chk.pid == "C13":
        chk.violation(KNOWN_TIE_ORDER, {"kind": "witness", "which": "nsga2", "orders": [o1, o2]},
                      "NSGA-II _crowding_distance_sort: front {#0=(0,0), #1=(1,1)} of a (minimize, maximize) study is ordered %s, the same front of the mirrored "
                      "(minimize, minimize) study %s: equal crowding distances (inf, inf) are not ordered symmetrically%s" % (
                          o1, o2, " — exactly the behaviour before the repair of F-C13-1 (ties ordered by the raw last objective)" if (o1, o2) == ([1, 0], [0, 1]) else ""))
    elif (o1, o2) != ([0, 1], [0, 1]):
        chk.broke("correspondence", {"stage": "mirror", "what": "witness front: the code orders it %s / mirrored %s, the model [0, 1] / [0, 1]" % (o1, o2)})
    A = [[1.0, 0.0, 5.0], [1.0, 5.0, 0.0], [0.0, 6.0, 6.0], [3.0, -1.0, 7.0]]
    d1, _ = run(A, [0, 1, 2, 3])
    d2, _ = run([[-a, b, c] for a, b, c in A], [0, 1, 2, 3])
    chk.extra["witness_crowding_column_tie"] = {"dist": [d1[k] for k in range(4)], "dist_objective0_negated": [d2[k] for k in range(4)],
                                                "note": "outside C13's quantifier (objective 0 has a tie): distances change under negation"}
    if Fraction(d1[0]) == Fraction(d2[0]) or abs(d1[0] - 43.0 / 21.0) > 1e-12 or abs(d2[0] - 50.0 / 21.0) > 1e-12:
        chk.broke("correspondence", {"stage": "mirror", "what": "witness crowding_column_tie_witness: code distances %s / %s, model 43/21 / 50/21 for trial 0" % (d1, d2)})


# ------------------------------------------------------------------------------------------------------------------
def translate(chk: core.Check) -> None:
    """T-nsga2 (before `chk.prove`): regenerate Generated/Nsga2Src.lean — the content keys of the functions mirrored by
    Model/Nsga2.lean; the `modelled_source_unchanged` obligations of the Props modules are checked against it"""
    from verif.translators import nsga2_src

    nsga2_src.generate(chk)


def correspond(chk: core.Check, tier: str, stages: tuple[str, ...] | None = None, scale: int = 1, salt: int = 0) -> None:
    """run the NSGA-II stages that belong to the property being checked (or the ones named); everything is recorded on
    `chk` (broke / violation / counts).  C15: selection; C13: crowding distance under negated objectives; C10: crossover
    and mutation; the whole-sampler replay runs for C15 and C10."""
    if stages is None:
        stages = {"C15": ("crowd", "elite", "dom", "sampler"), "C13": ("mirror", "crowd"), "C10": ("crossover", "child", "sampler")}.get(
            chk.pid, ("crowd", "elite", "dom", "crossover", "child", "sampler"))
    quick = tier == "quick"
    t0 = time.time()
    plan = [
        ("crowd", lambda R: stage_crowd(R, chk, scale * (1200 if quick else 40000))),
        ("elite", lambda R: stage_elite(R, chk, scale * (1200 if quick else 40000))),
        ("dom", lambda R: stage_dom(R, chk, scale * (600 if quick else 20000))),
        ("mirror", lambda R: stage_mirror(R, chk, scale * (600 if quick else 20000))),
        ("crossover", lambda R: stage_crossover(R, chk, scale * (500 if quick else 15000), with_child=False)),
        ("child", lambda R: stage_crossover(R, chk, scale * (500 if quick else 15000), with_child=True)),
        ("sampler", lambda R: stage_sampler(R, chk, scale * (12 if quick else 400), 40 if quick else 60)),
    ]
    saved_rng = chk.rng
    try:
        core.ensure_driver()
        R = Real()
        for k, (name, fn) in enumerate(plan):
            if name not in stages:
                continue
            # every stage has its own generator derived from the seed only, so that a stage can be replayed on its own
            chk.rng = random.Random(chk.seed * 1000003 + 7919 * (k + 1) + 104729 * salt)
            nv, nb = len(chk.violations), len(chk.broken)
            fn(R)
            for v in chk.violations[nv:]:
                if isinstance(v.get("witness"), dict):
                    v["witness"]["nsga2_stage"] = name
            for b in chk.broken[nb:]:
                if isinstance(b.get("detail"), dict):
                    b["detail"]["nsga2_stage"] = name
    except core.DriverBroken as e:
        chk.broke("correspondence", {"driver": str(e)[:800]})
    finally:
        chk.rng = saved_rng
    chk.extra["nsga2_stages"] = list(stages)
    chk.extra["nsga2_wall_s"] = round(time.time() - t0, 1)
    chk.assumptions += [
        "NSGA-II model: objective values of a population are never NaN (the storage refuses NaN for COMPLETE trials); trials of a population are told apart by their number",
        "NSGA-II model: the crowding arithmetic is proved over exact rationals with +-inf; the same generic definitions run at IEEE doubles in the driver and are "
        "compared bit for bit with the code; where float rounding makes the float distances differ from the rational ones the exact instance is not compared",
        "NSGA-II model: non-domination ranks are computed by Model/Rank.lean on an order-embedded integer image of the loss values (ranks depend on comparisons only)",
        "NSGA-II model: the crossover operators and the random generator are abstract (every draw / returned vector is read from a script); log/exp/nextafter are tables "
        "evaluated by the harness at the points the model asks for; math.exp overflow (|raw log-space value| > 709) is not modelled",
    ]
    chk.trusted += ["verif/props/c15_nsga.py oracles: O(n^2) peeling, size/distinctness, `_contains(to_internal_repr(v))` membership, recording random generator"]


def search(chk: core.Check) -> None:
    """failing-input search (DESIGN 1.5 step 5) for the NSGA-II part: when a proof obligation, T-nsga2 or a stage of the
    tie broke and no violation is known, the stages of this property are run again on fresh cases, ten times as many —
    their model-free oracles (size / distinct members / whole better fronts first / descending distances / an extreme
    of every finite objective at inf / symmetric distances / domain membership) are what can turn up a concrete failure"""
    mine = any(isinstance(b.get("detail"), dict) and (b["detail"].get("nsga2_stage") or "T-nsga2" in b["detail"] or "Nsga" in str(b["detail"].get("module", "")))
               for b in chk.broken)
    if not mine or chk.violations:
        return
    chk.search_log.append("NSGA-II: re-running the stages of %s on 10x as many fresh cases (oracles independent of the model)" % chk.pid)
    nb = len(chk.broken)
    correspond(chk, "quick", None, scale=10, salt=1)
    del chk.broken[nb + 5:]  # keep a few of the additional disagreements only
    chk.search_log.append("NSGA-II search finished; violations=%d" % len(chk.violations))


def replay(chk: core.Check, rep: dict[str, Any]) -> int | None:
    """Replay of a failure recorded by one of the stages above: the stage is re-run with the recorded seed and tier.
    Returns None when the replay file does not come from this module."""
    stage = None
    if rep.get("kind") == "violation" and isinstance(rep.get("witness"), dict):
        stage = rep["witness"].get("nsga2_stage")
    elif rep.get("kind") != "violation":
        for item in rep.get("no_longer_checks", []):
            det = item.get("detail")
            if isinstance(det, dict) and det.get("nsga2_stage"):
                stage = det["nsga2_stage"]
                break
    if stage is None:
        return None
    chk.seed = int(rep.get("seed", 0))
    print("re-running NSGA-II stage %r with seed %d (tier %s); recorded: %s" % (stage, chk.seed, rep.get("tier", "quick"), str(rep.get("message") or rep.get("no_longer_checks"))[:600]))
    correspond(chk, rep.get("tier", "quick"), (stage,))
    if chk.violations:
        print("REPRODUCED: %s" % chk.violations[0]["message"][:700])
        return 1
    if chk.broken:
        print("REPRODUCED: %d recorded item(s) still do not check; first: %s" % (len(chk.broken), core.canon(chk.broken[0]["detail"])[:600]))
        return 1
    print("not reproduced")
    return 0
