"""C16 — pruners never prune what their contract protects.

prove:      Props/C16.lean (theorems about Model/Pruners.lean for all histories / parameter settings /
            both directions) + Generated/PrunersInt.lean (integer kernels regenerated from the source,
            proved equal to the hand model) + Props/C16ReportGen.lean (the GLUE Trial.report /
            Trial.should_prune / Fixed+Frozen / _filter_study regenerated from the source as statement
            IR, proved equal to Model/Pruners.lean reportTrial / shouldPruneTrial / step; see
            c16_report_gen.py).
correspond: generated report/should_prune/tell histories are driven through the REAL
            `optuna.create_study(pruner=...)`, `study.ask()`, `trial.report`, `trial.should_prune()`,
            `study.tell` on in-memory studies for every pruner class and a parameter grid, and through
            the Lean model (compiled driver, real crc32 values passed in); every decision, the
            `completed_rung_*` attributes, Hyperband's budgets / bracket and the helper functions are
            compared.  Every model answer carries "gen" (the same call through the generated glue).
            c16_report_gen.report_k: one trial object with a recording pruner (stored values, warnings,
            exceptions, the snapshot handed to the pruner).
observe:    the protections are checked DIRECTLY on the implementation by an oracle written from the
            docstrings (independent of the Lean model): warm-up, start-up, interval, patience,
            strictly-best, threshold iff, nop, first rung, bracket = f(name, number).
A model/code disagreement is `broke`; a failed oracle is a `violation`.
"""
from __future__ import annotations

import binascii
import json
import math
import random
import warnings
from fractions import Fraction
from typing import Any

from verif import core

NAN = float("nan")
INF = float("inf")
STATE_CODE = {"running": 0, "complete": 1, "pruned": 2, "fail": 3}

RULE = (
    "seeded histories (2-9 trials, interleaved, steps with gaps / out of order / duplicates, values = small dyadic "
    "rationals with many ties plus NaN and +-inf, end states complete/pruned/fail/auto) for a pruner drawn from "
    "{Nop, Median, Percentile, Threshold, SuccessiveHalving (int and 'auto' min_resource), Hyperband (int and 'auto' "
    "max_resource), Patient over each / over None} x a parameter grid x {minimize, maximize}; one third of the cases "
    "are built around a protected situation (a trial strictly best at every report, reports below warm-up, fewer "
    "finished trials than n_startup_trials, inside the patience window). Every should_prune() is run on the real "
    "pruner and on the Lean model. A case is non-trivial when it contains >= 1 decision True and >= 1 decision False "
    "or exercises a protected situation with a pruner that prunes elsewhere in the run; distinct by SHA-1 of "
    "(pruner, direction, op list)."
)


# ------------------------------------------------------------------------------------------------
# value tokens
# ------------------------------------------------------------------------------------------------
def enc(v: float) -> str:
    if math.isnan(v):
        return "nan"
    if v == INF:
        return "inf"
    if v == -INF:
        return "-inf"
    f = Fraction(v)
    return "%d/%d" % (f.numerator, f.denominator)


def dec(s: str) -> float:
    if s == "nan":
        return NAN
    if s == "inf":
        return INF
    if s == "-inf":
        return -INF
    return float(Fraction(s))


def frac(s: str) -> Fraction | None:
    return None if s in ("nan", "inf", "-inf") else Fraction(s)


# ------------------------------------------------------------------------------------------------
# pruner specs  ->  real pruner objects / model JSON
# ------------------------------------------------------------------------------------------------
def make_real(spec: dict[str, Any]) -> Any:
    import optuna

    k = spec["k"]
    P = optuna.pruners
    if k == "nop":
        return P.NopPruner()
    if k == "median":
        return P.MedianPruner(n_startup_trials=spec["startup"], n_warmup_steps=spec["warmup"],
                              interval_steps=spec["interval"], n_min_trials=spec["nmin"])
    if k == "percentile":
        return P.PercentilePruner(spec["q"], n_startup_trials=spec["startup"], n_warmup_steps=spec["warmup"],
                                  interval_steps=spec["interval"], n_min_trials=spec["nmin"])
    if k == "threshold":
        return P.ThresholdPruner(lower=None if spec["lower"] is None else dec(spec["lower"]),
                                 upper=None if spec["upper"] is None else dec(spec["upper"]),
                                 n_warmup_steps=spec["warmup"], interval_steps=spec["interval"])
    if k == "sh":
        return P.SuccessiveHalvingPruner(min_resource=spec["minres"], reduction_factor=spec["eta"],
                                         min_early_stopping_rate=spec["rate"], bootstrap_count=spec["bootstrap"])
    if k == "hyperband":
        return P.HyperbandPruner(min_resource=spec["minres"], max_resource=spec["maxres"],
                                 reduction_factor=spec["eta"], bootstrap_count=spec["bootstrap"])
    if k == "patient":
        w = None if spec["wrapped"] is None else make_real(spec["wrapped"])
        return P.PatientPruner(w, patience=spec["patience"], min_delta=dec(spec["delta"]))
    raise ValueError(k)


def model_json(spec: dict[str, Any], real: Any, hb_nb: Any = "read") -> dict[str, Any]:
    """The model's view of the pruner *now* (stateful pieces are read off the real object: the
    estimated 'auto' min_resource of SH before the call, Hyperband's bracket count after it)."""
    k = spec["k"]
    if k == "nop":
        return {"k": "nop"}
    if k in ("median", "percentile"):
        q = 50.0 if k == "median" else spec["q"]
        return {"k": "percentile", "q": enc(float(q)), "startup": spec["startup"], "warmup": spec["warmup"],
                "interval": spec["interval"], "nmin": spec["nmin"]}
    if k == "threshold":
        return {"k": "threshold", "lower": spec["lower"] if spec["lower"] is not None else "-inf",
                "upper": spec["upper"] if spec["upper"] is not None else "inf",
                "warmup": spec["warmup"], "interval": spec["interval"]}
    if k == "sh":
        return {"k": "sh", "minres": real._min_resource, "eta": spec["eta"], "rate": spec["rate"],
                "bootstrap": spec["bootstrap"]}
    if k == "hyperband":
        nb = real._n_brackets if len(real._pruners) > 0 else None
        return {"k": "hyperband", "minres": spec["minres"], "eta": spec["eta"], "bootstrap": spec["bootstrap"],
                "nb": nb}
    if k == "patient":
        w = None if spec["wrapped"] is None else model_json(spec["wrapped"], real._wrapped_pruner)
        return {"k": "patient", "wrapped": w, "patience": spec["patience"], "delta": spec["delta"]}
    raise ValueError(k)


def innermost(spec: dict[str, Any], real: Any) -> tuple[dict[str, Any], Any]:
    while spec["k"] == "patient" and spec["wrapped"] is not None:
        spec, real = spec["wrapped"], real._wrapped_pruner
    return spec, real


# ------------------------------------------------------------------------------------------------
# the oracle: what the contract (docstrings + property statement) says, from the history alone
# ------------------------------------------------------------------------------------------------
class Book:
    """Harness-side record of the history (never read back from optuna)."""

    def __init__(self) -> None:
        self.state: list[str] = []
        self.inter: list[dict[int, float]] = []

    def ask(self) -> int:
        self.state.append("running")
        self.inter.append({})
        return len(self.state) - 1


def better(direction: str, a: float, b: float) -> bool:
    return a < b if direction == "min" else a > b


def strictly_best(book: Book, n: int, direction: str, among: "set[int] | None" = None) -> bool:
    """every value of trial n is strictly better than every value of every other trial (of `among`, when given)"""
    own = list(book.inter[n].values())
    if not own or any(math.isnan(v) for v in own):
        return False
    for m, d in enumerate(book.inter):
        if m == n or (among is not None and m not in among):
            continue
        for u in d.values():
            if math.isnan(u):
                continue
            if not all(better(direction, v, u) for v in own):
                return False
    return True


def first_in_interval(steps: list[int], last: int, warmup: int, interval: int) -> bool:
    """Spec of the check points warmup, warmup+interval, ...: `last` is the first reported step at or
    after the latest check point <= last."""
    k = (last - warmup) // interval
    lo = warmup + k * interval
    return not any(s != last and lo <= s for s in steps)


def protections(spec: dict[str, Any], real: Any, book: Book, n: int, direction: str) -> list[str]:
    """Reasons why should_prune() of trial n must be False now."""
    k = spec["k"]
    d = book.inter[n]
    steps = list(d.keys())
    out: list[str] = []
    if not steps:
        return ["no-report"]
    last = max(steps)
    if k == "nop":
        out.append("nop")
    elif k in ("median", "percentile"):
        if last < spec["warmup"]:
            out.append("warmup")
        if sum(1 for s in book.state if s in ("complete", "pruned", "fail")) < spec["startup"]:
            out.append("startup")
        if last >= spec["warmup"] and not first_in_interval(steps, last, spec["warmup"], spec["interval"]):
            out.append("off-interval")
        if strictly_best(book, n, direction):
            out.append("strictly-best")
    elif k == "threshold":
        if last < spec["warmup"]:
            out.append("warmup")
        elif not first_in_interval(steps, last, spec["warmup"], spec["interval"]):
            out.append("off-interval")
    elif k == "sh":
        if spec["bootstrap"] == 0 and strictly_best(book, n, direction):
            out.append("strictly-best")
        if isinstance(spec["minres"], int) and last < spec["minres"] * spec["eta"] ** spec["rate"]:
            out.append("first-rung")
    elif k == "hyperband":
        if spec["bootstrap"] == 0 and strictly_best(book, n, direction):
            out.append("strictly-best")
        if last < spec["minres"]:
            out.append("first-rung")
        if spec["maxres"] == "auto" and not any(book.state[m] == "complete" and book.inter[m] for m in range(len(book.state))):
            out.append("hb-undetermined")
    elif k == "patient":
        p = spec["patience"]
        delta = Fraction(dec(spec["delta"]))
        ss = sorted(steps)
        if len(ss) <= p + 1:
            out.append("patience-short")
        else:
            before = [d[s] for s in ss[: len(ss) - p - 1] if not math.isnan(d[s])]
            after = [d[s] for s in ss[len(ss) - p - 1:] if not math.isnan(d[s])]

            def within(u: float, b: float) -> bool:  # u at least as good as b up to delta (exact)
                if math.isinf(u) or math.isinf(b):
                    return (u <= b) if direction == "min" else (u >= b)
                return Fraction(u) <= Fraction(b) + delta if direction == "min" else Fraction(u) >= Fraction(b) - delta

            if any(all(within(u, b) for b in before) for u in after):
                out.append("patience-improving")
        if spec["wrapped"] is not None:
            out += ["wrapped:" + r for r in protections(spec["wrapped"], real._wrapped_pruner, book, n, direction)]
    return out


def exact_expectation(spec: dict[str, Any], book: Book, n: int) -> bool | None:
    """Pruners whose decision the property fixes completely (threshold: iff; nop: never)."""
    if spec["k"] == "nop":
        return False
    if spec["k"] == "threshold":
        d = book.inter[n]
        if not d:
            return False
        last = max(d)
        if last < spec["warmup"] or not first_in_interval(list(d), last, spec["warmup"], spec["interval"]):
            return False
        v = d[last]
        lo = -INF if spec["lower"] is None else dec(spec["lower"])
        hi = INF if spec["upper"] is None else dec(spec["upper"])
        return math.isnan(v) or v < lo or v > hi
    return None


# ------------------------------------------------------------------------------------------------
# running one case on the real code and on the model
# ------------------------------------------------------------------------------------------------
def crc_of(name: str, n: int) -> int:
    return binascii.crc32(("%s_%d" % (name, n)).encode())


def ilog_brackets(min_res: int, max_res: int, eta: int) -> int:
    """floor(log_eta(max/min)) + 1 in exact integer arithmetic (<= 0 when max < min)."""
    if max_res < min_res:
        k = 0
        while min_res > max_res * eta ** k:  # max/min < 1: log negative
            k += 1
        return -k + 1
    k = 0
    while min_res * eta ** (k + 1) <= max_res:
        k += 1
    return k + 1


def near_tie(why: dict[str, Any]) -> bool:
    b, p = why.get("best"), why.get("p")
    if b is None or p is None:
        return False
    fb, fp = frac(b), frac(p)
    if fb is None or fp is None:
        return False
    return abs(fb - fp) <= Fraction(1, 10 ** 9) * max(1, abs(fp), abs(fb))


def find_why(why: dict[str, Any]) -> dict[str, Any]:
    return why


def run_case(case: dict[str, Any], drv: core.Driver | None, want_dump: bool = True, tmp: str | None = None) -> dict[str, Any]:
    """Execute the op list on a fresh real in-memory study (and on the model when `drv` is given).
    Returns {"mismatch": [...], "violations": [...], "tags": {...}, "decisions": [...]}."""
    import optuna
    from optuna.trial import TrialState

    direction = case["dir"]
    spec = case["pruner"]
    name = case["name"]
    real = make_real(spec)
    handle = None
    if case.get("storage", "mem") != "mem":
        import tempfile
        from verif import fleet
        handle = fleet.make(case["storage"], tmp or case.get("tmp") or tempfile.gettempdir())
    try:
        if case.get("prior"):
            # prior use of this pruner object by a study of the OPPOSITE direction (its own storage and name)
            other = optuna.create_study(direction="maximize" if direction == "min" else "minimize", pruner=real,
                                        study_name=name + "-prior", storage=optuna.storages.InMemoryStorage(),
                                        sampler=optuna.samplers.RandomSampler(seed=1))
            for i in range(3):
                t = other.ask()
                for st_ in range(4):
                    t.report(float((i * 7 + st_ * 3) % 5), st_)
                    t.should_prune()
                other.tell(t, float(i))
        study = optuna.create_study(direction="minimize" if direction == "min" else "maximize", pruner=real,
                                    study_name=name, storage=handle.storage if handle else optuna.storages.InMemoryStorage(),
                                    sampler=optuna.samplers.RandomSampler(seed=0))
        return _run_ops(case, drv, want_dump, study, real)
    finally:
        if handle is not None:
            handle.close()


def _run_ops(case: dict[str, Any], drv: core.Driver | None, want_dump: bool, study: Any, real: Any) -> dict[str, Any]:
    from optuna.trial import TrialState

    direction = case["dir"]
    spec = case["pruner"]
    name = case["name"]
    if drv is not None:
        drv.ask({"op": "reset", "dir": direction})
    book = Book()
    trials: list[Any] = []
    last_dec: dict[int, bool] = {}
    res: dict[str, Any] = {"mismatch": [], "violations": [], "tags": {}, "decisions": [], "notes": {}}
    tags = res["tags"]

    def tag(t: str) -> None:
        tags[t] = tags.get(t, 0) + 1

    inner_spec, inner_real = innermost(spec, real)
    hb_seen_nb: int | None = None
    for i, op in enumerate(case["ops"]):
        kind = op[0]
        if kind == "ask":
            trials.append(study.ask())
            book.ask()
            if drv is not None:
                drv.ask({"op": "ask"})
        elif kind == "report":
            _, n, step, tok = op
            if n >= len(trials) or book.state[n] != "running":
                continue
            v = dec(tok)
            trials[n].report(v, step)
            if step >= 0 and step not in book.inter[n]:
                book.inter[n][step] = v
            if drv is not None:
                o = drv.ask({"op": "report", "n": n, "step": step, "v": tok})
                if isinstance(o, dict) and o.get("gen") is not None:  # the same call through the GENERATED Trial.report (c16_report_gen)
                    res["mismatch"].append({"step": i, "n": n, "what": "generated Trial.report differs from the hand model", "gen": o["gen"]})
        elif kind == "tell":
            _, n, st = op
            if n >= len(trials) or book.state[n] != "running":
                continue
            if st == "auto":
                st = "pruned" if last_dec.get(n) else "complete"
            if st == "pruned" and not book.inter[n]:
                st = "fail"  # tell(PRUNED) without a report is stored without a value; keep it simple
            if st == "complete":
                study.tell(trials[n], 0.0)
            elif st == "pruned":
                lastv = book.inter[n][max(book.inter[n])]
                if math.isnan(lastv):
                    # tell(state=PRUNED) takes the last intermediate value as the value; NaN there is
                    # turned into a pruned trial without value -- fine for us
                    pass
                study.tell(trials[n], state=TrialState.PRUNED)
            else:
                study.tell(trials[n], state=TrialState.FAIL)
            real_state = study._storage.get_trial(trials[n]._trial_id).state.name.lower()
            book.state[n] = real_state if real_state in STATE_CODE else st
            if drv is not None:
                drv.ask({"op": "tell", "n": n, "state": STATE_CODE[book.state[n]]})
        elif kind == "prune":
            _, n = op
            if n >= len(trials) or book.state[n] != "running":
                continue
            # --- model view of stateful pruner pieces *before* the call
            pre_minres = inner_real._min_resource if inner_spec["k"] == "sh" else None
            must_false = protections(spec, real, book, n, direction)
            exact = exact_expectation(spec, book, n)
            if inner_spec["k"] == "hyperband" and inner_spec["bootstrap"] == 0 and len(inner_real._pruners) > 0:
                # Hyperband delegates to the successive-halving pruner of the trial's bracket ON THE BRACKET VIEW (C16ReportGen
                # hyperband_delegates_to_bracket_view): a trial strictly better than the other trials of ITS bracket is not pruned
                try:
                    bids = [inner_real._get_bracket_id(study, study._storage.get_trial(t._trial_id)) for t in trials]
                    mine = {m for m, b in enumerate(bids) if b == bids[n]}
                    if strictly_best(book, n, direction, among=mine) and "strictly-best" not in must_false:
                        must_false.append("strictly-best-in-bracket")
                except Exception:  # noqa: BLE001 - the bracket walk itself is checked below / by bracket_oracle
                    pass
            got = bool(trials[n].should_prune())
            last_dec[n] = got
            res["decisions"].append(got)
            tag("decision:%s" % got)
            for r in must_false:
                tag("protected:" + r)
            # --- the property, directly on the implementation
            if got and must_false:
                res["violations"].append({"step": i, "kind": "pruned-protected", "reasons": must_false, "n": n})
            if exact is not None and got != exact:
                res["violations"].append({"step": i, "kind": "%s-not-iff" % spec["k"], "expected": exact, "got": got, "n": n})
            # --- Hyperband: bracket facts on the implementation
            if inner_spec["k"] == "hyperband" and len(inner_real._pruners) > 0:
                nb = inner_real._n_brackets
                frozen = study._storage.get_trial(trials[n]._trial_id)
                bid = inner_real._get_bracket_id(study, frozen)
                if not (0 <= bid < nb):
                    res["violations"].append({"step": i, "kind": "bracket-out-of-range", "bracket": bid, "nb": nb, "n": n})
                tag("bracket:%d/%d" % (bid, nb))
                if hb_seen_nb is None:
                    hb_seen_nb = nb
                    mx = inner_real._max_resource
                    exact_nb = ilog_brackets(inner_spec["minres"], mx, inner_spec["eta"])
                    if nb != exact_nb:
                        res["notes"]["hb_float_log"] = {"minres": inner_spec["minres"], "maxres": mx, "eta": inner_spec["eta"],
                                                        "code": nb, "exact": exact_nb}
                        tag("hb-float-log-differs")
            # --- the model
            if drv is not None:
                pj = model_json(spec, real)
                if inner_spec["k"] == "sh":
                    # min_resource as it was before the call (None = 'auto' not estimated yet)
                    q = pj
                    while q["k"] == "patient":
                        q = q["wrapped"]
                    q["minres"] = pre_minres
                crcs = [crc_of(name, m) for m in range(len(trials))] if inner_spec["k"] == "hyperband" else []
                out = drv.ask({"op": "shouldPrune", "n": n, "pruner": pj, "crc": crcs})
                if "out" not in out:
                    raise core.DriverBroken("driver: %s" % out)
                why = out.get("why", {})
                tag("branch:" + str(why.get("branch")))
                if out.get("gen") is not None:  # the same call through the GENERATED Trial.should_prune (c16_report_gen)
                    res["mismatch"].append({"step": i, "n": n, "what": "generated Trial.should_prune differs from the hand model", "gen": out["gen"]})
                if out["out"] != got:
                    if why.get("branch") == "compare" and near_tie(why):
                        tag("near-tie-accepted")
                    else:
                        res["mismatch"].append({"step": i, "n": n, "model": out["out"], "code": got, "why": why})
                if inner_spec["k"] == "sh" and pre_minres is None and inner_real._min_resource is not None:
                    if why.get("minres") != inner_real._min_resource and "minres" in why:
                        res["mismatch"].append({"step": i, "n": n, "what": "estimated min_resource", "model": why.get("minres"),
                                                "code": inner_real._min_resource})
                if inner_spec["k"] == "hyperband" and len(inner_real._pruners) > 0 and why.get("branch") == "hb":
                    if why.get("budgets") != list(inner_real._trial_allocation_budgets):
                        res["mismatch"].append({"step": i, "what": "budgets", "model": why.get("budgets"),
                                                "code": list(inner_real._trial_allocation_budgets)})
                    if why.get("bracket") != bid:
                        res["mismatch"].append({"step": i, "what": "bracket", "model": why.get("bracket"), "code": bid, "n": n})
        else:
            raise ValueError(op)
        if res["violations"]:
            break
    # --- final state: completed_rung_* attributes
    if drv is not None and want_dump and not res["violations"]:
        dump = drv.ask({"op": "dump"})["trials"]
        for n, t in enumerate(trials):
            fz = study._storage.get_trial(t._trial_id)
            real_r = sorted((int(k[len("completed_rung_"):]), enc(float(v))) for k, v in fz.system_attrs.items()
                            if k.startswith("completed_rung_"))
            model_r = sorted((int(a), b) for a, b in dump[n]["rungs"])
            if real_r != model_r:
                res["mismatch"].append({"what": "rungs", "n": n, "model": model_r, "code": real_r})
                break
            real_i = sorted((int(s), enc(float(v))) for s, v in fz.intermediate_values.items())
            model_i = sorted((int(a), b) for a, b in dump[n]["inter"])
            if real_i != model_i or STATE_CODE.get(fz.state.name.lower()) != dump[n]["state"]:
                res["mismatch"].append({"what": "trial", "n": n, "model": [model_i, dump[n]["state"]],
                                        "code": [real_i, fz.state.name]})
                break
    return res


# ------------------------------------------------------------------------------------------------
# generators
# ------------------------------------------------------------------------------------------------
def gen_value(r: random.Random, lo: int = -4, hi: int = 12, p_special: float = 0.08) -> str:
    x = r.random()
    if x < p_special * 0.5:
        return "nan"
    if x < p_special * 0.75:
        return "inf"
    if x < p_special:
        return "-inf"
    den = r.choice([1, 1, 1, 2, 4, 8])
    return enc(r.randint(lo * den, hi * den) / den)


def q_is_float_safe(q: float) -> bool:
    """numpy computes the virtual index (n-1)*(q/100) in floats, the model over Q.  Keep only percentiles
    for which both pick the same neighbours for every sample size we can generate (otherwise an
    infinity next to the boundary could make the two differ by more than rounding)."""
    for qq in (q, 100 - q):
        for m in range(0, 80):
            if math.floor(m * (qq / 100)) != (Fraction(qq) * m / 100).__floor__():
                return False
    return True


def gen_pruner(r: random.Random, allow_patient: bool = True) -> dict[str, Any]:
    kinds = ["median", "percentile", "threshold", "sh", "hyperband", "nop"] + (["patient", "patient"] if allow_patient else [])
    k = r.choice(kinds)
    if k == "nop":
        return {"k": "nop"}
    if k in ("median", "percentile"):
        s: dict[str, Any] = {"k": k, "startup": r.choice([0, 0, 1, 2, 3, 5]), "warmup": r.choice([0, 0, 1, 2, 3, 5]),
                             "interval": r.choice([1, 1, 2, 3, 4]), "nmin": r.choice([1, 1, 1, 2, 3])}
        if k == "percentile":
            q = r.choice([0.0, 10.0, 25.0, 25.0, 33.3, 50.0, 62.5, 75.0, 90.0, 100.0, round(r.uniform(0, 100), 2)])
            while not q_is_float_safe(q):
                q = round(r.uniform(0, 100), 2)
            s["q"] = q
        return s
    if k == "threshold":
        lo = r.choice([None, "0/1", "1/1", "-1/2", "5/2", "-inf"])
        hi = r.choice([None, "4/1", "7/2", "8/1", "inf", "5/2"])
        if lo is None and hi is None:
            hi = "6/1"
        if lo is not None and hi is not None and dec(lo) > dec(hi):
            lo, hi = hi, lo
        return {"k": k, "lower": lo, "upper": hi, "warmup": r.choice([0, 0, 1, 2, 4]), "interval": r.choice([1, 1, 2, 3])}
    if k == "sh":
        boot = r.choice([0, 0, 0, 1, 2])
        minres: Any = r.choice([1, 1, 2, 3, "auto"]) if boot == 0 else r.choice([1, 1, 2, 3])
        return {"k": k, "minres": minres, "eta": r.choice([2, 2, 3, 4]), "rate": r.choice([0, 0, 1, 2]), "bootstrap": boot}
    if k == "hyperband":
        boot = r.choice([0, 0, 0, 1, 2])
        maxres: Any = r.choice([4, 9, 10, 16, 27, 30, "auto"]) if boot == 0 else r.choice([4, 9, 10, 16, 27, 30])
        return {"k": k, "minres": r.choice([1, 1, 2, 3]), "maxres": maxres, "eta": r.choice([2, 3, 3, 4]), "bootstrap": boot}
    # patient
    wrapped = None if r.random() < 0.3 else gen_pruner(r, allow_patient=r.random() < 0.15)
    return {"k": "patient", "wrapped": wrapped, "patience": r.choice([0, 1, 1, 2, 3]),
            "delta": r.choice(["0/1", "0/1", "1/2", "1/1", "1/4"])}


def gen_case(r: random.Random, idx: int, protect: str | None = None, spec: dict[str, Any] | None = None,
             n_trials: tuple[int, int] = (2, 9), max_step: int = 14) -> dict[str, Any]:
    direction = r.choice(["min", "max"])
    spec = spec or gen_pruner(r)
    name = "c16-%d-%d" % (idx, r.randrange(10 ** 6))
    ops: list[list[Any]] = []
    nt = r.randint(*n_trials)
    hero = r.randrange(nt) if protect == "best" or (protect is None and r.random() < 0.25) else None
    # value bands: the hero reports strictly better values than everyone else
    def val(n: int) -> str:
        if hero is not None:
            if n == hero:
                v = r.randint(-16, -1) / r.choice([1, 2, 4])
                return enc(v if direction == "min" else -v)
            tok = gen_value(r, 0, 12, 0.1)
            if tok == ("-inf" if direction == "min" else "inf"):
                tok = "nan"
            if tok not in ("nan", "inf", "-inf") and direction == "max":
                tok = enc(-abs(dec(tok)))
            return tok
        return gen_value(r)

    plans: list[list[list[Any]]] = []
    for n in range(nt):
        steps: list[int] = []
        s = r.choice([0, 0, 0, 1, 2])
        ln = r.randint(0, max_step) if r.random() < 0.9 else 0
        if protect == "warmup" and r.random() < 0.5:
            ln = r.randint(1, 4)
        for _ in range(ln):
            steps.append(s)
            s += r.choice([1, 1, 1, 1, 2, 3])
        if len(steps) >= 2 and r.random() < 0.2:
            i, j = r.sample(range(len(steps)), 2)
            steps[i], steps[j] = steps[j], steps[i]
        if steps and r.random() < 0.1:
            steps.insert(r.randrange(len(steps) + 1), r.choice(steps))
        plan: list[list[Any]] = []
        for st in steps:
            plan.append(["report", n, st, val(n)])
            if r.random() < 0.85:
                plan.append(["prune", n])
            if r.random() < 0.05:
                plan.append(["prune", n])
        if not steps and r.random() < 0.5:
            plan.append(["prune", n])
        if protect == "startup" and r.random() < 0.4:
            end: Any = None  # left running
        else:
            x = r.random()
            end = "complete" if x < 0.5 else "auto" if x < 0.75 else "pruned" if x < 0.87 else "fail" if x < 0.95 else None
        if end is not None:
            plan.append(["tell", n, end])
        plans.append(plan)
    # interleave: up to `width` trials are running at a time
    width = r.choice([1, 1, 2, 3])
    pending = list(range(nt))
    active: list[int] = []
    cursor = [0] * nt
    while pending or active:
        while pending and len(active) < width:
            n = pending.pop(0)
            ops.append(["ask"])
            active.append(n)
        n = r.choice(active)
        burst = r.randint(1, 4)
        for _ in range(burst):
            if cursor[n] >= len(plans[n]):
                active.remove(n)
                break
            ops.append(plans[n][cursor[n]])
            cursor[n] += 1
    # the same pruner OBJECT may have served another study before (a user re-using one pruner instance for a minimize and a
    # maximize study): nothing a pruner memoises may depend on that other study
    return {"dir": direction, "name": name, "pruner": spec, "ops": ops, "hero": hero, "protect": protect,
            "prior": r.random() < 0.15 and "hyperband" not in json.dumps(spec)}   # (Hyperband legitimately fixes its bracket count on first use)


# ------------------------------------------------------------------------------------------------
# function-level ties (helpers of the pruner modules vs the model's functions)
# ------------------------------------------------------------------------------------------------
def function_ties(chk: core.Check, drv: core.Driver, n: int) -> None:
    import numpy as np
    from optuna.pruners import _hyperband, _percentile, _successive_halving
    from optuna.study import StudyDirection

    r = chk.rng
    warnings.simplefilter("ignore")
    for _ in range(n):
        try:
            _function_tie_round(chk, drv, r, np, _hyperband, _percentile, _successive_halving, StudyDirection)
        except core.DriverBroken:
            raise
        except Exception as e:  # the real helper crashed on a generated input: a broken tie, not an infrastructure failure
            import traceback
            chk.broke("correspondence", {"crash": traceback.format_exc()[-900:], "exc": type(e).__name__})
            break
    chk.extra["function_tie_rounds"] = n


def _function_tie_round(chk: core.Check, drv: core.Driver, r: random.Random, np: Any, _hyperband: Any, _percentile: Any,
                        _successive_halving: Any, StudyDirection: Any) -> None:
    if True:
        # _is_first_in_interval_step
        w, iv = r.choice([0, 0, 1, 2, 3, 7]), r.choice([1, 1, 2, 3, 5])
        steps = sorted(set(r.randint(0, r.choice([6, 12, 25])) for _ in range(r.randint(1, 8))))
        r.shuffle(steps)
        step = max(steps)
        if step >= w:
            code = _percentile._is_first_in_interval_step(step, dict.fromkeys(steps).keys(), w, iv)
            model = drv.ask({"op": "fn", "f": "isFirst", "step": step, "steps": steps, "warmup": w, "interval": iv})["r"]
            spec_v = first_in_interval(steps, step, w, iv)
            chk.count("fn:isFirst:%s" % code)
            if code != model:
                chk.broke("correspondence", {"fn": "_is_first_in_interval_step", "args": [step, steps, w, iv], "model": model, "code": code})
            if code != spec_v:
                chk.violation({"kind": "interval-spec", "fn": "_is_first_in_interval_step"},
                              {"fn": "_is_first_in_interval_step", "args": [step, steps, w, iv], "code": code, "spec": spec_v},
                              "_is_first_in_interval_step%r = %s but the check-point spec says %s" % ((step, steps, w, iv), code, spec_v))
        # _is_trial_promotable_to_next_rung
        eta = r.choice([2, 3, 4, 5])
        comp = [gen_value(r, p_special=0.06) for _ in range(r.randint(0, 9))]
        comp = [c for c in comp if c != "nan"]
        value = gen_value(r, p_special=0.06)
        if value != "nan":
            d = r.choice(["min", "max"])
            comp2 = comp + [value]
            code = _successive_halving._is_trial_promotable_to_next_rung(
                dec(value), [dec(c) for c in comp2], eta, StudyDirection.MINIMIZE if d == "min" else StudyDirection.MAXIMIZE)
            model = drv.ask({"op": "fn", "f": "promotable", "value": value, "competing": comp2, "eta": eta, "dir": d})["r"]
            chk.count("fn:promotable:%s" % code)
            if bool(code) != model:
                chk.broke("correspondence", {"fn": "_is_trial_promotable_to_next_rung", "args": [value, comp2, eta, d], "model": model, "code": bool(code)})
            # spec: at most len//eta (at least 1) strictly better competitors may exist
            k = max(len(comp2) // eta, 1)
            n_better = sum(1 for c in comp2 if better(d, dec(c), dec(value)))
            if bool(code) != (n_better < k):
                # promotion fraction is not part of C16's protections: a departure is reported as a broken tie
                chk.broke("correspondence", {"fn": "_is_trial_promotable_to_next_rung", "args": [value, comp2, eta, d], "code": bool(code),
                                             "spec": "promotable iff fewer than max(len//eta, 1) strictly better competing values",
                                             "strictly_better": n_better, "slots": k})
        # nanpercentile
        vals = [gen_value(r, p_special=0.15) for _ in range(r.randint(1, 9))]
        q = r.choice([0.0, 25.0, 50.0, 75.0, 100.0, 12.5, 37.5, 62.5, 87.5])
        code_p = float(np.nanpercentile(np.array([dec(v) for v in vals], dtype=float), q))
        model_p = drv.ask({"op": "fn", "f": "percentile", "vals": vals, "q": enc(q)})["r"]
        chk.count("fn:percentile:%s" % ("nan" if math.isnan(code_p) else "inf" if math.isinf(code_p) else "fin"))
        mp = dec(model_p)
        same = (math.isnan(code_p) and math.isnan(mp)) or code_p == mp or \
            (math.isfinite(code_p) and math.isfinite(mp) and abs(code_p - mp) <= 1e-9 * max(1.0, abs(mp)))
        if not same:
            chk.broke("correspondence", {"fn": "numpy.nanpercentile", "args": [vals, q], "model": model_p, "code": enc(code_p)})
        # budgets / bracket walk
        nb, eta = r.randint(1, 7), r.choice([2, 3, 4])
        hb = _hyperband.HyperbandPruner(min_resource=1, max_resource=eta ** (nb - 1), reduction_factor=eta)
        hb._n_brackets = nb
        code_b = [hb._calculate_trial_allocation_budget(b) for b in range(nb)]
        model_b = drv.ask({"op": "fn", "f": "budgets", "nb": nb, "eta": eta})["r"]
        if code_b != model_b:
            chk.broke("correspondence", {"fn": "_calculate_trial_allocation_budget", "args": [nb, eta], "model": model_b, "code": code_b})
        if any(b <= 0 for b in code_b):
            chk.violation({"kind": "budget-nonpositive"}, {"nb": nb, "eta": eta, "budgets": code_b}, "non-positive bracket budget")
        chk.count("fn:budgets")


# ------------------------------------------------------------------------------------------------
# bracket = f(study name, trial number)
# ------------------------------------------------------------------------------------------------
def bracket_oracle(chk: core.Check, rounds: int) -> None:
    """Same (study name, number) on two different studies with different histories / different
    intermediate values / different storages objects -> same bracket; and the id is the budget walk of
    crc32(name_number)."""
    import optuna

    r = chk.rng
    for i in range(rounds):
        eta, minres, maxres = r.choice([2, 3, 4]), r.choice([1, 2]), r.choice([9, 16, 27, 50, 81])
        name = "b16-%d-%d" % (i, r.randrange(10 ** 6))
        ids: list[list[int]] = []
        for rep in range(2):
            hb = optuna.pruners.HyperbandPruner(min_resource=minres, max_resource=maxres, reduction_factor=eta)
            st = optuna.create_study(pruner=hb, study_name=name, storage=optuna.storages.InMemoryStorage(),
                                     direction=r.choice(["minimize", "maximize"]), sampler=optuna.samplers.RandomSampler(seed=rep))
            got = []
            nt = 12
            for n in range(nt):
                t = st.ask()
                for s in range(r.randint(0, 5)):
                    t.report(r.random() * 10, s)
                    t.should_prune()
                fz = st._storage.get_trial(t._trial_id)
                got.append(hb._get_bracket_id(st, fz) if hb._pruners else -1)
                if r.random() < 0.7:
                    st.tell(t, r.random())
            # recompute after the history has grown: still the same
            if hb._pruners:
                again = [hb._get_bracket_id(st, st._storage.get_trial(st._storage.get_trial_id_from_study_id_trial_number(st._study_id, n))) for n in range(nt)]
                walk = []
                for n in range(nt):
                    h = crc_of(name, n) % hb._total_trial_allocation_budget
                    b = 0
                    while h - hb._trial_allocation_budgets[b] >= 0:
                        h -= hb._trial_allocation_budgets[b]
                        b += 1
                    walk.append(b)
                for n in range(nt):
                    if got[n] != -1 and (got[n] != again[n] or got[n] != walk[n]):
                        chk.violation({"kind": "bracket-not-function-of-name-number"},
                                      {"name": name, "n": n, "first": got[n], "later": again[n], "walk": walk[n], "eta": eta, "minres": minres, "maxres": maxres},
                                      "Hyperband bracket of trial %d of study %r changed with the history or is not the crc32 budget walk" % (n, name))
                ids.append(again)
            chk.count("bracket-oracle:study")
        # the same pruner *object* serving a second, differently named study: the bracket must still be
        # a function of that study's name and the trial number only (no memory of the first study)
        if hb._pruners:
            name2 = name + "-other"
            st2 = optuna.create_study(pruner=hb, study_name=name2, storage=optuna.storages.InMemoryStorage(), sampler=optuna.samplers.RandomSampler(seed=7))
            for n in range(12):
                t = st2.ask()
                t.report(r.random(), 0)
                t.should_prune()
                bid = hb._get_bracket_id(st2, st2._storage.get_trial(t._trial_id))
                h = crc_of(name2, n) % hb._total_trial_allocation_budget
                b = 0
                while h - hb._trial_allocation_budgets[b] >= 0:
                    h -= hb._trial_allocation_budgets[b]
                    b += 1
                if bid != b:
                    chk.violation({"kind": "bracket-not-function-of-name-number"}, {"name": name2, "n": n, "got": bid, "walk": b, "shared_pruner_first_used_on": name},
                                  "a HyperbandPruner object first used on study %r gives trial %d of study %r bracket %d, the crc32 walk of (name, number) gives %d" % (name, n, name2, bid, b))
                    break
                st2.tell(t, r.random())
            chk.count("bracket-oracle:shared-pruner")
        if len(ids) == 2 and ids[0] != ids[1]:
            chk.violation({"kind": "bracket-not-function-of-name-number"}, {"name": name, "a": ids[0], "b": ids[1]},
                          "two studies named %r give different brackets to equal trial numbers" % name)


# ------------------------------------------------------------------------------------------------
# orchestration
# ------------------------------------------------------------------------------------------------
def _worker(args: tuple[list[dict[str, Any]], bool, str]) -> list[dict[str, Any]]:
    import optuna

    cases, with_model, tmp = args
    optuna.logging.set_verbosity(optuna.logging.ERROR)
    warnings.simplefilter("ignore")
    drv = core.Driver("pruners") if with_model else None
    out = []
    try:
        for c in cases:
            try:
                out.append(run_case(c, drv, tmp=tmp))
            except core.DriverBroken as e:
                out.append({"driver_broken": str(e)[:600], "mismatch": [], "violations": [], "tags": {}, "decisions": []})
                drv = core.Driver("pruners")
            except Exception as e:  # the real code crashed: report, do not hide
                import traceback
                out.append({"crash": traceback.format_exc()[-1200:], "mismatch": [], "violations": [], "tags": {}, "decisions": [],
                            "exc": type(e).__name__})
    finally:
        if drv is not None:
            drv.close()
    return out


def run_cases(chk: core.Check, cases: list[dict[str, Any]], with_model: bool = True, procs: int = 12) -> list[dict[str, Any]]:
    import multiprocessing as mp

    if not cases:
        return []
    procs = max(1, min(procs, len(cases) // 8 or 1))
    chunks = [cases[i::procs] for i in range(procs)]
    if procs == 1:
        parts = [_worker((chunks[0], with_model, chk.tmp))]
    else:
        ctx = mp.get_context("spawn")
        with ctx.Pool(procs) as pool:
            parts = pool.map(_worker, [(c, with_model, chk.tmp) for c in chunks])
    results: list[Any] = [None] * len(cases)
    for k, part in enumerate(parts):
        for j, res in enumerate(part):
            results[k + j * procs] = res
    return results


def strip(case: dict[str, Any]) -> dict[str, Any]:
    out = {"dir": case["dir"], "name": case["name"], "pruner": case["pruner"], "ops": case["ops"]}
    if case.get("storage", "mem") != "mem":
        out["storage"] = case["storage"]
    return out


def minimise_case(case: dict[str, Any], pred: Any, budget: int = 150) -> dict[str, Any]:
    def fails(ops: list[Any]) -> bool:
        try:
            return bool(pred(dict(case, ops=ops)))
        except Exception:
            return False

    ops = core.ddmin(list(case["ops"]), fails, budget=budget)
    return dict(strip(case), ops=ops)


def account(chk: core.Check, cases: list[dict[str, Any]], results: list[dict[str, Any]], with_model: bool) -> None:
    import optuna

    optuna.logging.set_verbosity(optuna.logging.ERROR)
    warnings.simplefilter("ignore")
    drv: core.Driver | None = None
    violating: list[tuple[dict[str, Any], dict[str, Any]]] = []
    mismatching: list[tuple[dict[str, Any], dict[str, Any]]] = []
    for case, res in zip(cases, results):
        sc = strip(case)
        decs = res.get("decisions", [])
        prot = any(k.startswith("protected:") and not k.endswith("no-report") for k in res.get("tags", {}))
        nontrivial = (True in decs and False in decs) or (prot and True in decs)
        chk.case(sc, nontrivial=nontrivial)
        chk.traces_validated += 1 if with_model else 0
        chk.count("pruner:" + case["pruner"]["k"] + (":" + (case["pruner"]["wrapped"] or {"k": "none"})["k"] if case["pruner"]["k"] == "patient" else ""))
        chk.count("dir:" + case["dir"])
        chk.count("storage:" + case.get("storage", "mem"))
        for k, v in res.get("tags", {}).items():
            chk.count(k.split("/")[0] if k.startswith("bracket:") else k, v)
        if "hb_float_log" in res.get("notes", {}):
            chk.extra.setdefault("hyperband_bracket_count_float_log_differs_from_exact", []).append(res["notes"]["hb_float_log"])
        if "driver_broken" in res:
            chk.broke("correspondence", {"driver": res["driver_broken"], "case": sc})
        if "crash" in res:
            chk.broke("correspondence", {"crash": res["crash"], "case": sc})
        if res["violations"]:
            violating.append((case, res))
        elif res["mismatch"]:
            mismatching.append((case, res))
    # minimise and report the shortest few (every other failing case is only counted)
    violating.sort(key=lambda cr: len(cr[0]["ops"]))
    mismatching.sort(key=lambda cr: len(cr[0]["ops"]))
    chk.count("cases-with-oracle-failure", len(violating))
    chk.count("cases-with-model-mismatch", len(mismatching))
    seen_sig: set[str] = set()
    for case, res in violating:
        v = res["violations"][0]
        sig = {"kind": v["kind"], "pruner": case["pruner"]["k"], "reasons": sorted(set(r.split(":")[-1] for r in v.get("reasons", [])))}
        if core.canon(sig) in seen_sig or len(seen_sig) >= 3:
            continue
        seen_sig.add(core.canon(sig))
        small = minimise_case(case, lambda c: any(x["kind"] == v["kind"] for x in run_case(c, None)["violations"]), budget=200)
        v2 = (run_case(small, None)["violations"] or [v])[0]
        chk.violation(sig, {"case": small, "observed": v2},
                      "%s pruner: should_prune() of trial %s returned %s although the contract %s (history of %d calls in the replay)" % (
                          case["pruner"]["k"], v2.get("n"), v2.get("got", True),
                          "protects it: " + ",".join(v2.get("reasons", [])) if v2.get("reasons") else "fixes the decision to %s" % v2.get("expected"),
                          len(small["ops"])))
    for case, res in mismatching[:4]:
        if drv is None:
            drv = core.Driver("pruners")
        d = drv

        def mism(c: dict[str, Any]) -> bool:
            return bool(run_case(c, d)["mismatch"])

        small = minimise_case(case, mism, budget=200)
        m2 = (run_case(small, drv)["mismatch"] or res["mismatch"])[0]
        chk.broke("correspondence", {"pruner": case["pruner"], "first": m2, "case": small})
    if drv is not None:
        drv.close()


def search(chk: core.Check) -> None:
    """Failing-input search on the real code only (no model): many protected situations per pruner,
    in particular for the pruner classes of the broken correspondences."""
    r = random.Random(chk.seed * 31 + 5)
    specs = [b["detail"]["pruner"] for b in chk.broken if isinstance(b.get("detail"), dict) and "pruner" in b["detail"]]
    cases = []
    n = 1500 if chk.tier == "quick" else 8000
    for i in range(n):
        spec = r.choice(specs) if specs and r.random() < 0.7 else None
        if spec is not None and r.random() < 0.5:
            spec = mutate_params(r, spec)
        cases.append(gen_case(r, 10 ** 6 + i, protect=r.choice(["best", "warmup", "startup", "patience", None]), spec=spec))
    results = run_cases(chk, cases, with_model=False)
    nv = 0
    for case, res in zip(cases, results):
        if res["violations"] or "crash" in res:
            nv += 1
    chk.search_log.append("search: %d extra real-code histories, %d with an oracle failure" % (len(cases), nv))
    bad = [(c, x) for c, x in zip(cases, results) if x["violations"]]
    bad.sort(key=lambda cx: len(cx[0]["ops"]))
    account(chk, [c for c, _ in bad[:3]], [x for _, x in bad[:3]], with_model=False)
    from verif.props import c16_wilcoxon
    c16_wilcoxon.search(chk)


def mutate_params(r: random.Random, spec: dict[str, Any]) -> dict[str, Any]:
    fresh = gen_pruner(r)
    for _ in range(50):
        if fresh["k"] == spec["k"]:
            return fresh
        fresh = gen_pruner(r)
    return spec


def main(chk: core.Check) -> int:
    import optuna

    optuna.logging.set_verbosity(optuna.logging.ERROR)
    warnings.simplefilter("ignore")
    chk.rule = RULE
    quick = chk.tier == "quick"
    # 1. regenerate the integer kernels from the source, 2. prove
    from verif.translators import pruners_int
    from verif.props import c16_wilcoxon
    pruners_int.regenerate(chk)
    c16_wilcoxon.prepare(chk)  # Generated/WilcoxonSkel.lean from optuna/pruners/_wilcoxon.py
    from verif.props import c16_skel
    c16_skel.prepare(chk)      # Generated/PrunersSkel.lean: control skeletons of every other pruner
    from verif.props import c16_report_gen
    c16_report_gen.regenerate(chk)  # Generated/ReportMethods.lean: Trial.report / should_prune, Fixed/Frozen, _filter_study as statement IR
    chk.rule = RULE + " || " + c16_wilcoxon.RULE
    if not getattr(chk, "no_prove", False):
        chk.prove(["OptunaVerif.Props.C16", "OptunaVerif.Props.C16Gen"] + c16_wilcoxon.PROPS_MODULES + c16_skel.PROPS_MODULES
                  + [c16_report_gen.MODULE, "OptunaVerif.Props.C16Bracket"])
        c16_report_gen.explain_proof_failure(chk)  # names of the obligations of Props/C16ReportGen.lean that no longer check
    try:
        core.ensure_driver()
        drv = core.Driver("pruners")
        try:
            function_ties(chk, drv, 1500 if quick else 20000)
        finally:
            drv.close()
        r = chk.rng
        cases = [dict(c, corpus=True) for c in core.corpus_cases("C16")]
        n = 3000 if quick else 60000
        for i in range(n):
            x = r.random()
            protect = "best" if x < 0.15 else "warmup" if x < 0.22 else "startup" if x < 0.29 else "patience" if x < 0.33 else None
            c = gen_case(r, i, protect=protect, max_step=14 if quick or r.random() < 0.8 else 40)
            if i % (250 if quick else 100) == 7:
                # a sample on the other backends (slow: SQLite costs ~2 s per history)
                c["storage"] = r.choice(["rdb", "cached", "journal-open", "journal-redis", "journal-open", "journal-redis"])
            cases.append(c)
        results = run_cases(chk, cases)
        account(chk, cases, results, with_model=True)
        c16_wilcoxon.correspond(chk, chk.tier)  # WilcoxonPruner.prune against Model/Wilcoxon.lean + docstring oracle
        try:
            c16_report_gen.report_k(chk)        # the real Trial.report / should_prune with a recording pruner vs hand model vs generated methods
        except core.DriverBroken:
            raise
        except Exception as e:  # noqa: BLE001
            import traceback
            chk.broke("correspondence", {"crash": traceback.format_exc()[-900:], "exc": type(e).__name__, "where": "report_k"})
        try:
            bracket_oracle(chk, 25 if quick else 400)
        except Exception as e:  # the real pruner crashed while being driven: a broken tie, not an infrastructure failure
            import traceback
            chk.broke("correspondence", {"crash": traceback.format_exc()[-900:], "exc": type(e).__name__, "where": "bracket_oracle"})
    except core.DriverBroken as e:
        chk.broke("correspondence", {"driver": str(e)[:800]})
    chk.assumptions += [
        "in-memory storage, one thread: the FrozenTrial handed to prune() and study.get_trials() show the same data",
        "float rounding: the model computes percentiles / min_delta sums over Q; generated values are small dyadic rationals (sums exact), and a percentile decision is accepted either way when the exact |best - p| <= 1e-9 relative",
        "crc32 is an input of the model (the real binascii.crc32 value is passed in); Hyperband's bracket count (a float math.log in the code) is read off the real pruner and compared with the exact integer logarithm only as a recorded observation",
    ]
    chk.trusted += ["numpy.nanpercentile / nanmin / nanmax (modelled operation by operation, tied by the function-level correspondence)", "binascii.crc32"]
    return chk.finish(search=search)


def replay(chk: core.Check, path: str) -> int:
    import optuna

    optuna.logging.set_verbosity(optuna.logging.ERROR)
    warnings.simplefilter("ignore")
    payload = json.load(open(path))
    if payload.get("kind") == "violation":
        w = payload["witness"]
        if w.get("kind") == "wilcoxon":
            from verif.props import c16_wilcoxon
            return c16_wilcoxon.replay_case(chk, w)
        if w.get("kind") == "report-glue":
            from verif.props import c16_report_gen
            return c16_report_gen.replay_case(chk, w)
        if "case" in w:
            res = run_case(w["case"], None)
            if res["violations"]:
                print("REPRODUCED: %s" % json.dumps(res["violations"][0])[:600])
                return 1
            print("not reproduced")
            return 0
        if "fn" in w:
            print("function-level witness: %s" % json.dumps(w)[:600])
            return replay_fn(w)
        print("witness: %s" % json.dumps(w)[:600])
        return 1
    # no-failing-input-found: re-run the first disagreeing case against the model
    from verif.props import c16_report_gen
    c16_report_gen.regenerate()  # the sub-driver `pruners` links Generated/ReportMethods.lean
    core.ensure_driver()
    for b in payload.get("no_longer_checks", []):
        d = b.get("detail", {})
        if isinstance(d, dict) and "case" in d:
            drv = core.Driver("pruners")
            try:
                res = run_case(d["case"], drv)
            finally:
                drv.close()
            if res["mismatch"] or res["violations"]:
                print("REPRODUCED (model and code disagree): %s" % json.dumps((res["violations"] or res["mismatch"])[0])[:600])
                return 1
    print("not reproduced")
    return 0


def replay_fn(w: dict[str, Any]) -> int:
    from optuna.pruners import _percentile

    if w["fn"] == "_is_first_in_interval_step":
        step, steps, wu, iv = w["args"]
        code = _percentile._is_first_in_interval_step(step, dict.fromkeys(steps).keys(), wu, iv)
        if code != first_in_interval(steps, step, wu, iv):
            print("REPRODUCED")
            return 1
    print("not reproduced")
    return 0
