"""C16, translator tie of the GLUE: `Trial.report` / `Trial.should_prune` (and the Fixed / Frozen variants, `_filter_study`) as written in the
source today -> Lean data -> proved equal to the hand model (Model/Pruners.lean: reportTrial / shouldPruneTrial / filterStudyView / step).

regenerate(chk)   run verif/translators/treport.py on core.REPO, write lean/OptunaVerif/Generated/ReportMethods.lean (only when changed), record what
                  was read, report every untranslatable method as chk.broke("translation", ...).  Call it BEFORE chk.prove([..., MODULE]) and
                  before core.ensure_driver() (the sub-driver `pruners` links the generated methods).
explain_proof_failure(chk)   after a failed chk.prove: the NAMES of the obligations of Props/C16ReportGen.lean that no longer check.
report_k(chk)     K stage: real Trial.report / should_prune with a recording pruner on in-memory storage vs the interpreter of the generated methods
                  vs the hand model: stored values, warnings, exceptions, what the pruner is handed.
"""
from __future__ import annotations

import json
import math
import os
import random
import re
import warnings
from fractions import Fraction
from typing import Any

from verif import core
from verif.translators import treport

OUT = os.path.join(core.LEAN_DIR, "OptunaVerif", "Generated", "ReportMethods.lean")
MODULE = "OptunaVerif.Props.C16ReportGen"
_HIST = ["stepG_eq", "afterG_eq", "gen_should_prune_in_history", "gen_no_prune_before_warmup_e2e", "gen_strictly_best_never_pruned_e2e"]
# a `<method>_shape` obligation pins the generated body; the theorems listed with it are proved FROM it (through interp_<method>)
SHAPE_OF = {"report_shape": ["interp_report", "gen_report_first_value_wins", "gen_report_rejects_negative_step"] + _HIST,
            "shouldPrune_shape": ["interp_shouldPrune", "gen_should_prune_is_pruner_on_snapshot"] + _HIST,
            "latest_trial_is_a_copy": ["interp_shouldPrune", "gen_should_prune_is_pruner_on_snapshot"] + _HIST,
            "filterStudy_shape": ["interp_filterStudy"],
            "inert_trials_shape": ["gen_fixed_frozen_never_prune"]}

ASSUMPTIONS = [
    "T-report: float(value) / int(step) enter as their results (None = the conversion raises); set_trial_intermediate_value either succeeds or raises "
    "(finished trial); the cached FrozenTrial is a record whose intermediate_values is an insertion-ordered association list; "
    "copy.copy(self._cached_frozen_trial) is a new object with the same attribute values (the SHARED intermediate_values dict of a shallow copy is "
    "outside the model: no pruner of optuna writes to it); the pruner is a parameter; warnings.warn is counted",
]


def regenerate(chk: "core.Check | None" = None) -> "dict[str, Any] | None":
    try:
        text, info, problems = treport.translate(core.REPO)
    except (treport.Untranslatable, SyntaxError, OSError) as e:
        if chk is None:
            raise
        chk.broke("translation", {"translator": "T-report", "why": str(e)[:600]})
        return None
    changed = core.write_if_changed(OUT, text)
    if chk is not None:
        ms = info["methods"]
        chk.translated.append("ReportMethods.lean: %d/%d methods as statement IR; _get_latest_trial is a copy: %s%s" % (
            sum(1 for v in ms.values() if v is not None), len(ms), info["latestIsCopy"], " (file changed)" if changed else ""))
        chk.extra["report_ir"] = {"nodes": ms, "latestIsCopy": info["latestIsCopy"]}
        for p in problems:
            chk.broke("translation", dict(p, translator="T-report"))
        for a in ASSUMPTIONS:
            if a not in chk.assumptions:
                chk.assumptions.append(a)
    return info


def explain_proof_failure(chk: core.Check) -> list[str]:
    """after chk.prove([..., MODULE]) failed: name the declarations of Props/C16ReportGen.lean whose proof no longer checks
    (the build log only has line numbers); recorded in chk.extra["c16reportgen_failed"]"""
    pr = chk.proof
    if pr is None or pr.ok:
        return []
    lines = sorted({int(m.group(1)) for m in re.finditer(r"Props/C16ReportGen\.lean:(\d+):\d+: error", pr.build_log)}
                   | {int(m.group(1)) for m in re.finditer(r"error: \S*Props/C16ReportGen\.lean:(\d+):", pr.build_log)})
    if not lines:
        return []
    src = open(os.path.join(core.LEAN_DIR, MODULE.replace(".", "/") + ".lean")).read().splitlines()
    # declarations with the line range they own (a doc comment belongs to the declaration after it: Lean reports
    # e.g. `rfl` failures of a one-line theorem at the start of its doc comment)
    decls: list[tuple[int, str]] = []   # (first line (1-based) of doc comment or declaration, name)
    doc_start = None
    last_doc_end = None
    for i, line in enumerate(src, 1):
        st = line.strip()
        if st.startswith("/--") and doc_start is None:
            doc_start = i
        if doc_start is not None and st.endswith("-/"):
            last_doc_end, last_doc_start = i, doc_start
            doc_start = None
            continue
        if doc_start is not None:
            continue
        m = re.match(r"\s*(?:@\[[^\]]*\]\s*)?(?:private\s+)?(?:theorem|def|example|lemma)\b\s*([^\s:(]*)", line)
        if m:
            name = m.group(1) or ("example at line %d: %s" % (i, st[:90]))
            first = last_doc_start if last_doc_end == i - 1 else i
            decls.append((first, name))
    names: list[str] = []
    for ln in lines:
        name = None
        for first, nm in decls:
            if first <= ln:
                name = nm
            else:
                break
        if name and name not in names:
            names.append(name)
    # a `<method>_shape` obligation pins the generated body; the equality `interp_<method>` is proved from it
    for shape, eqs in SHAPE_OF.items():
        for eq in eqs:
            if shape in names and eq not in names and not any(x.startswith(eq + " (") for x in names):
                names.append("%s (unproved: rests on %s)" % (eq, shape))
    chk.extra["c16reportgen_failed"] = names
    chk.broke("proof", {"module": MODULE, "generated_methods_no_longer_equal_hand_model": names})
    return names


def gen_disagreement(resp: Any) -> Any:
    if isinstance(resp, dict):
        return resp.get("gen")
    return None


# ------------------------------------------------------------------------------------------------
# K stage: the real Trial.report / Trial.should_prune with a recording pruner on in-memory storage
# ------------------------------------------------------------------------------------------------
NAN = float("nan")


def _enc(v: float) -> str:
    if math.isnan(v):
        return "nan"
    if v == float("inf"):
        return "inf"
    if v == -float("inf"):
        return "-inf"
    f = Fraction(v)
    return "%d/%d" % (f.numerator, f.denominator)


def _py(tok: list[Any]) -> Any:
    """token of a script -> the Python object handed to report()"""
    k = tok[0]
    if k == "f":
        s = tok[1]
        return NAN if s == "nan" else float("inf") if s == "inf" else -float("inf") if s == "-inf" else float(Fraction(s))
    if k == "i":
        return int(tok[1])
    if k == "s":
        return str(tok[1])
    if k == "b":
        return bool(tok[1])
    if k == "np":
        import numpy as np
        return np.float32(Fraction(tok[1]))
    return None


def _conv(fn: Any, x: Any) -> Any:
    """the model's view of `float(value)` / `int(step)`: the result, None when it raises TypeError/ValueError (what the code catches),
    "other" when it raises something else (OverflowError of int(inf): outside the model, such calls are not generated)"""
    try:
        return fn(x)
    except (TypeError, ValueError):
        return None
    except Exception:  # noqa: BLE001
        return "other"


def _same(a: float, b: float) -> bool:
    return (math.isnan(a) and math.isnan(b)) or a == b


def _ivs(d: Any) -> list[list[Any]]:
    return [[int(k), _enc(float(v))] for k, v in d.items()]


def run_script(script: dict[str, Any], drv: "core.Driver | None") -> dict[str, Any]:
    """One trial object of a fresh in-memory study with a recording pruner; the ops of `script` are applied to the real Trial and (when `drv`)
    to the hand model + the interpreter of the generated methods.  Oracle (independent of the model): the docstring of Trial.report and the
    snapshot contract of should_prune.  Returns {"violations", "mismatch", "tags", "notes"}."""
    import optuna
    from optuna.trial import TrialState

    res: dict[str, Any] = {"violations": [], "mismatch": [], "tags": {}, "notes": {}}

    def tag(t: str) -> None:
        res["tags"][t] = res["tags"].get(t, 0) + 1

    owner: dict[str, Any] = {}

    class Recording(optuna.pruners.BasePruner):
        def __init__(self) -> None:
            self.calls: list[dict[str, Any]] = []
            self.answer = False
            self.rebind = False

        def prune(self, study: Any, trial: Any) -> bool:
            t = owner["trial"]
            self.calls.append({"iv": dict(trial.intermediate_values), "order": _ivs(trial.intermediate_values),
                               "is_cached": trial is t._cached_frozen_trial,
                               "shares_dict": trial.intermediate_values is t._cached_frozen_trial.intermediate_values,
                               "study_is_study": study is t.study, "number": trial.number, "state": trial.state.name})
            if self.rebind:
                trial.intermediate_values = {}
                trial.state = TrialState.PRUNED
            return self.answer

    nd = int(script.get("ndirs", 1))
    rec = Recording()
    study = optuna.create_study(directions=["minimize"] * nd, pruner=rec, storage=optuna.storages.InMemoryStorage(),
                                sampler=optuna.samplers.RandomSampler(seed=0))
    trial = study.ask()
    owner["trial"] = trial
    storage = study._storage
    accepted: dict[int, float] = {}    # the oracle's book: first accepted value per step
    m_inter: list[list[Any]] = []       # the model's cache
    m_state = 0
    m_stored: dict[int, str] = {}       # the model's storage row (dict assignment of `writes`)
    for i, op in enumerate(script["ops"]):
        kind = op[0]
        try:
            if kind == "report":
                raw_v, raw_s = _py(op[1]), _py(op[2])
                cv, cs = _conv(float, raw_v), _conv(int, raw_s)
                if cv == "other" or cs == "other":
                    continue
                running = not storage.get_trial(trial._trial_id).state.is_finished()
                exc = None
                with warnings.catch_warnings(record=True) as wl:
                    warnings.simplefilter("always")
                    try:
                        ret = trial.report(raw_v, raw_s)
                    except (NotImplementedError, TypeError, ValueError) as e:
                        exc, ret = type(e).__name__, None
                    except Exception as e:  # noqa: BLE001 - the storage refused the write (finished trial)
                        exc, ret = "StorageError", None
                        res["notes"].setdefault("storage_exceptions", []).append(type(e).__name__)
                warned = any("already reported" in str(w.message) or "step" in str(w.message).lower() for w in wl)
                fz = storage.get_trial(trial._trial_id)
                stored = dict(fz.intermediate_values)
                cache = trial._cached_frozen_trial.intermediate_values
                tag("report:" + (exc or ("duplicate" if (nd == 1 and cs is not None and cv is not None and cs in accepted) else "stored")))
                # ---- oracle on the implementation
                if nd == 1 and cv is not None and cs is not None:
                    if cs < 0:
                        if exc != "ValueError" or cs in stored:
                            res["violations"].append({"step": i, "kind": "negative-step-accepted", "report": [op[1], op[2]], "raised": exc,
                                                      "stored": _ivs(stored)})
                    elif cs in accepted:
                        if exc is not None and running:
                            res["violations"].append({"step": i, "kind": "duplicate-report-raised", "report": [op[1], op[2]], "raised": exc})
                        elif cs not in stored or not _same(stored[cs], accepted[cs]):
                            res["violations"].append({"step": i, "kind": "duplicate-report-overwrote", "report": [op[1], op[2]],
                                                      "first": _enc(accepted[cs]), "stored_now": _enc(stored[cs]) if cs in stored else None})
                        elif running and not warned:
                            res["mismatch"].append({"step": i, "what": "duplicate report without the warning"})
                    elif running:
                        if exc is not None:
                            # docstring: any value float() accepts (NaN and +-inf included) is stored
                            res["mismatch"].append({"step": i, "what": "a first report of a convertible value raised", "report": [op[1], op[2]],
                                                    "raised": exc})
                        elif cs not in stored or not _same(stored[cs], cv):
                            res["violations"].append({"step": i, "kind": "report-not-stored", "report": [op[1], op[2]], "stored": _ivs(stored)})
                        else:
                            accepted[cs] = cv
                if ret is not None:
                    res["mismatch"].append({"step": i, "what": "report returned a value", "ret": repr(ret)[:80]})
                # the storage row and the cache only ever hold the accepted reports
                if exc != "StorageError" and (sorted(stored) != sorted(accepted) or any(not _same(stored[k], accepted[k]) for k in accepted)):
                    if not res["violations"]:
                        res["violations"].append({"step": i, "kind": "stored-values-not-the-accepted-reports", "stored": _ivs(stored),
                                                  "accepted": _ivs(accepted)})
                # ---- the model (hand + generated)
                if drv is not None:
                    out = drv.ask({"op": "reportglue", "ndirs": nd, "inter": m_inter, "state": m_state,
                                   "value": None if cv is None else _enc(cv), "step": cs, "storageOk": running})
                    if "err" not in out:
                        raise core.DriverBroken("driver: %s" % out)
                    if out.get("gen") is not None:
                        res["mismatch"].append({"step": i, "what": "generated Trial.report differs from the hand model", "gen": out["gen"]})
                    m_inter = out["inter"]
                    for a, b in out["writes"]:
                        m_stored[int(a)] = b
                    if out["err"] != exc or bool(out["warned"]) != bool(warned):
                        res["mismatch"].append({"step": i, "what": "report outcome", "model": [out["err"], out["warned"]], "code": [exc, warned],
                                                "report": [op[1], op[2]]})
                    elif m_inter != _ivs(cache):
                        res["mismatch"].append({"step": i, "what": "cached intermediate_values", "model": m_inter, "code": _ivs(cache)})
                    elif sorted(m_stored.items()) != sorted((k, _enc(float(v))) for k, v in stored.items()):
                        res["mismatch"].append({"step": i, "what": "stored intermediate_values", "model": sorted(m_stored.items()),
                                                "code": _ivs(stored)})
            elif kind == "prune":
                rec.answer, rec.rebind = bool(op[1]), bool(op[2])
                ncalls = len(rec.calls)
                exc = None
                try:
                    got = trial.should_prune()
                except NotImplementedError:
                    exc, got = "NotImplementedError", None
                tag("should_prune:" + (exc or str(got)))
                if nd == 1:
                    if exc is not None or len(rec.calls) != ncalls + 1:
                        res["mismatch"].append({"step": i, "what": "should_prune did not call the pruner exactly once", "raised": exc})
                    else:
                        c = rec.calls[-1]
                        if got is not rec.answer and got != rec.answer:
                            res["violations"].append({"step": i, "kind": "should-prune-not-the-pruner-answer", "pruner": rec.answer, "got": got})
                        if sorted(c["iv"]) != sorted(accepted) or any(not _same(c["iv"][k], accepted[k]) for k in accepted):
                            res["violations"].append({"step": i, "kind": "pruner-handed-wrong-snapshot", "handed": c["order"],
                                                      "accepted": _ivs(accepted)})
                        if c["is_cached"]:
                            res["mismatch"].append({"step": i, "what": "the pruner is handed the live cached FrozenTrial, not a copy"})
                        if not c["study_is_study"] or c["number"] != trial.number:
                            res["mismatch"].append({"step": i, "what": "the pruner is handed another study / trial", "call": {k: c[k] for k in ("study_is_study", "number")}})
                        if c["shares_dict"]:
                            res["notes"]["snapshot_shares_intermediate_values_dict"] = True
                elif len(rec.calls) != ncalls or exc is None:
                    res["mismatch"].append({"step": i, "what": "multi-objective should_prune reached the pruner", "raised": exc})
                if drv is not None:
                    out = drv.ask({"op": "pruneglue", "ndirs": nd, "inter": m_inter, "state": m_state, "answer": rec.answer, "rebind": rec.rebind})
                    if "handed" not in out:
                        raise core.DriverBroken("driver: %s" % out)
                    if out.get("gen") is not None:
                        res["mismatch"].append({"step": i, "what": "generated Trial.should_prune differs from the hand model", "gen": out["gen"]})
                    cache = trial._cached_frozen_trial
                    if out["out"] != got:
                        res["mismatch"].append({"step": i, "what": "should_prune answer", "model": out["out"], "code": got})
                    elif nd == 1 and rec.calls and out["handed"] != rec.calls[-1]["order"]:
                        res["mismatch"].append({"step": i, "what": "trial handed to the pruner", "model": out["handed"], "code": rec.calls[-1]["order"]})
                    elif out["inter"] != _ivs(cache.intermediate_values) or (out["state"] == 0) != (cache.state == TrialState.RUNNING):
                        res["mismatch"].append({"step": i, "what": "cached trial after should_prune", "model": [out["inter"], out["state"]],
                                                "code": [_ivs(cache.intermediate_values), cache.state.name]})
                    m_inter, m_state = out["inter"], out["state"]
            elif kind == "finish":
                if not storage.get_trial(trial._trial_id).state.is_finished():
                    study.tell(trial, [0.0] * nd)
                    tag("finish")
            else:
                raise ValueError(op)
        except core.DriverBroken:
            raise
        except Exception as e:  # noqa: BLE001 - the real code crashed while being driven: a broken tie
            import traceback
            res["mismatch"].append({"step": i, "what": "crash", "exc": type(e).__name__, "trace": traceback.format_exc()[-500:]})
            break
        if res["violations"]:
            break
    return res


SCRIPTED = [
    # first value wins, also after a pruner that rebinds the attributes of the trial it is handed
    {"ndirs": 1, "ops": [["report", ["f", "1"], ["i", 0]], ["prune", True, True], ["report", ["f", "2"], ["i", 0]], ["prune", False, False],
                         ["report", ["f", "3"], ["i", 0]], ["report", ["f", "nan"], ["i", 1]], ["report", ["f", "5"], ["i", 1]], ["prune", True, False]]},
    {"ndirs": 1, "ops": [["report", ["f", "1"], ["i", -1]], ["report", ["f", "1"], ["i", -3]], ["prune", False, False], ["report", ["f", "1"], ["i", 0]],
                         ["report", ["f", "1"], ["f", "-3/2"]]]},
    {"ndirs": 1, "ops": [["report", ["s", "abc"], ["i", 0]], ["report", ["none"], ["i", 0]], ["report", ["f", "1"], ["s", "x"]], ["report", ["f", "1"], ["none"]],
                         ["report", ["s", "1.5"], ["s", "2"]], ["report", ["b", True], ["b", True]], ["report", ["np", "1/4"], ["f", "7/2"]],
                         ["report", ["f", "inf"], ["i", 9]], ["report", ["f", "-inf"], ["i", 8]], ["report", ["f", "nan"], ["i", 7]], ["prune", True, False]]},
    # the storage refuses the write (finished trial): the cache must not run ahead of the storage
    {"ndirs": 1, "ops": [["report", ["f", "1"], ["i", 0]], ["finish"], ["report", ["f", "2"], ["i", 1]], ["prune", False, False],
                         ["report", ["f", "2"], ["i", 0]], ["prune", True, True], ["report", ["f", "4"], ["i", 2]]]},
    {"ndirs": 2, "ops": [["report", ["f", "1"], ["i", 0]], ["prune", True, False], ["report", ["s", "abc"], ["i", -1]], ["finish"], ["prune", True, False]]},
]


def gen_script(r: random.Random) -> dict[str, Any]:
    ops: list[list[Any]] = []
    nd = 2 if r.random() < 0.06 else 1
    for _ in range(r.randint(2, 14)):
        x = r.random()
        if x < 0.62:
            y = r.random()
            v: list[Any] = (["f", r.choice(["nan", "inf", "-inf"])] if y < 0.12 else ["s", r.choice(["abc", "", "1.5", "nan", "1e3"])] if y < 0.2 else
                            ["none"] if y < 0.23 else ["i", r.randint(-3, 9)] if y < 0.33 else ["b", r.random() < 0.5] if y < 0.36 else
                            ["np", "%d/4" % r.randint(-8, 20)] if y < 0.42 else ["f", "%d/%d" % (r.randint(-16, 40), r.choice([1, 2, 4, 8]))])
            z = r.random()
            st: list[Any] = (["i", r.randint(-3, -1)] if z < 0.1 else ["s", r.choice(["x", "3", "", "2.5"])] if z < 0.15 else ["none"] if z < 0.17 else
                             ["f", "%d/2" % r.randint(-5, 13)] if z < 0.24 else ["b", r.random() < 0.5] if z < 0.26 else ["i", r.randint(0, 6)])
            ops.append(["report", v, st])
        elif x < 0.95:
            ops.append(["prune", r.random() < 0.5, r.random() < 0.3])
        else:
            ops.append(["finish"])
    return {"ndirs": nd, "ops": ops}


def _inert_trials(chk: core.Check) -> None:
    """FixedTrial / FrozenTrial: report is inert, should_prune is False (gen_fixed_frozen_never_prune)"""
    import optuna

    for name, mk in (("FixedTrial", lambda: optuna.trial.FixedTrial({"x": 1.0})),
                     ("FrozenTrial", lambda: optuna.trial.create_trial(state=optuna.trial.TrialState.COMPLETE, value=0.0,
                                                                        intermediate_values={0: 5.0, 3: 1.0}))):
        try:
            t = mk()
            before = dict(getattr(t, "intermediate_values", {}) or {})
            outs = []
            for v, s in ((1.0, 0), (NAN, 1), (-100.0, 3), (7.0, -1)):
                ret = t.report(v, s)
                outs.append(bool(t.should_prune()))
                if ret is not None:
                    chk.broke("correspondence", {"what": "%s.report returned a value" % name, "ret": repr(ret)[:80]})
            after = dict(getattr(t, "intermediate_values", {}) or {})
            chk.count("reportk:inert:" + name)
            if any(outs):
                chk.violation({"kind": "inert-trial-pruned", "trial": name}, {"kind": "report-glue", "inert": name},
                              "%s.should_prune() returned True: a fixed / frozen trial is never pruned" % name)
            if before != after:
                chk.broke("correspondence", {"what": "%s.report changed intermediate_values" % name, "before": _ivs(before), "after": _ivs(after)})
        except Exception as e:  # noqa: BLE001
            chk.broke("correspondence", {"what": "%s report/should_prune crashed" % name, "exc": type(e).__name__, "msg": str(e)[:200]})


def _filter_study_k(chk: core.Check) -> None:
    """optuna.pruners._filter_study: the study itself unless the pruner is a HyperbandPruner, then the bracket view of the trial's bracket"""
    import optuna
    from optuna.pruners import _filter_study

    try:
        for pr in (optuna.pruners.NopPruner(), optuna.pruners.MedianPruner(), optuna.pruners.PatientPruner(None, 1),
                   optuna.pruners.HyperbandPruner(min_resource=1, max_resource=9, reduction_factor=3)):
            st = optuna.create_study(pruner=pr, sampler=optuna.samplers.RandomSampler(seed=0))
            for k in range(8):
                t = st.ask()
                t.report(float(k), 0)
                t.should_prune()
                st.tell(t, float(k))
            fz = st.get_trials(deepcopy=False)[3]
            got = _filter_study(st, fz)
            chk.count("reportk:filter_study:" + type(pr).__name__)
            if not isinstance(pr, optuna.pruners.HyperbandPruner):
                if got is not st:
                    chk.broke("correspondence", {"what": "_filter_study of a non-Hyperband study is not the study", "pruner": type(pr).__name__})
                continue
            bid = pr._get_bracket_id(st, fz)
            view = [x.number for x in got.get_trials(deepcopy=False)]
            want = [x.number for x in st.get_trials(deepcopy=False) if pr._get_bracket_id(st, x) == bid]
            if got is st or view != want:
                chk.broke("correspondence", {"what": "_filter_study of a Hyperband study is not the bracket view of the trial's bracket",
                                             "bracket": bid, "view": view, "same_bracket": want})
    except Exception as e:  # noqa: BLE001
        chk.broke("correspondence", {"what": "_filter_study crashed", "exc": type(e).__name__, "msg": str(e)[:200]})


VIOLATION_TEXT = {
    "duplicate-report-overwrote": "Trial.report for a step that was already reported changed the stored value (docstring: only the first value is stored)",
    "duplicate-report-raised": "Trial.report for a step that was already reported raised (docstring: the later values are ignored)",
    "negative-step-accepted": "Trial.report accepted a negative step (the warm-up / interval arithmetic of every pruner assumes step >= 0)",
    "report-not-stored": "a first Trial.report of a step was not stored",
    "stored-values-not-the-accepted-reports": "the stored intermediate values are not the accepted reports",
    "should-prune-not-the-pruner-answer": "Trial.should_prune() did not return the pruner's decision",
    "pruner-handed-wrong-snapshot": "the pruner was handed intermediate values that are not the reports accepted so far",
}


def report_k(chk: core.Check, n: "int | None" = None) -> None:
    """K stage of T-report.  Every failure of the docstring oracle on the real code is a violation (minimised, replayable); every disagreement
    of the real code with the hand model / the generated interpreter is a broken correspondence."""
    import optuna

    optuna.logging.set_verbosity(optuna.logging.ERROR)
    n = n if n is not None else (400 if chk.tier == "quick" else 6000)
    r = random.Random(chk.seed * 7919 + 1616)
    scripts = [dict(s) for s in SCRIPTED] + [gen_script(r) for _ in range(n)]
    drv: "core.Driver | None" = core.Driver("pruners")
    bad_v: list[tuple[dict[str, Any], dict[str, Any]]] = []
    bad_m: list[tuple[dict[str, Any], dict[str, Any]]] = []
    shares = 0
    try:
        for sc in scripts:
            try:
                res = run_script(sc, drv)
            except core.DriverBroken as e:
                chk.broke("correspondence", {"driver": str(e)[:600], "script": sc, "where": "report_k"})
                try:
                    if drv is not None:
                        drv.close()
                except Exception:  # noqa: BLE001
                    pass
                drv = core.Driver("pruners")
                continue
            chk.case({"report-glue": sc}, nontrivial=any(k in res["tags"] for k in ("report:duplicate", "should_prune:True", "should_prune:False")))
            chk.traces_validated += 1
            for k, v in res["tags"].items():
                chk.count("reportk:" + k, v)
            shares += 1 if res["notes"].get("snapshot_shares_intermediate_values_dict") else 0
            if res["violations"]:
                bad_v.append((sc, res))
            elif res["mismatch"]:
                bad_m.append((sc, res))
    finally:
        try:
            if drv is not None:
                drv.close()
        except Exception:  # noqa: BLE001
            pass
    chk.count("reportk:scripts", len(scripts))
    chk.count("reportk:scripts-with-oracle-failure", len(bad_v))
    chk.count("reportk:scripts-with-model-mismatch", len(bad_m))
    if shares:
        # an observation, not a finding: copy.copy is shallow, so the snapshot and the cache share ONE intermediate_values dict;
        # a pruner that writes INTO that dict would write into the cache (no pruner of optuna does; the model's pruner can only rebind)
        chk.extra["should_prune_snapshot_shares_intermediate_values_dict_with_cache"] = shares
    seen: set[str] = set()
    for sc, res in sorted(bad_v, key=lambda x: len(x[0]["ops"])):
        kind = res["violations"][0]["kind"]
        if kind in seen:
            continue
        seen.add(kind)
        small = dict(sc, ops=core.ddmin(list(sc["ops"]), lambda ops: any(v["kind"] == kind for v in _quiet(dict(sc, ops=ops))["violations"]), budget=120))
        v2 = (_quiet(small)["violations"] or res["violations"])[0]
        chk.violation({"kind": kind, "where": "Trial.report/should_prune"}, {"kind": "report-glue", "script": small, "observed": v2},
                      "%s: %s (script of %d calls in the replay)" % (kind, VIOLATION_TEXT.get(kind, kind), len(small["ops"])))
    for sc, res in sorted(bad_m, key=lambda x: len(x[0]["ops"]))[:3]:
        chk.broke("correspondence", {"where": "report_k", "first": res["mismatch"][0], "script": sc})
    _inert_trials(chk)
    _filter_study_k(chk)
    t = "optuna.storages.InMemoryStorage.set_trial_intermediate_value (its effect is read back with get_trial; C03/C04 own the storage contract)"
    if t not in chk.trusted:
        chk.trusted.append(t)


def _quiet(sc: dict[str, Any]) -> dict[str, Any]:
    try:
        return run_script(sc, None)
    except Exception:  # noqa: BLE001
        return {"violations": [], "mismatch": [], "tags": {}, "notes": {}}


def replay_case(chk: core.Check, w: dict[str, Any]) -> int:
    import optuna

    optuna.logging.set_verbosity(optuna.logging.ERROR)
    if "script" in w:
        res = _quiet(w["script"])
        if res["violations"]:
            print("REPRODUCED: %s" % json.dumps(res["violations"][0])[:600])
            return 1
        print("not reproduced")
        return 0
    print("witness: %s" % json.dumps(w)[:600])
    return 1
