"""C16 — control skeletons of the pruners (all but Wilcoxon, which has its own: c16_wilcoxon / wilcoxon_skel).

prepare(chk): regenerate lean/OptunaVerif/Generated/PrunersSkel.lean from optuna/pruners/*.py (verif/translators/pruners_skel.py).
Props/C16SkelGen.lean then proves, for ALL inputs, that interpreting each regenerated skeleton (Model/Skel.lean) in the environment
built from Model/Pruners.lean gives the model's function:

  gen_percentile_prune, gen_best_over_steps, gen_percentile_over_trials, gen_threshold_prune, gen_patient_prune, gen_nop_prune,
  gen_sh_prune (decision AND the completed_rung_<r> writes), gen_current_rung, gen_bracket_id, gen_hb_prune,
  gen_<fn>_tables (atoms / locals / data statements verbatim), gen_completed_rung_key, gen_bracket_get_trials, gen_median_init,
  skel_prune_eq (every pruner through the interpreter = Model/Pruners `prune`) and the headline C16 theorems restated for the
  interpreter (skel_no_prune_before_warmup / _before_startup / _off_interval / _within_patience, skel_threshold_prunes_iff,
  skel_strictly_best_never_pruned, skel_nop_never).

There is no run-time correspondence of its own: the decisions of the real pruners are compared with the model by c16.py; this module
closes the gap between "the model decides X" and "the control flow of the source is the model's".
"""
from __future__ import annotations

from verif import core

PROPS_MODULES = ["OptunaVerif.Props.C16SkelGen"]


def prepare(chk: core.Check) -> None:
    """regenerate Generated/PrunersSkel.lean from the source (call before chk.prove)"""
    from verif.translators import pruners_skel

    pruners_skel.regenerate(chk)
