"""C16 / C13 — `WilcoxonPruner.prune` against `Model/Wilcoxon.lean`.

prove:      Props/C16Wilcoxon.lean (theorems about Model/Wilcoxon.lean for all intermediate-value dicts, both directions,
            every p-value function) + Generated/WilcoxonSkel.lean (the control skeleton of `prune` regenerated from the
            source by verif/translators/wilcoxon_skel.py, proved equal to the hand model).
correspond: the REAL `WilcoxonPruner(p_threshold, n_startup_steps).prune(study, trial)` on generated in-memory studies
            (both directions; COMPLETE trials with tied values, with / without constraints so that `study.best_trial`
            takes its fallback or raises ValueError; best trial without reports; NaN / +-inf reports on either side;
            steps missing on either side, reported out of order; fewer than n_startup_steps common steps; the current
            trial IS the best trial) and API-driven histories (`study.ask` / `trial.report` / `trial.should_prune` /
            `study.tell`).  `scipy.stats` inside `optuna.pruners._wilcoxon` is replaced (harness-side) by a recorder that
            forwards to the real scipy: the recorded `diff_values` (exact), `alternative`, `zero_method` are compared with
            the model's, and the real p-value is the model's `pv` input.  Compared per call: decision, the warnings
            (classified by their text), whether scipy was reached, the difference list in order, the alternative.
observe:    independent of the model, from the docstring: a trial is never pruned with fewer than
            max(2, n_startup_steps) steps in common with the best trial, nor when either side holds inf / NaN, nor when
            there is no best trial; a pruned trial has p < p_threshold for the p-value scipy returned.
            `mirror(chk, n)` (for C13): maximize on v and minimize on -v decide alike.
A model/code disagreement is `broke`; a failed oracle is a `violation`.
"""
from __future__ import annotations

import math
import random
import warnings
from fractions import Fraction
from typing import Any

from verif import core

PROPS_MODULES = ["OptunaVerif.Props.C16Wilcoxon", "OptunaVerif.Props.C16WilcoxonGen"]
NAN = float("nan")
INF = float("inf")

RULE = (
    "Wilcoxon tie: in-memory studies with 0-4 COMPLETE trials (dyadic values, ties, optional constraints) holding 0-9 "
    "reports each, a current trial with 0-9 reports (steps shuffled, partly missing / extra, NaN / inf with p=0.08 per "
    "side, profiles: clearly worse, clearly better, mixed, identical to the best trial), p_threshold in "
    "{0, .05, .1, .25, .5, 1}, n_startup_steps 0-6, both directions, plus API-driven histories (ask/report/should_prune/tell); "
    "non-trivial = the real code reached scipy.stats.wilcoxon; distinct by SHA-1 of the case"
)

WARN_KEYS = [
    ("intermediate values of the current trial", "curNotFinite"),
    ("best trial has no intermediate values", "bestNoReports"),
    ("intermediate values of the best trial", "bestNotFinite"),
    ("steps existing in the current trial", "missingSteps"),
]


def enc(v: float) -> str:
    if math.isnan(v):
        return "nan"
    if v == INF:
        return "inf"
    if v == -INF:
        return "-inf"
    f = Fraction(v)
    return "%d/%d" % (f.numerator, f.denominator)


def dec(s: str) -> float:
    return {"nan": NAN, "inf": INF, "-inf": -INF}.get(s) if s in ("nan", "inf", "-inf") else float(Fraction(s))


class Recorder:
    """stands in for `scipy.stats` inside optuna.pruners._wilcoxon; forwards to the real module"""

    def __init__(self) -> None:
        import scipy.stats as real

        self.real = real
        self.calls: list[dict[str, Any]] = []

    def wilcoxon(self, x: Any, *args: Any, **kw: Any) -> Any:
        res = self.real.wilcoxon(x, *args, **kw)
        self.calls.append({"x": [float(v) for v in x], "args": list(args), "kw": dict(kw), "p": float(res.pvalue)})
        return res

    def __getattr__(self, name: str) -> Any:
        return getattr(self.real, name)


class Real:
    def __init__(self) -> None:
        import optuna
        from optuna.pruners import _wilcoxon
        from optuna.trial import TrialState, create_trial

        optuna.logging.set_verbosity(optuna.logging.ERROR)
        self.optuna = optuna
        self.mod = _wilcoxon
        self.TS = TrialState
        self.create_trial = create_trial
        self.rec = Recorder()
        self.saved = _wilcoxon.ss
        _wilcoxon.ss = self.rec

    def close(self) -> None:
        self.mod.ss = self.saved

    def study(self, case: dict[str, Any]) -> Any:
        st = self.optuna.create_study(direction="maximize" if case["d"] == "max" else "minimize",
                                      storage=self.optuna.storages.InMemoryStorage())
        for t in case["done"]:
            sa = {} if t.get("cons") is None else {"constraints": [dec(c) for c in t["cons"]]}
            st.add_trial(self.create_trial(state=self.TS.COMPLETE, value=dec(t["value"]), params={}, distributions={},
                                           intermediate_values={s: dec(v) for s, v in t["iv"]}, system_attrs=sa))
        return st

    def prune(self, case: dict[str, Any]) -> dict[str, Any]:
        """one direct call of the real `prune` on the study / trial the case describes"""
        st = self.study(case)
        if case.get("self_best"):
            try:
                cur = st.best_trial
            except ValueError:
                cur = None
        else:
            cur = None
        if cur is None:
            cur = self.create_trial(state=self.TS.RUNNING, params={}, distributions={},
                                    intermediate_values={s: dec(v) for s, v in case["cur"]})
            cur.number = len(case["done"])
        return self.call(st, cur, case)

    def call(self, st: Any, cur: Any, case: dict[str, Any]) -> dict[str, Any]:
        with warnings.catch_warnings():
            warnings.simplefilter("ignore")
            pr = self.optuna.pruners.WilcoxonPruner(p_threshold=case["pThr"], n_startup_steps=case["nStartup"])
        try:
            best = st.best_trial
            best_iv: Any = [[s, enc(v)] for s, v in best.intermediate_values.items()]
            best_no: Any = best.number
        except ValueError:
            best_iv, best_no = None, None
        self.rec.calls.clear()
        with warnings.catch_warnings(record=True) as ws:
            warnings.simplefilter("always")
            res = pr.prune(st, cur)
        tags = []
        for w in ws:
            if issubclass(w.category, ResourceWarning):
                continue  # emitted by the garbage collector for some unrelated object (an unclosed file of an earlier case), not by prune
            text = str(w.message)
            for key, tag in WARN_KEYS:
                if key in text:
                    tags.append(tag)
                    break
            else:
                if "xperimental" not in text:
                    tags.append("other:" + text[:60])
        return {"prune": bool(res), "warns": tags,
                "calls": list(self.rec.calls), "best": best_iv, "best_number": best_no,
                "cur": [[s, enc(v)] for s, v in cur.intermediate_values.items()]}


# ------------------------------------------------------------------------------------------------
# generators
# ------------------------------------------------------------------------------------------------
def dy(r: random.Random, lo: int = -24, hi: int = 24) -> float:
    return r.randint(lo, hi) / 8.0


def special(r: random.Random, v: float, p: float) -> float:
    return r.choice([NAN, INF, -INF]) if r.random() < p else v


def gen_case(r: random.Random, idx: int) -> dict[str, Any]:
    d = r.choice(["min", "max"])
    sign = 1.0 if d == "min" else -1.0
    n_done = r.choice([0, 1, 1, 1, 2, 2, 3, 4])
    n_steps = r.choice([0, 1, 2, 3, 5, 6, 7, 9])
    steps = r.sample(range(-2, 14), n_steps)
    with_cons = r.random() < 0.2
    p_bad_best = r.choice([0.0, 0.0, 0.0, 0.08])
    done = []
    for i in range(n_done):
        val = dy(r, -6, 6) if r.random() < 0.8 or not done else dec(done[0]["value"])
        own = [s for s in steps if r.random() < 0.9] if r.random() < 0.85 else []
        r.shuffle(own)
        t: dict[str, Any] = {"value": enc(val), "iv": [[s, enc(special(r, dy(r), p_bad_best))] for s in own]}
        if with_cons:
            t["cons"] = r.choice([None, [enc(-1.0)], [enc(1.0)], [enc(0.0), enc(2.0)], [enc(-1.0), enc(0.0)]])
        done.append(t)
    # the best trial's reports decide what "clearly worse" means: find it the way the docstring says
    profile = r.choice(["worse", "worse", "better", "mixed", "equal", "far", "safety"])
    ref: dict[int, float] = {}
    if done:
        vals = [dec(t["value"]) for t in done]
        b = vals.index(min(vals) if d == "min" else max(vals))
        ref = {s: dec(v) for s, v in done[b]["iv"] if not (math.isnan(dec(v)) or math.isinf(dec(v)))}
    cur_steps = [s for s in steps if r.random() < 0.9]
    if r.random() < 0.25 or profile == "safety":
        cur_steps += [s for s in r.sample(range(14, 20), r.randint(1, 2))]
    r.shuffle(cur_steps)
    cur = []
    for s in cur_steps:
        base = ref.get(s, dy(r))
        if profile == "safety":  # a little worse on the common steps, far better on a step the best trial lacks
            v = base + sign * r.randint(1, 4) / 8.0 if s in ref else -sign * 64.0
        elif profile == "worse":
            v = base + sign * r.randint(1, 16) / 8.0
        elif profile == "better":
            v = base - sign * r.randint(1, 16) / 8.0
        elif profile == "equal":
            v = base
        elif profile == "far":
            v = base + sign * r.choice([1, 1, 1, -1]) * r.randint(1, 40) / 8.0
        else:
            v = base + r.randint(-8, 8) / 8.0
        cur.append([s, enc(special(r, v, r.choice([0.0, 0.0, 0.0, 0.08])))])
    return {"kind": "direct", "idx": idx, "d": d, "pThr": r.choice([0.0, 0.05, 0.1, 0.1, 0.25, 0.5, 1.0]),
            "nStartup": r.choice([0, 1, 2, 2, 3, 4, 6]), "done": done, "cur": cur,
            "self_best": r.random() < 0.08}


def model_request(case: dict[str, Any], real: dict[str, Any]) -> dict[str, Any]:
    p = enc(real["calls"][0]["p"]) if real["calls"] else "nan"
    req = {"d": case["d"], "pThr": enc(case["pThr"]), "nStartup": case["nStartup"], "cur": real["cur"], "p": p}
    constrained = any(t.get("cons") is not None for t in case["done"])
    finite_vals = all(t["value"] not in ("inf", "-inf") for t in case["done"])
    if constrained or not finite_vals:
        req.update({"op": "prune", "best": real["best"]})
    else:
        req.update({"op": "study", "done": [[i, t["value"], t["iv"]] for i, t in enumerate(case["done"])]})
    return req


def compare(case: dict[str, Any], real: dict[str, Any], out: dict[str, Any]) -> list[str]:
    why = []
    if "prune" not in out:
        return ["driver: %s" % out]
    if out["prune"] != real["prune"]:
        why.append("decision: model %s / code %s" % (out["prune"], real["prune"]))
    if sorted(out["warns"]) != sorted(real["warns"]):
        why.append("warnings: model %s / code %s" % (out["warns"], real["warns"]))
    reached = out["exit"] in ("safety", "final")
    if reached != bool(real["calls"]):
        why.append("scipy reached: model exit %s / code called wilcoxon %d time(s)" % (out["exit"], len(real["calls"])))
    if "best" in out and out["best"] != real["best_number"]:
        why.append("best trial: model %s / code %s" % (out["best"], real["best_number"]))
    if real["calls"]:
        c = real["calls"][0]
        if len(real["calls"]) != 1:
            why.append("wilcoxon called %d times" % len(real["calls"]))
        if c["args"] or c["kw"].get("zero_method") != "zsplit" or set(c["kw"]) != {"alternative", "zero_method"}:
            why.append("wilcoxon arguments %s %s" % (c["args"], c["kw"]))
        if c["kw"].get("alternative") != out["alt"]:
            why.append("alternative: model %s / code %s" % (out["alt"], c["kw"].get("alternative")))
        if reached and [enc(v) for v in c["x"]] != out.get("diffs"):
            why.append("diff_values: model %s / code %s" % (out.get("diffs"), [enc(v) for v in c["x"]]))
    return why


def oracle(case: dict[str, Any], real: dict[str, Any]) -> str | None:
    """the docstring, from the study alone (no model): when pruning is forbidden"""
    if not real["prune"]:
        return None
    cur = {s: dec(v) for s, v in real["cur"]}
    if real["best"] is None:
        return "pruned although the study has no best trial"
    best = {s: dec(v) for s, v in real["best"]}
    bad = [v for v in list(cur.values()) + list(best.values()) if math.isnan(v) or math.isinf(v)]
    if bad:
        return "pruned although intermediate values contain inf / NaN (docstring: such trials are never pruned)"
    n_common = len(set(cur) & set(best))
    if n_common < case["nStartup"]:
        return "pruned with %d steps in common with the best trial, n_startup_steps = %d" % (n_common, case["nStartup"])
    if n_common < 2:
        return "pruned with %d common step(s) (docstring: never at the first and second steps)" % n_common
    if real["calls"] and not (real["calls"][0]["p"] < case["pThr"]):
        return "pruned although the p-value scipy returned (%r) is not below p_threshold %r" % (real["calls"][0]["p"], case["pThr"])
    if case.get("self_best"):
        return "the best trial was pruned against itself"
    return None


def mirror_case(case: dict[str, Any]) -> dict[str, Any]:
    def neg(s: str) -> str:
        return enc(-dec(s)) if s != "nan" else s

    m = dict(case)
    m["d"] = "min" if case["d"] == "max" else "max"
    m["done"] = [dict(t, value=neg(t["value"]), iv=[[s, neg(v)] for s, v in t["iv"]]) for t in case["done"]]
    m["cur"] = [[s, neg(v)] for s, v in case["cur"]]
    return m


# ------------------------------------------------------------------------------------------------
# API-driven histories
# ------------------------------------------------------------------------------------------------
def run_history(R: Real, r: random.Random, drv: core.Driver, chk: core.Check, idx: int) -> None:
    optuna = R.optuna
    d = r.choice(["min", "max"])
    sign = 1.0 if d == "min" else -1.0
    cfg = {"pThr": r.choice([0.05, 0.1, 0.25, 0.5]), "nStartup": r.choice([0, 2, 3, 4])}
    with warnings.catch_warnings():
        warnings.simplefilter("ignore")
        pr = optuna.pruners.WilcoxonPruner(p_threshold=cfg["pThr"], n_startup_steps=cfg["nStartup"])
    st = optuna.create_study(direction="maximize" if d == "max" else "minimize", pruner=pr,
                             storage=optuna.storages.InMemoryStorage())
    n_inst = r.randint(3, 8)
    diff = [dy(r, 0, 16) for _ in range(n_inst)]
    for k in range(r.randint(2, 5)):
        t = st.ask()
        level = r.randint(-8, 16) / 8.0
        order = list(range(n_inst))
        r.shuffle(order)
        vals: list[float] = []
        pruned = False
        for s in order:
            v = sign * (diff[s] + level + r.randint(-4, 4) / 8.0)
            t.report(v, s)
            vals.append(v)
            frozen = st._storage.get_trial(t._trial_id)
            case = {"kind": "api", "idx": idx, "d": d, **cfg,
                    "done": [{"value": enc(x.value), "iv": [[a, enc(b)] for a, b in x.intermediate_values.items()]}
                             for x in st.get_trials(deepcopy=False, states=[R.TS.COMPLETE])],
                    "cur": [[a, enc(b)] for a, b in frozen.intermediate_values.items()]}
            R.rec.calls.clear()
            with warnings.catch_warnings(record=True) as ws:
                warnings.simplefilter("always")
                res = t.should_prune()
            calls = list(R.rec.calls)
            real = R.call(st, frozen, case)  # the same decision once more through prune(), with the recorder's view
            if bool(res) != real["prune"] or len(calls) != len(real["calls"]):
                chk.broke("correspondence", {"wilcoxon": "trial.should_prune() and pruner.prune(study, frozen trial) differ", "case": case})
            # numbers of the COMPLETE trials are not contiguous when earlier trials were pruned: the model's `bestOf`
            # works on (number, value) and returns the number
            nums = [x.number for x in st.get_trials(deepcopy=False, states=[R.TS.COMPLETE])]
            req = model_request(case, real)
            if req["op"] == "study":
                req["done"] = [[nums[i], dd[1], dd[2]] for i, dd in enumerate(req["done"])]
            out = drv.ask(req)
            judge(chk, case, real, out)
            if res and r.random() < 0.7:
                pruned = True
                break
        if pruned and r.random() < 0.5:
            st.tell(t, state=R.TS.PRUNED)
        else:
            st.tell(t, sum(vals) / len(vals))
            # the finished trial against the study (it may now be the best trial itself)
            frozen = st._storage.get_trial(t._trial_id)
            case = {"kind": "api-after-tell", "idx": idx, "d": d, **cfg,
                    "done": [{"value": enc(x.value), "iv": [[a, enc(b)] for a, b in x.intermediate_values.items()]}
                             for x in st.get_trials(deepcopy=False, states=[R.TS.COMPLETE])],
                    "cur": [[a, enc(b)] for a, b in frozen.intermediate_values.items()]}
            case["self_best"] = st.best_trial.number == frozen.number
            with warnings.catch_warnings():
                warnings.simplefilter("ignore")
                res = t.should_prune()
            real = R.call(st, frozen, case)
            if bool(res) != real["prune"]:
                chk.broke("correspondence", {"wilcoxon": "trial.should_prune() after tell and pruner.prune differ", "case": case})
            nums = [x.number for x in st.get_trials(deepcopy=False, states=[R.TS.COMPLETE])]
            req = model_request(case, real)
            if req["op"] == "study":
                req["done"] = [[nums[i], dd[1], dd[2]] for i, dd in enumerate(req["done"])]
            judge(chk, case, real, drv.ask(req))
            if case["self_best"]:
                chk.count("wilcoxon:best-trial-against-itself(api)")


def judge(chk: core.Check, case: dict[str, Any], real: dict[str, Any], out: dict[str, Any]) -> None:
    why = compare(case, real, out)
    chk.count("wilcoxon:exit:" + str(out.get("exit")))
    chk.count("wilcoxon:decision:%s" % real["prune"])
    for w in real["warns"]:
        chk.count("wilcoxon:warn:" + w)
    if why:
        chk.broke("correspondence", {"wilcoxon": "; ".join(why), "case": case, "model": out,
                                     "code": {k: real[k] for k in ("prune", "warns", "best_number")}})
    bad = oracle(case, real)
    if bad:
        chk.violation({"pruner": "wilcoxon", "protection": bad.split(" (")[0][:60]}, {"case": case, "kind": "wilcoxon"},
                      "WilcoxonPruner: %s; direction %s, p_threshold %r, n_startup_steps %d, current %s, best %s" % (
                          bad, case["d"], case["pThr"], case["nStartup"], real["cur"], real["best"]))
    chk.case({"wilcoxon": case}, nontrivial=bool(real["calls"]))


# ------------------------------------------------------------------------------------------------
# entry points
# ------------------------------------------------------------------------------------------------
def prepare(chk: core.Check) -> None:
    """regenerate Generated/WilcoxonSkel.lean from the source (call before chk.prove)"""
    from verif.translators import wilcoxon_skel

    wilcoxon_skel.regenerate(chk)


def correspond(chk: core.Check, tier: str) -> None:
    quick = tier == "quick"
    r = random.Random(chk.rng.getrandbits(64))
    R = Real()
    drv = core.Driver("wilcoxon")
    seen_true = seen_self = 0
    try:
        for c in core.corpus_cases("C16"):
            if isinstance(c, dict) and c.get("kind") == "direct" and "cur" in c:
                real = R.prune(c)
                judge(chk, c, real, drv.ask(model_request(c, real)))
        for i in range(700 if quick else 12000):
            c = gen_case(r, i)
            real = R.prune(c)
            out = drv.ask(model_request(c, real))
            judge(chk, c, real, out)
            seen_true += real["prune"]
            if c["self_best"] and real["best"] is not None:
                seen_self += 1
                chk.count("wilcoxon:best-trial-against-itself")
        for i in range(25 if quick else 400):
            run_history(R, r, drv, chk, i)
    except core.DriverBroken as e:
        chk.broke("correspondence", {"driver": str(e)[:800]})
    except Exception as e:  # the real pruner crashed while being driven: a broken tie
        import traceback

        chk.broke("correspondence", {"wilcoxon": "crash", "exc": type(e).__name__, "trace": traceback.format_exc()[-900:]})
    finally:
        drv.close()
        R.close()
    if seen_true < 5 or seen_self < 3 or chk.hist.get("wilcoxon:exit:safety", 0) < 1:
        chk.broke("correspondence", {"wilcoxon": "generator degenerate", "pruned": seen_true, "self_best": seen_self,
                                     "safety exits": chk.hist.get("wilcoxon:exit:safety", 0)})
    chk.assumptions += [
        "Wilcoxon: the p-value is an input of the model (the value the real scipy.stats.wilcoxon returned for the recorded call); "
        "reported values are dyadic rationals so that float differences and means are exact",
    ]
    chk.trusted += ["scipy.stats.wilcoxon (not modelled: abstract function of the alternative and the difference list)",
                    "numpy.intersect1d(return_indices=True) (modelled: common steps ascending; tied by the recorded diff_values)"]


def search(chk: core.Check) -> None:
    """failing-input search on the real code only (docstring oracle, no model), run when something broke"""
    if not any("wilcoxon" in core.canon(b.get("detail")) for b in chk.broken):
        return
    r = random.Random(chk.seed * 31 + 16)
    R = Real()
    found = 0
    n = 6000 if chk.tier == "quick" else 40000
    try:
        for i in range(n):
            c = gen_case(r, 10 ** 6 + i)
            if i % 3 == 0:  # press on the protections: few common steps, large n_startup_steps, clearly-worse profile
                c["nStartup"] = r.choice([3, 4, 5, 6, 8])
                c["pThr"] = r.choice([0.5, 1.0])
            real = R.prune(c)
            bad = oracle(c, real)
            if bad:
                found += 1
                if found <= 3:
                    chk.violation({"pruner": "wilcoxon", "protection": bad.split(" (")[0][:60]}, {"case": c, "kind": "wilcoxon"},
                                  "WilcoxonPruner: %s; direction %s, p_threshold %r, n_startup_steps %d, current %s, best %s" % (
                                      bad, c["d"], c["pThr"], c["nStartup"], real["cur"], real["best"]))
    except Exception as e:  # noqa: BLE001
        chk.search_log.append("wilcoxon search raised %r" % (e,))
    finally:
        R.close()
    chk.search_log.append("wilcoxon search: %d extra real-code cases, %d with an oracle failure" % (n, found))


def mirror(chk: core.Check, n: int) -> None:
    """C13 site `wilcoxonFull`: the whole `prune` under maximize on v and under minimize on -v (model-free)."""
    r = random.Random(chk.rng.getrandbits(64))
    R = Real()
    try:
        for i in range(n):
            c = gen_case(r, i)
            a, b = R.prune(c), R.prune(mirror_case(c))
            chk.count("mirror-site:wilcoxonFull")
            if a["calls"] and b["calls"] and abs(a["calls"][0]["p"] - b["calls"][0]["p"]) > 1e-9:
                chk.broke("correspondence", {"site": "wilcoxonFull", "why": "scipy p-value not symmetric (hypothesis hpv of wilcoxon_direction_mirror)",
                                             "case": c, "p": [a["calls"][0]["p"], b["calls"][0]["p"]]})
                continue
            if a["prune"] != b["prune"] or sorted(a["warns"]) != sorted(b["warns"]):
                chk.violation({"site": "wilcoxonFull", "level": "site", "attributed": True}, {"kind": "wilcoxonFull", "case": c},
                              "WilcoxonPruner.prune is not symmetric: %s on v -> %s %s, %s on -v -> %s %s" % (
                                  c["d"], a["prune"], a["warns"], mirror_case(c)["d"], b["prune"], b["warns"]))
            chk.case({"site": "wilcoxonFull", "case": c}, nontrivial=bool(a["calls"]))
    finally:
        R.close()


def replay_case(chk: core.Check, w: dict[str, Any]) -> int:
    R = Real()
    try:
        c = w["case"]
        if w.get("kind") == "wilcoxonFull":
            a, b = R.prune(c), R.prune(mirror_case(c))
            if a["prune"] != b["prune"]:
                print("REPRODUCED: WilcoxonPruner decides %s on v and %s on -v" % (a["prune"], b["prune"]))
                return 1
            print("not reproduced")
            return 0
        real = R.prune(c)
        bad = oracle(c, real)
        if bad:
            print("REPRODUCED: WilcoxonPruner: " + bad)
            return 1
        print("not reproduced")
        return 0
    finally:
        R.close()
