"""C17 — incrementally inferred search spaces equal a from-scratch computation.

translate:  verif/translators/tspace.py (via verif/props/c17_gen.py) regenerates Generated/SearchSpaceMethods.lean: the whole
            bodies of `_calculate`, `IntersectionSearchSpace.calculate`, `intersection_search_space`,
            `_SearchSpaceGroup.add_distributions`, `_GroupDecomposedSearchSpace.calculate` as statement IR; Props/C17Gen.lean
            proves the interpreter of the generated methods equal to the hand model for all inputs and restates the theorems
            for it.  verif/translators/search_space.py still regenerates Generated/SearchSpaceCode.lean (the integer
            expressions and state lists); Props/C17Gen.lean pins them to the constants of the hand model
            (`code_constants_pinned`).  The sub-driver steps a second system through the generated calculators on every
            action ("gen" field).
prove:      Props/C17.lean (cursor invariant preserved by every step of every history =>
            incremental_eq_scratch, never_grows, include_pruned variant, scratch_is_intersection;
            groups_partition / trial_is_union_of_groups / groups_canonical / groups_history).
correspond: histories driven through the real Study (ask / suggest / tell in any order, enqueue_trial,
            add_trial, storage-level writes to WAITING trials, changing distributions for a name, trials failing
            or pruned) on in-memory, SQLite (and journal-file in the thorough tier) storages, both calculators
            (and a foreign study) invoked at random points.  The trial list the study shows is diffed after
            every action into steps of the Lean history type (which checks on the implementation the two
            storage facts the theorems assume) and the compiled Lean model is run in lockstep: its
            result, its cursor, its stored space and its groups must equal the real objects'.
observe:    independent oracles on the implementation at every call:
              (1) IntersectionSearchSpace.calculate(study) == intersection_search_space(study.get_trials())
              (2) both == the mathematical intersection computed here from the trial snapshot
              (3) once established the result never grows
              (4) the groups are non-empty, disjoint, cover the seen names, every trial is a union of groups
            plus function-level runs of `_calculate` / `add_distributions` against the model.
"""
from __future__ import annotations

import json
import os
import random
import warnings
from typing import Any

import optuna
from optuna.distributions import BaseDistribution, CategoricalDistribution, FloatDistribution, IntDistribution
from optuna.search_space import IntersectionSearchSpace, _GroupDecomposedSearchSpace, _SearchSpaceGroup
from optuna.search_space import intersection_search_space
from optuna.trial import TrialState, create_trial

from verif import core
from verif.props import c17_gen
from verif.translators import search_space as translator

optuna.logging.set_verbosity(optuna.logging.ERROR)
warnings.simplefilter("ignore")

RULE = (
    "seeded action lists (ask / suggest with a per-name pool of differing distributions / tell COMPLETE|PRUNED|FAIL of a "
    "randomly chosen running trial / enqueue_trial / add_trial in any state / storage-level param and state writes "
    "to unfinished trials / calculator calls / calls with a foreign study) executed on a real Study per backend and, "
    "step by step, on the Lean model; a case = (backend, include_pruned flags, action list); non-trivial = a trial "
    "finished while a lower-numbered trial was still unfinished AND a calculator call came after that AND a later "
    "call followed the lower trial's finish (the cursor had to stay back and be re-used); distinct by SHA-1 of the case. "
    "Function-level cases (`_calculate` with arbitrary cached space/cursor, `add_distributions` sequences) are counted "
    "in the histogram only."
)

MODEL_SID = 7
FOREIGN_SID = 8

# ---- distributions as equality tokens -----------------------------------------------------------

POOL: dict[str, list[BaseDistribution]] = {
    "x": [FloatDistribution(0.0, 1.0), FloatDistribution(0.0, 2.0), FloatDistribution(-1.0, 1.0)],
    "y": [FloatDistribution(1e-3, 1.0, log=True), FloatDistribution(1e-3, 10.0, log=True)],
    "z": [FloatDistribution(0.0, 1.0, step=0.25), FloatDistribution(0.0, 2.0, step=0.25)],
    "k": [IntDistribution(0, 5), IntDistribution(0, 9), IntDistribution(1, 9, log=False)],
    "c": [CategoricalDistribution(("a", "b"))],
    "d": [CategoricalDistribution((1, 2, None))],
    "m": [FloatDistribution(0.0, 1.0), IntDistribution(0, 1)],  # kind conflict: the storage refuses the second kind
    "w": [FloatDistribution(0.0, 1.0), FloatDistribution(0.0, 1.0, log=False, step=None)],  # equal objects
    # single-valued domains (legal: low == high, a one-choice categorical, a range narrower than its step): samplers skip
    # them, the search-space calculators must not
    "s": [IntDistribution(3, 3), IntDistribution(3, 4)],
    "t": [CategoricalDistribution(("only",))],
    "u": [FloatDistribution(0.5, 0.5), FloatDistribution(0.0, 0.2, step=0.25)],
}
NAMES = sorted(POOL)
_TOKENS: list[BaseDistribution] = []


def tok(d: BaseDistribution) -> int:
    for i, e in enumerate(_TOKENS):
        if e == d:
            return i
    _TOKENS.append(d)
    return len(_TOKENS) - 1


for _n in NAMES:
    for _d in POOL[_n]:
        tok(_d)


def single_tokens() -> list[int]:
    """the tokens whose distribution answers single() == True (handed to the generated `add_distributions`)"""
    return [i for i, d in enumerate(_TOKENS) if d.single()]


def items_of(d: dict[str, BaseDistribution]) -> list[list[Any]]:
    return [[n, tok(v)] for n, v in d.items()]


def in_dist(r: random.Random, d: BaseDistribution) -> Any:
    if isinstance(d, CategoricalDistribution):
        return r.choice(list(d.choices))
    if isinstance(d, IntDistribution):
        return d.low
    assert isinstance(d, FloatDistribution)
    return d.low


FINISHED = {1, 2, 3}


def of_interest(state: int, ip: bool) -> bool:
    return state == 1 or (ip and state == 2)


Snap = list  # [(number, state code, ((name, tok), ...sorted))]


def snapshot(study: optuna.Study) -> Snap:
    return [(t.number, int(t.state), tuple(sorted((n, tok(d)) for n, d in t.distributions.items())))
            for t in study.get_trials(deepcopy=False)]


def math_intersection(snap: Snap, ip: bool) -> list[list[Any]]:
    """The specification: items present, with an equal distribution, in every finished trial of interest."""
    sets = [set(t[2]) for t in snap if of_interest(t[1], ip)]
    if not sets:
        return []
    return [list(p) for p in sorted(set.intersection(*sets))]


class HistoryModelBroken(Exception):
    pass


def diff_steps(old: Snap, new: Snap) -> list[dict[str, Any]]:
    """Explain the change of the trial list as steps of the Lean `Step` type; raises when the storage did
    something the step relation (numbers dense, finished trials frozen) does not allow."""
    if len(new) < len(old):
        raise HistoryModelBroken("trial list shrank from %d to %d" % (len(old), len(new)))
    steps: list[dict[str, Any]] = []
    for i, n in enumerate(new):
        if n[0] != i:
            raise HistoryModelBroken("trial at position %d has number %d" % (i, n[0]))
        if i >= len(old):
            steps.append({"op": "create", "state": n[1], "params": [list(p) for p in n[2]]})
            continue
        o = old[i]
        if o == n:
            continue
        if o[1] in FINISHED:
            raise HistoryModelBroken("finished trial %d changed: %s -> %s" % (i, o, n))
        od, nd = dict(o[2]), dict(n[2])
        if set(od) - set(nd):
            raise HistoryModelBroken("trial %d lost parameters %s" % (i, sorted(set(od) - set(nd))))
        for name in sorted(nd):
            if od.get(name) != nd[name]:
                steps.append({"op": "setParam", "i": i, "name": name, "tok": nd[name]})
        if o[1] != n[1]:
            steps.append({"op": "setState", "i": i, "state": n[1]})
    return steps


# ---- one history on one backend --------------------------------------------------------------

_SHARED: dict[tuple[str, str], Any] = {}


def make_storage(backend: str, tmp: str, tag: str) -> Any:
    """In-memory: a fresh storage per history.  SQLite / journal file: one storage per process, a fresh pair
    of studies per history (creating the schema costs more than a whole history)."""
    if backend == "mem":
        return optuna.storages.InMemoryStorage()
    key = (backend, tmp)
    if key in _SHARED:
        return _SHARED[key]
    if backend == "sqlite":
        from sqlalchemy import event

        st = optuna.storages.RDBStorage("sqlite:///" + os.path.join(tmp, "c17_%d.sqlite3" % os.getpid()))

        def _pragma(conn: Any, rec: Any) -> None:  # durability is irrelevant here; fsync dominates the run time
            cur = conn.cursor()
            cur.execute("PRAGMA synchronous=OFF")
            cur.execute("PRAGMA journal_mode=MEMORY")
            cur.close()

        event.listen(st.engine, "connect", _pragma)
        st.engine.dispose()
        _SHARED[key] = st
    elif backend == "journal":
        from optuna.storages import JournalStorage
        from optuna.storages.journal import JournalFileBackend

        _SHARED[key] = JournalStorage(JournalFileBackend(os.path.join(tmp, "c17_%d.log" % os.getpid())))
    else:
        raise ValueError(backend)
    return _SHARED[key]


class Failure(Exception):
    def __init__(self, kind: str, what: str, msg: str, detail: Any = None) -> None:
        super().__init__(msg)
        self.kind = kind  # "violation" | "correspondence" | "history-model"
        self.what = what
        self.msg = msg
        self.detail = detail


class Runner:
    def __init__(self, backend: str, flags: dict[str, bool], tmp: str, tag: str, drv: core.Driver | None) -> None:
        self.backend = backend
        self.ipI, self.ipG = bool(flags["ipI"]), bool(flags["ipG"])
        self.drv = drv
        storage = make_storage(backend, tmp, tag)
        sampler = optuna.samplers.RandomSampler(seed=1)
        self.study = optuna.create_study(storage=storage, sampler=sampler)
        self.storage = self.study._storage
        self.other = optuna.create_study(storage=self.storage, sampler=optuna.samplers.RandomSampler(seed=2))
        d0 = POOL["x"][0]
        for _ in range(2):
            self.other.add_trial(create_trial(state=TrialState.COMPLETE, value=0.0, params={"x": 0.5}, distributions={"x": d0}))
        self.other_snap = snapshot(self.other)
        self.calcs = {
            "I": IntersectionSearchSpace(include_pruned=self.ipI),
            "Ishadow": IntersectionSearchSpace(include_pruned=not self.ipI),
            "G": _GroupDecomposedSearchSpace(include_pruned=self.ipG),
            "Gshadow": _GroupDecomposedSearchSpace(include_pruned=not self.ipG),
        }
        self.prev: dict[str, tuple[list[Any], bool]] = {}
        self.snap: Snap = []
        self.rng = random.Random(12345)
        self.stats = {"actions": 0, "ooo_finish": 0, "calls_after_ooo": 0, "calls_after_catchup": 0, "value_errors": 0,
                      "rejected_api": 0, "foreign_bound": 0, "max_back": 0}
        self._ooo_pending: set[int] = set()   # lower-numbered trials that were unfinished when a higher one finished
        self._ooo_called = False
        self._catchup = False
        self.gen_diff: Any = None   # first answer on which the interpreter of the generated methods differs from the hand model
        if drv is not None:
            r = drv.ask({"op": "reset", "sid": MODEL_SID, "ipI": self.ipI, "ipG": self.ipG, "single": single_tokens()})
            if r.get("k") != "reset":
                raise core.DriverBroken("reset: %s" % r)

    # -- helpers
    def _note_gen(self, resp: Any, where: str) -> None:
        d = c17_gen.gen_disagreement(resp)
        if d is not None and self.gen_diff is None:
            self.gen_diff = {"at_action": self.stats["actions"], "where": where, "diff": d}

    def _unfinished(self, state: int) -> list[int]:
        return [t[0] for t in self.snap if t[1] == state]

    def _trial_obj(self, number: int) -> optuna.trial.Trial:
        tid = self.storage.get_trial_id_from_study_id_trial_number(self.study._study_id, number)
        return optuna.trial.Trial(self.study, tid)

    def _sync(self) -> None:
        """Diff the real trial list into model steps and run them on the model."""
        new = snapshot(self.study)
        steps = diff_steps(self.snap, new)
        # bookkeeping for the non-triviality rule
        for st in steps:
            if st["op"] == "setState" and st["state"] in FINISHED:
                lower = {t[0] for t in new if t[0] < st["i"] and t[1] not in FINISHED}
                if lower:
                    self.stats["ooo_finish"] += 1
                    self._ooo_pending |= lower
                if st["i"] in self._ooo_pending and self._ooo_called:
                    self._catchup = True
        self.snap = new
        if self.drv is not None and steps:
            resp = None
            for j, st in enumerate(steps):
                resp = self.drv.ask(dict(st, dump=(j == len(steps) - 1)))
                self._note_gen(resp, st["op"])
                if resp.get("out", {}).get("k") != "ok":
                    raise Failure("history-model", "step-rejected", "the model rejected step %s: %s" % (st, resp))
            model = [(t[0], t[1], tuple(sorted((p[0], p[1]) for p in t[2]))) for t in resp["trials"]]
            if model != new:
                raise Failure("history-model", "trial-list", "model trial list %s != study's %s" % (model[-3:], new[-3:]))

    # -- actions
    def do(self, a: dict[str, Any]) -> None:
        self.stats["actions"] += 1
        k = a["a"]
        try:
            if k == "ask":
                self.study.ask()
            elif k == "enqueue":
                self.study.enqueue_trial({})
            elif k == "add":
                dists = {n: POOL[n][i % len(POOL[n])] for n, i in a["params"]}
                params = {n: in_dist(self.rng, d) for n, d in dists.items()}
                st = TrialState(a["state"])
                self.study.add_trial(create_trial(state=st, value=0.0 if st == TrialState.COMPLETE else None,
                                                  params=params, distributions=dists))
            elif k == "suggest":
                run = self._unfinished(0)
                if run:
                    t = self._trial_obj(run[a["slot"] % len(run)])
                    d = POOL[a["name"]][a["dist"] % len(POOL[a["name"]])]
                    if isinstance(d, CategoricalDistribution):
                        t.suggest_categorical(a["name"], d.choices)
                    elif isinstance(d, IntDistribution):
                        t.suggest_int(a["name"], d.low, d.high, step=d.step, log=d.log)
                    else:
                        assert isinstance(d, FloatDistribution)
                        t.suggest_float(a["name"], d.low, d.high, step=d.step, log=d.log)
            elif k == "tell":
                run = self._unfinished(0)
                if run:
                    n = run[a["slot"] % len(run)]
                    st = TrialState(a["state"])
                    self.study.tell(n, values=0.5 if st == TrialState.COMPLETE else None, state=st)
            elif k == "rawparam":  # storage-level write to an unfinished (RUNNING or WAITING) trial, may overwrite
                unf = self._unfinished(0) + self._unfinished(4)
                if unf:
                    n = sorted(unf)[a["slot"] % len(unf)]
                    d = POOL[a["name"]][a["dist"] % len(POOL[a["name"]])]
                    tid = self.storage.get_trial_id_from_study_id_trial_number(self.study._study_id, n)
                    self.storage.set_trial_param(tid, a["name"], d.to_internal_repr(in_dist(self.rng, d)), d)
            elif k == "rawstate":  # storage-level state change of an unfinished trial (e.g. WAITING -> FAIL)
                unf = self._unfinished(0) + self._unfinished(4)
                if unf:
                    n = sorted(unf)[a["slot"] % len(unf)]
                    st = TrialState(a["state"])
                    tid = self.storage.get_trial_id_from_study_id_trial_number(self.study._study_id, n)
                    self.storage.set_trial_state_values(tid, st, [0.25] if st == TrialState.COMPLETE else None)
            elif k in ("callI", "callG", "foreign"):
                pass
            else:
                raise ValueError("unknown action %r" % (a,))
        except ValueError:
            self.stats["value_errors"] += 1  # e.g. incompatible distribution kind for a name: refused, nothing written
        except optuna.exceptions.UpdateFinishedTrialError:
            self.stats["rejected_api"] += 1
        self._sync()
        if k == "callI":
            self.call_intersection("I", self.study, MODEL_SID)
            self.call_intersection("Ishadow", self.study, None)
        elif k == "foreign":
            self.call_intersection("I", self.other, FOREIGN_SID)
        elif k == "callG":
            self.call_groups("G", True)
            self.call_groups("Gshadow", False)

    # -- calls and oracles
    def call_intersection(self, key: str, study: optuna.Study, model_sid: int | None) -> None:
        calc = self.calcs[key]
        ip = self.ipI if key == "I" else (not self.ipI)
        ours = study is self.study
        try:
            res = calc.calculate(study)
            got: Any = items_of(res)
            kind = "result"
        except ValueError:
            got, kind = None, "valueError"
        if ours and kind == "result":
            trials = study.get_trials(deepcopy=False)
            scratch = items_of(intersection_search_space(trials, include_pruned=ip))
            spec = math_intersection(self.snap, ip)
            ctx = "include_pruned=%s, %d trials" % (ip, len(self.snap))
            if got != scratch:
                raise Failure("violation", "incremental!=scratch",
                              "IntersectionSearchSpace.calculate returned %s but intersection_search_space on the same trials gives %s (%s)" % (got, scratch, ctx),
                              {"incremental": got, "scratch": scratch, "include_pruned": ip})
            if scratch != spec:
                raise Failure("violation", "scratch!=intersection",
                              "intersection_search_space returned %s; the intersection over the finished trials of interest (sorted by name) is %s (%s)" % (scratch, spec, ctx),
                              {"scratch": scratch, "spec": spec, "include_pruned": ip})
            established = any(of_interest(t[1], ip) for t in self.snap)
            prev = self.prev.get(key)
            if prev is not None and prev[1]:
                extra = [p for p in got if p not in prev[0]]
                if extra:
                    raise Failure("violation", "grew", "the result grew: %s were not in the earlier result %s (%s)" % (extra, prev[0], ctx),
                                  {"earlier": prev[0], "later": got, "include_pruned": ip})
            self.prev[key] = (got, established)
            if key == "I":
                if self._ooo_pending:
                    self.stats["calls_after_ooo"] += 1
                    self._ooo_called = True
                if self._catchup:
                    self.stats["calls_after_catchup"] += 1
                cur = getattr(calc, "_cached_trial_number", None)
                if isinstance(cur, int):
                    self.stats["max_back"] = max(self.stats["max_back"], len(self.snap) - cur)
        if model_sid is None or self.drv is None:
            return
        if ours:
            resp = self.drv.ask({"op": "callI"})
        else:
            resp = self.drv.ask({"op": "callForeign", "sid": model_sid,
                                 "trials": [[t[0], t[1], [list(p) for p in t[2]]] for t in self.other_snap]})
            if kind == "result":
                self.stats["foreign_bound"] += 1
        self._note_gen(resp, "callI" if ours else "callForeign")
        out = resp.get("out", {})
        if out.get("k") != kind or (kind == "result" and out.get("d") != got):
            raise Failure("correspondence", "intersection-output",
                          "model %s / implementation %s %s" % (out, kind, got), {"model": out, "impl": [kind, got]})
        cur = getattr(calc, "_cached_trial_number", None)
        if isinstance(cur, int) and not isinstance(cur, bool) and cur != resp.get("cursor"):
            raise Failure("correspondence", "cursor", "model cursor %s / implementation _cached_trial_number %s" % (resp.get("cursor"), cur),
                          {"model": resp.get("cursor"), "impl": cur})
        if hasattr(calc, "_search_space"):
            sp = calc._search_space
            if sp is None or isinstance(sp, dict):
                impl_sp = None if sp is None else sorted(items_of(sp))
                model_sp = None if resp.get("space") is None else sorted(resp["space"])
                if impl_sp != model_sp:
                    raise Failure("correspondence", "stored-space", "model space %s / implementation _search_space %s" % (model_sp, impl_sp),
                                  {"model": model_sp, "impl": impl_sp})

    def call_groups(self, key: str, with_model: bool) -> None:
        calc = self.calcs[key]
        ip = self.ipG if key == "G" else (not self.ipG)
        res = calc.calculate(self.study)
        groups = [sorted(items_of(g)) for g in res.search_spaces]
        check_groups(groups, [t for t in self.snap if of_interest(t[1], ip)], "include_pruned=%s" % ip)
        if with_model and self.drv is not None:
            resp = self.drv.ask({"op": "callG"})
            self._note_gen(resp, "callG")
            out = resp.get("out", {})
            mg = [sorted(g) for g in out.get("g", [])] if out.get("k") == "groups" else None
            if mg != groups:
                raise Failure("correspondence", "groups-output", "model groups %s / implementation %s" % (mg, groups),
                              {"model": mg, "impl": groups})


def check_groups(groups: list[list[list[Any]]], trials: Snap, ctx: str) -> None:
    """The property as stated: a partition of all seen names, every trial's name set a union of groups."""
    names = [frozenset(p[0] for p in g) for g in groups]
    seen = set().union(*[set(p[0] for p in t[2]) for t in trials]) if trials else set()
    if any(len(g) == 0 for g in names):
        raise Failure("violation", "groups-empty", "an empty group is kept: %s (%s)" % (groups, ctx), {"groups": groups})
    if sum(len(g) for g in names) != len(set().union(*names) if names else set()):
        raise Failure("violation", "groups-overlap", "the groups overlap: %s (%s)" % (groups, ctx), {"groups": groups})
    cover = set().union(*names) if names else set()
    if cover != seen:
        raise Failure("violation", "groups-cover", "the groups cover %s but the names seen in trials of interest are %s (%s)" % (sorted(cover), sorted(seen), ctx),
                      {"groups": groups, "seen": sorted(seen)})
    for t in trials:
        tn = set(p[0] for p in t[2])
        for g in names:
            if g & tn and not g <= tn:
                raise Failure("violation", "groups-not-union",
                              "trial %d has parameters %s: not a union of groups, group %s straddles it (%s)" % (t[0], sorted(tn), sorted(g), ctx),
                              {"groups": groups, "trial": list(t)})


# ---- generation ---------------------------------------------------------------------------------

def gen_actions(r: random.Random, n: int) -> list[dict[str, Any]]:
    """Mostly valid action lists, biased towards several trials running at once and finishing out of order."""
    acts: list[dict[str, Any]] = []
    conc = r.choice([1, 2, 3, 5, 8])
    p_call = r.choice([0.08, 0.15, 0.3])
    live = 0
    called = False
    for _ in range(n):
        x = r.random()
        if x < p_call:
            acts.append({"a": r.choice(["callI", "callI", "callI", "callG"])})
            called = called or acts[-1]["a"] == "callI"
        elif x < p_call + 0.02:
            # a foreign study handed to a calculator that has not served ours yet binds it for good: keep that rare
            if called or r.random() < 0.15:
                acts.append({"a": "foreign"})
        elif live < conc and r.random() < 0.5:
            acts.append({"a": "ask"})
            live += 1
        else:
            y = r.random()
            if y < 0.45:
                name = r.choice(NAMES)
                # mostly the first distribution of the name, sometimes another one (a changed range)
                acts.append({"a": "suggest", "slot": r.randrange(8), "name": name, "dist": 0 if r.random() < 0.7 else r.randrange(3)})
            elif y < 0.72:
                acts.append({"a": "tell", "slot": r.randrange(8), "state": r.choice([1, 1, 1, 2, 3])})
                live = max(0, live - 1)
            elif y < 0.78:
                acts.append({"a": "enqueue"})
            elif y < 0.86:
                k = r.randrange(0, 4)
                names = r.sample(NAMES, k)
                acts.append({"a": "add", "state": r.choice([1, 1, 2, 3, 0, 4]), "params": [[nm, 0 if r.random() < 0.7 else r.randrange(3)] for nm in names]})
            elif y < 0.94:
                acts.append({"a": "rawparam", "slot": r.randrange(8), "name": r.choice(NAMES), "dist": r.randrange(3)})
            else:
                acts.append({"a": "rawstate", "slot": r.randrange(8), "state": r.choice([1, 2, 3, 3, 0, 4])})
    acts.append({"a": "callI"})
    acts.append({"a": "callG"})
    return acts


def run_case(case: dict[str, Any], tmp: str, tag: str, drv: core.Driver | None) -> dict[str, Any]:
    """Returns {"ok": True, "stats": ...} or {"ok": False, "kind", "what", "msg", "step", "detail", "stats"}."""
    rn = Runner(case["backend"], case["flags"], tmp, tag, drv)
    for i, a in enumerate(case["actions"]):
        try:
            rn.do(a)
        except Failure as f:
            return {"ok": False, "kind": f.kind, "what": f.what, "msg": f.msg, "step": i, "detail": f.detail, "stats": rn.stats}
        except HistoryModelBroken as e:
            return {"ok": False, "kind": "history-model", "what": "storage-fact", "msg": str(e), "step": i, "detail": None, "stats": rn.stats}
    if rn.gen_diff is not None:
        # the real calculators passed every oracle and agree with the hand model, but the interpreter of the methods generated
        # from the source does not agree with the hand model (reported only when nothing else failed in this history)
        g = rn.gen_diff
        return {"ok": False, "kind": "correspondence", "what": "generated-vs-hand",
                "msg": "interpreter of the methods generated from the source differs from the hand model (Model/SearchSpace.lean) at `%s`: %s" % (
                    g["where"], json.dumps(g["diff"])[:400]),
                "step": max(0, g["at_action"] - 1), "detail": g, "stats": rn.stats}
    return {"ok": True, "stats": rn.stats}


_case_counter = [0]


def _tag() -> str:
    _case_counter[0] += 1
    return "h%d" % _case_counter[0]


def minimise(case: dict[str, Any], res: dict[str, Any], tmp: str, drv: core.Driver | None) -> dict[str, Any]:
    acts = case["actions"][: res["step"] + 1]

    def fails(cand: list[dict[str, Any]]) -> bool:
        try:
            r2 = run_case(dict(case, actions=cand), tmp, _tag(), drv)
        except Exception:
            return False
        return (not r2["ok"]) and r2["kind"] == res["kind"] and r2["what"] == res["what"]

    small = core.ddmin(list(acts), fails, budget=150)
    return dict(case, actions=small)


def is_nontrivial(st: dict[str, Any]) -> bool:
    return st["ooo_finish"] >= 1 and st["calls_after_ooo"] >= 1 and st["calls_after_catchup"] >= 1


def report(chk: core.Check, case: dict[str, Any], res: dict[str, Any], tmp: str, drv: core.Driver | None) -> None:
    small = minimise(case, res, tmp, drv)
    r2 = run_case(small, tmp, _tag(), drv)
    if r2["ok"]:  # should not happen (ddmin keeps failing inputs); fall back to the unshrunk prefix
        small, r2 = dict(case, actions=case["actions"][: res["step"] + 1]), res
    witness = {"backend": small["backend"], "flags": small["flags"], "actions": small["actions"], "observed": r2.get("detail"),
               "full_len": len(case["actions"])}
    if r2["kind"] == "violation":
        sig = {"what": r2["what"], "backend": small["backend"]}
        chk.violation(sig, witness, "%s on %s after %d action(s): %s" % (r2["what"], small["backend"], len(small["actions"]), r2["msg"]))
    else:
        chk.broke("correspondence" if r2["kind"] == "correspondence" else "history-model",
                  {"what": r2["what"], "why": r2["msg"][:500], "case": witness})


def _worker(args: tuple[list[dict[str, Any]], str, bool]) -> list[dict[str, Any]]:
    """Run a chunk of cases in an own process with an own model driver."""
    cases, tmp, use_driver = args
    drv = core.Driver("searchspace") if use_driver else None
    out = []
    try:
        for case in cases:
            try:
                out.append(run_case(case, tmp, _tag(), drv))
            except core.DriverBroken as e:
                out.append({"ok": False, "kind": "driver", "what": "driver", "msg": str(e)[:600], "step": 0, "detail": None,
                            "stats": {k: 0 for k in ("actions", "ooo_finish", "calls_after_ooo", "calls_after_catchup", "value_errors", "foreign_bound", "max_back")}})
                drv = core.Driver("searchspace") if use_driver else None
    finally:
        if drv is not None:
            drv.close()
    return out


def histories(chk: core.Check, n_hist: int, n_actions: tuple[int, int], backends: list[str], use_driver: bool,
              stop_after: int = 3, procs: int = 4) -> None:
    import multiprocessing as mp

    r = chk.rng
    cases = [dict(c) for c in core.corpus_cases("C17") if "actions" in c]
    for i in range(n_hist):
        cases.append({"backend": backends[i % len(backends)], "flags": {"ipI": r.random() < 0.5, "ipG": r.random() < 0.5},
                      "actions": gen_actions(r, r.randint(*n_actions))})
    # slow backends first, spread evenly
    order = sorted(range(len(cases)), key=lambda i: (cases[i]["backend"] == "mem", i))
    chunks: list[list[int]] = [[] for _ in range(max(1, min(procs, len(cases))))]
    for j, i in enumerate(order):
        chunks[j % len(chunks)].append(i)
    jobs = [([cases[i] for i in ch], chk.tmp, use_driver) for ch in chunks]
    if len(jobs) == 1:
        results = [_worker(jobs[0])]
    else:
        with mp.get_context("spawn").Pool(len(jobs)) as pool:
            results = pool.map(_worker, jobs)
    by_index: dict[int, dict[str, Any]] = {}
    for ch, rs in zip(chunks, results):
        for i, res in zip(ch, rs):
            by_index[i] = res
    failures = 0
    drv: core.Driver | None = None
    try:
        for i, case in enumerate(cases):
            res = by_index[i]
            st = res["stats"]
            chk.case(case, nontrivial=is_nontrivial(st))
            chk.traces_validated += 1 if use_driver else 0
            chk.count("histories:" + case["backend"])
            chk.count("actions", st["actions"])
            for key in ("ooo_finish", "calls_after_ooo", "calls_after_catchup", "value_errors", "foreign_bound"):
                chk.count("branch:" + key, st[key])
            chk.extra["max_cursor_distance_seen"] = max(chk.extra.get("max_cursor_distance_seen", 0), st["max_back"])
            for a in case["actions"]:
                chk.count("op:" + a["a"])
            if not res["ok"] and failures < stop_after:
                failures += 1
                if res["kind"] == "driver":
                    chk.broke("correspondence", {"driver": res["msg"]})
                    continue
                if drv is None and use_driver:
                    drv = core.Driver("searchspace")
                report(chk, case, res, chk.tmp, drv)
    finally:
        if drv is not None:
            drv.close()


# ---- function-level correspondence -------------------------------------------------------------

def _frozen(number: int, state: int, dists: dict[str, BaseDistribution], r: random.Random) -> optuna.trial.FrozenTrial:
    st = TrialState(state)
    t = create_trial(state=st, value=0.0 if st == TrialState.COMPLETE else None,
                     params={n: in_dist(r, d) for n, d in dists.items()}, distributions=dists)
    t.number = number
    return t


def functions(chk: core.Check, n: int) -> None:
    r = chk.rng
    import importlib

    calc_fn = getattr(importlib.import_module("optuna.search_space.intersection"), "_calculate", None)
    jobs: list[dict[str, Any]] = []
    expect: list[Any] = []
    for _ in range(n):
        nt = r.randint(0, 7)
        trials = []
        for i in range(nt):
            names = r.sample(NAMES, r.randint(0, 4))
            dists = {nm: POOL[nm][0 if r.random() < 0.7 else r.randrange(len(POOL[nm]))] for nm in names}
            if "m" in dists:
                dists["m"] = POOL["m"][0]
            trials.append(_frozen(i, r.choice([0, 1, 1, 1, 2, 3, 4]), dists, r))
        jt = [[t.number, int(t.state), items_of(t.distributions)] for t in trials]
        ip = r.random() < 0.5
        # the public from-scratch function against the specification and the model
        got = items_of(intersection_search_space(trials, include_pruned=ip))
        spec = math_intersection([(a, b, tuple(sorted(map(tuple, c)))) for a, b, c in jt], ip)
        case = {"fn": "intersection_search_space", "trials": jt, "ip": ip}
        chk.count("fn:intersection_search_space")
        if got != spec:
            chk.violation({"what": "scratch!=intersection", "backend": "function"}, case,
                          "intersection_search_space returned %s, the intersection (sorted by name) is %s" % (got, spec))
            return
        jobs.append({"op": "scratch", "ip": ip, "trials": jt})
        expect.append(("scratch", case, {"d": got}))
        if calc_fn is not None:
            cached = r.randint(-1, nt + 1)
            if r.random() < 0.35:
                space = None
            else:
                names = r.sample(NAMES, r.randint(0, 4))
                space = {nm: POOL[nm][0 if r.random() < 0.7 else r.randrange(len(POOL[nm]))] for nm in names}
            try:
                sp2, nxt = calc_fn(trials, ip, None if space is None else dict(space), cached)
            except TypeError:
                calc_fn = None  # signature changed: drop the private comparison, do not alarm
                chk.count("fn:_calculate-signature-changed")
                continue
            chk.count("fn:_calculate")
            jobs.append({"op": "calcRaw", "ip": ip, "trials": jt, "space": None if space is None else items_of(space), "cached": cached})
            expect.append(("calcRaw", {"fn": "_calculate", "trials": jt, "ip": ip, "space": None if space is None else items_of(space), "cached": cached},
                           {"space": None if sp2 is None else items_of(sp2), "next": nxt}))
    # add_distributions sequences
    for _ in range(n // 2):
        grp = _SearchSpaceGroup()
        model_groups: list[Any] = []
        added: Snap = []
        for j in range(r.randint(1, 7)):
            names = r.sample(NAMES, r.randint(0, 5))
            d = {nm: POOL[nm][r.randrange(len(POOL[nm]))] for nm in names}
            before = [sorted(items_of(g)) for g in grp.search_spaces]
            grp.add_distributions(d)
            after = [sorted(items_of(g)) for g in grp.search_spaces]
            added.append((j, 1, tuple(sorted((nm, tok(v)) for nm, v in d.items()))))
            chk.count("fn:add_distributions")
            try:
                check_groups(after, added, "add_distributions sequence")
            except Failure as f:
                chk.violation({"what": f.what, "backend": "function"}, {"fn": "add_distributions", "added": [list(map(list, t[2])) for t in added], "observed": f.detail},
                              "%s after add_distributions calls: %s" % (f.what, f.msg))
                return
            jobs.append({"op": "add", "groups": before, "d": items_of(d), "single": single_tokens()})
            expect.append(("add", {"fn": "add_distributions", "groups": before, "d": items_of(d)}, {"g": after}))
    outs = core.driver_batch("searchspace", jobs)
    for (kind, case, exp), out in zip(expect, outs):
        g = c17_gen.gen_disagreement(out)
        if isinstance(out, dict):
            out = {k: v for k, v in out.items() if k != "gen"}
        if g is not None:
            chk.broke("correspondence", {"what": "function:%s: interpreter of the generated method differs from the hand model" % kind,
                                         "case": case, "gen": g})
            return
        if kind == "add":
            out = {"g": [sorted(g) for g in out.get("g", [])]}
        if out != exp:
            chk.broke("correspondence", {"what": "function:" + kind, "case": case, "model": out, "impl": exp})
            return


# ---- failing-input search (only when something broke and no violation is known) ---------------

def search(chk: core.Check) -> None:
    """A larger hunt on the real code with the implementation-only oracles (no model involved)."""
    before = len(chk.violations)
    histories(chk, n_hist=400 if chk.tier == "quick" else 3000, n_actions=(20, 120), backends=["mem"], use_driver=False, stop_after=1,
              procs=4 if chk.tier == "quick" else 12)
    chk.search_log.append("search: %d more in-memory histories with the implementation-only oracles; %d violation(s) found"
                          % (400 if chk.tier == "quick" else 3000, len(chk.violations) - before))


# ---- entry points -------------------------------------------------------------------------------

def main(chk: core.Check) -> int:
    chk.rule = RULE
    translator.run(chk)
    c17_gen.regenerate(chk)  # T-space: Generated/SearchSpaceMethods.lean from intersection.py / group_decomposed.py
    if not getattr(chk, "no_prove", False):
        chk.prove(["OptunaVerif.Props.C17", c17_gen.MODULE])
        c17_gen.explain_proof_failure(chk)
    quick = chk.tier == "quick"
    try:
        core.ensure_driver()
        functions(chk, 400 if quick else 5000)
        if not chk.violations:
            histories(chk, n_hist=240 if quick else 2000, n_actions=(15, 90) if quick else (15, 220),
                      backends=["mem", "mem", "mem", "mem", "sqlite"] if quick else ["mem", "mem", "mem", "sqlite", "journal"],
                      use_driver=True, procs=6 if quick else 12)
    except core.DriverBroken as e:
        chk.broke("correspondence", {"driver": str(e)[:800]})
    chk.extra["distribution_tokens"] = len(_TOKENS)
    chk.assumptions += [
        "distributions are compared only by Python `==`; the harness numbers the equivalence classes of a fixed pool (no pool entry makes `==` non-transitive)",
        "the study id identifies the study (two InMemoryStorage objects both hand out id 0; the class docstring excludes reuse across studies)",
        "numbers dense in creation order and finished trials frozen are theorems of C01 about the storage contract; here they are re-observed on every action by diffing the trial list",
        "SQLite stands for every RDB dialect; private attributes (_cached_trial_number, _search_space, _calculate) are compared only while they exist",
    ]
    chk.trusted += ["the skeleton matcher and expression translator of verif/translators/search_space.py",
                    "T-space (verif/translators/tspace.py): the whitelisted source shapes are mapped to the primitives of Model/SpaceIR.lean as documented there"]
    return chk.finish(search=search)


def replay(chk: core.Check, path: str) -> int:
    w = json.load(open(path))["witness"]
    if "fn" in w:
        print("function-level witness: %s" % json.dumps(w)[:800])
        r = random.Random(0)
        if w["fn"] == "intersection_search_space":
            trials = [_frozen(t[0], t[1], {n: _TOKENS[k] for n, k in t[2]}, r) for t in w["trials"]]
            got = items_of(intersection_search_space(trials, include_pruned=w["ip"]))
            spec = math_intersection([(a, b, tuple(sorted(map(tuple, c)))) for a, b, c in w["trials"]], w["ip"])
            if got != spec:
                print("REPRODUCED: intersection_search_space returned %s, expected %s" % (got, spec))
                return 1
        elif w["fn"] == "add_distributions":
            grp = _SearchSpaceGroup()
            added: Snap = []
            for j, d in enumerate(w["added"]):
                grp.add_distributions({n: _TOKENS[k] for n, k in d})
                added.append((j, 1, tuple(sorted((n, k) for n, k in d))))
                try:
                    check_groups([sorted(items_of(g)) for g in grp.search_spaces], added, "replay")
                except Failure as f:
                    print("REPRODUCED: %s" % f.msg)
                    return 1
        print("not reproduced")
        return 0
    case = {"backend": w["backend"], "flags": w["flags"], "actions": w["actions"]}
    res = run_case(case, chk.tmp, "replay", None)
    if not res["ok"]:
        print("REPRODUCED on %s at action %d (%s): %s" % (w["backend"], res["step"], res["what"], res["msg"]))
        return 1
    try:
        translator.run(chk)
        c17_gen.regenerate(chk)  # the sub-driver links the methods generated from the tree under test
        core.ensure_driver()
        drv = core.Driver("searchspace")
        try:
            res = run_case(case, chk.tmp, "replay2", drv)
        finally:
            drv.close()
        if not res["ok"]:
            print("REPRODUCED (model vs implementation) on %s at action %d (%s): %s" % (w["backend"], res["step"], res["what"], res["msg"]))
            return 1
    except core.DriverBroken:
        pass
    print("not reproduced")
    return 0
