"""C17, translator tie: the search-space calculators as written in the source today -> Lean data -> proved equal to the hand model.

regenerate(chk)   run verif/translators/tspace.py on core.REPO, write lean/OptunaVerif/Generated/SearchSpaceMethods.lean (only when
                  the text changed), record what was read in chk.translated / chk.extra, and report every untranslatable method
                  as chk.broke("translation", ...).  Call it BEFORE chk.prove(["OptunaVerif.Props.C17", MODULE]) and before
                  core.ensure_driver() (the sub-driver `searchspace` links the generated methods and runs their interpreter side
                  by side with the hand model).
explain_proof_failure(chk)   after a failed chk.prove: the NAMES of the obligations of Props/C17Gen.lean that no longer check.
gen_disagreement(resp)       the "gen" field of an answer of the `searchspace` sub-driver (None = the interpreter of the generated
                             methods and the hand model agree on this step / call).

Used by verif/props/c17.py (helper module, like c14_gen.py for C14).
"""
from __future__ import annotations

import os
import re
from typing import Any

from verif import core
from verif.translators import tspace

OUT = os.path.join(core.LEAN_DIR, "OptunaVerif", "Generated", "SearchSpaceMethods.lean")
MODULE = "OptunaVerif.Props.C17Gen"

SHAPE_OF = {"calculate_shape": "interp_calculate", "functional_shape": "interp_functional", "objCalculate_shape": "interp_objCalculate",
            "addDistributions_shape": "interp_addDistributions", "groupCalculate_shape": "interp_groupCalculate"}

ASSUMPTIONS = [
    "T-space: dicts are association lists (a comprehension over d.items() keeps d's order; a comprehension over a SET of names is "
    "order-free and listed in the order of the dict its values come from); copy.copy / copy.deepcopy of a dict of immutable "
    "distributions is the dict; sets of names are lists (membership only)",
    "T-space: study.get_trials(deepcopy=False) / study._get_trials(use_cache=False) is the current trial list; "
    "_get_trials(use_cache=True) is an arbitrary earlier list; dist.single() is an arbitrary predicate on distribution tokens",
]


def regenerate(chk: "core.Check | None" = None) -> "dict[str, Any] | None":
    try:
        text, info, problems = tspace.translate(core.REPO)
    except (tspace.Untranslatable, SyntaxError, OSError) as e:
        if chk is None:
            raise
        chk.broke("translation", {"translator": "T-space", "why": str(e)[:600]})
        return None
    changed = core.write_if_changed(OUT, text)
    if chk is not None:
        ms = info["methods"]
        chk.translated.append("SearchSpaceMethods.lean: %d/%d methods as statement IR; _calculate defaults %s; __init__ facts %s %s%s" % (
            sum(1 for v in ms.values() if v is not None), len(ms), info["defaults"], info["init"], info["groupInit"],
            " (file changed)" if changed else ""))
        chk.extra["space_ir"] = {"nodes": ms, "defaults": info["defaults"], "init": info["init"], "groupInit": info["groupInit"]}
        for p in problems:
            chk.broke("translation", dict(p, translator="T-space"))
        for a in ASSUMPTIONS:
            if a not in chk.assumptions:
                chk.assumptions.append(a)
    return info


def explain_proof_failure(chk: core.Check) -> list[str]:
    """after chk.prove([..., MODULE]) failed: name the declarations of Props/C17Gen.lean whose proof no longer checks
    (the build log only has line numbers); recorded in chk.extra["c17gen_failed"]"""
    pr = chk.proof
    if pr is None or pr.ok:
        return []
    lines = sorted({int(m.group(1)) for m in re.finditer(r"Props/C17Gen\.lean:(\d+):\d+: error", pr.build_log)}
                   | {int(m.group(1)) for m in re.finditer(r"error: \S*Props/C17Gen\.lean:(\d+):", pr.build_log)})
    if not lines:
        return []
    src = open(os.path.join(core.LEAN_DIR, MODULE.replace(".", "/") + ".lean")).read().splitlines()
    # declarations with the line range they own (a doc comment belongs to the declaration after it: Lean reports
    # e.g. `rfl` failures of a one-line theorem at the start of its doc comment)
    decls: list[tuple[int, str]] = []   # (first line (1-based) of doc comment or declaration, name)
    doc_start = None
    last_doc_end = None
    for i, line in enumerate(src, 1):
        st = line.strip()
        if st.startswith("/--") and doc_start is None:
            doc_start = i
        if doc_start is not None and st.endswith("-/"):
            last_doc_end, last_doc_start = i, doc_start
            doc_start = None
            continue
        if doc_start is not None:
            continue
        m = re.match(r"\s*(?:@\[[^\]]*\]\s*)?(?:private\s+)?(?:theorem|def|example|lemma)\b\s*([^\s:(]*)", line)
        if m:
            name = m.group(1) or ("example at line %d: %s" % (i, st[:90]))
            first = last_doc_start if last_doc_end == i - 1 else i
            decls.append((first, name))
    names: list[str] = []
    for ln in lines:
        name = None
        for first, nm in decls:
            if first <= ln:
                name = nm
            else:
                break
        if name and name not in names:
            names.append(name)
    # a `<method>_shape` obligation pins the generated body; the equality `interp_<method>` is proved from it
    for shape, eq in SHAPE_OF.items():
        if shape in names and eq not in names:
            names.append("%s (unproved: rests on %s)" % (eq, shape))
    chk.extra["c17gen_failed"] = names
    chk.broke("proof", {"module": MODULE, "generated_methods_no_longer_equal_hand_model": names})
    return names


def gen_disagreement(resp: Any) -> Any:
    if isinstance(resp, dict):
        return resp.get("gen")
    return None
