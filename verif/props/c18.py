"""C18 — TPE's numerical kernels agree with the reference distributions.

translate:  verif/translators/truncnorm.py re-emits Generated/TruncNormGen.lean (formula bodies, branch
            conditions, iteration count, bracket, erf tables/cut points, the mixture's -inf guard, shape hashes of
            the hand-modelled parts) from the repo's working tree.
prove:      Props/C18.lean — real-analysis theorems about the *generated* formulas and the executable rational
            control-flow model (proof level is partial by nature: nothing is proved about floats).
correspond: (a) which branch the Python takes (observed with sys.settrace) vs the Lean model through the
            driver; `_bisect` run on Fractions vs the model, exactly; the float run of `_ndtri_exp_single`
            replayed in the model; the rational erf arms, exactly, vs the float results;
            (b) THE NUMERIC TIE (decides the float claim): erf/_ndtr/_log_ndtr/_log_gauss_mass/logpdf/ppf/rvs and
            the mixture's log_pdf/sample vs scipy.special / scipy.stats.truncnorm under the stated tolerances of
            verif/c18_num.py, samples inside the interval, quadrature of exp(logpdf) = 1, no NaN.
"""
from __future__ import annotations

import json
import math
import random
import sys
import time
import warnings
from fractions import Fraction
from typing import Any, Callable

import numpy as np
from scipy import special, stats

from verif import c18_num as N
from verif import core
from verif.translators import truncnorm as TR

RULE = (
    "seeded arguments (a<b with |finite ends|<=100, width 1e-8..1e8, one-sided and whole-line intervals, the "
    "switch bands a,b~0, a~6, a~-20, |a|~1, erf cut points; q in [0,1] incl. 0, 1, 2^-53, 1-2^-53, 1e-300; loc, "
    "scale in 1e-3..1e3; 1-D, 2-D, scalar and (n,1)x(1,m) broadcast shapes; mixtures of 1..12 components x 1..3 "
    "dimensions of truncnorm/discrete/categorical kind). A case = (kernel, argument tuple); it is non-trivial when "
    "it exercises a formula (not an override or an out-of-support constant) and distinct by SHA-1 of kernel+exact "
    "float arguments; the histogram records kernel, case/branch and interval kind"
)

np.seterr(all="ignore")
warnings.simplefilter("ignore")


def T() -> Any:
    from optuna.samplers._tpe import _truncnorm

    return _truncnorm


def fl(x: Any) -> Any:
    """numpy scalar -> python float (for readable %r in messages)"""
    return float(x) if isinstance(x, (np.floating, float, int, np.integer)) else x


def hexf(x: float) -> str:
    return float(x).hex()


def rp(x: float) -> str:
    """Exact and readable: repr of a Python float round-trips."""
    return repr(float(x))


def wit(**kw: Any) -> dict[str, Any]:
    out: dict[str, Any] = {}
    for k, v in kw.items():
        if isinstance(v, (float, np.floating)):
            out[k] = {"repr": repr(float(v)), "hex": hexf(float(v))}
        else:
            out[k] = v
    return out


def unwit(w: dict[str, Any], k: str) -> float:
    return float.fromhex(w[k]["hex"])


class CountedSet(set):  # type: ignore[type-arg]
    """A set whose length also counts cases that were hashed (and de-duplicated) inside worker processes."""

    def __init__(self, base: set, extra: int) -> None:  # type: ignore[type-arg]
        super().__init__(base)
        self.extra = extra

    def __len__(self) -> int:
        return super().__len__() + self.extra


class Viol:
    """Collect at most a few violations per signature (the first is the replay)."""

    def __init__(self, chk: core.Check) -> None:
        self.chk = chk
        self.seen: dict[str, int] = {}

    def add(self, kernel: str, kind: str, witness: dict[str, Any], msg: str, **extra: Any) -> None:
        sig = dict({"kernel": kernel, "kind": kind}, **extra)
        key = core.canon(sig)
        self.seen[key] = self.seen.get(key, 0) + 1
        if self.seen[key] <= 2:
            self.chk.violation(sig, dict(witness, kernel=kernel, kind=kind), msg)


# =============================================================================================================
# numeric streams
# =============================================================================================================

class KernelRaised(Exception):
    pass


def call_vec(V: Viol, kernel: str, fn: Callable[..., Any], names: list[str], *arrays: Any) -> Any:
    """Call a vectorised kernel; if it raises (valid arguments must not), find the first single argument tuple on
    which it raises, report it as a violation and abandon the stream."""
    try:
        return fn(*arrays)
    except Exception as e:  # noqa: BLE001
        shape = np.broadcast(*arrays).shape
        flat = [np.broadcast_to(np.asarray(a, dtype=float), shape).ravel() for a in arrays]
        for i in range(len(flat[0])):
            try:
                fn(*[np.array([f[i]]) for f in flat])
            except Exception as e2:  # noqa: BLE001
                w = wit(**{n: float(f[i]) for n, f in zip(names, flat)})
                V.add(kernel, "exception", dict(w, exception=repr(e2)[:200]),
                      "%s(%s) raised %r" % (kernel, ", ".join("%s=%r" % (n, float(f[i])) for n, f in zip(names, flat)), e2))
                break
        else:
            V.add(kernel, "exception", {"exception": repr(e)[:300], "shape": list(shape)}, "%s raised %r on a batch (no single element reproduces it)" % (kernel, e))
        raise KernelRaised(kernel)


def stream_special(chk: core.Check, V: Viol, r: random.Random, n: int) -> None:
    """erf, _ndtr, _log_ndtr vs scipy.special."""
    from optuna.samplers._tpe import _erf

    t = T()
    xs = [N.gen_point(r) / math.sqrt(2) if r.random() < 0.6 else N.gen_point(r) for _ in range(n)]
    xs += [0.0, -0.0, math.inf, -math.inf, 2.0 ** -28, 0.84375, 1.25, 1 / 0.35, 6.0, -6.0, 5e-324, 1e300]
    x = np.array(xs)
    shp = (len(x) // 4, 4)
    x2 = x[: shp[0] * 4].reshape(shp)  # 2-D call
    ours = np.concatenate([call_vec(V, "erf", _erf.erf, ["x"], x2).ravel(), call_vec(V, "erf", _erf.erf, ["x"], x[shp[0] * 4:])])
    ref = special.erf(x)
    bad_nan = np.isnan(ours)
    ulp = np.spacing(np.abs(ref))
    ratio = np.where(ours == ref, 0.0, np.abs(ours - ref) / ulp) / N.K_ERF
    chk.extra["max_ratio"]["erf"] = max(chk.extra["max_ratio"].get("erf", 0.0), float(np.nanmax(ratio)))
    for i in np.where(bad_nan | (ratio > 1))[0][:3]:
        V.add("erf", "nan" if bad_nan[i] else "tolerance", wit(x=x[i], ours=ours[i], scipy=ref[i]),
              "erf(%r) = %r, scipy.special.erf = %r (%.1f ulp, allowed %.0f)" % (fl(x[i]), fl(ours[i]), fl(ref[i]), ratio[i] * N.K_ERF, N.K_ERF))
    if not np.isnan(_erf.erf(np.array([math.nan]))[0]):
        V.add("erf", "nan-in", wit(x=math.nan), "erf(nan) is not nan")
    for i in range(len(x)):
        chk.case({"k": "erf", "x": rp(x[i])}, nontrivial=bool(np.isfinite(x[i]) and abs(x[i]) < 6))
    chk.count("kernel:erf", len(x))

    a = np.array([N.gen_point(r) for _ in range(n)] + [0.0, 6.0, -20.0, math.inf, -math.inf, 100.0, -100.0])
    ours = call_vec(V, "_ndtr", t._ndtr, ["a"], a)
    ref = special.ndtr(a)
    ratio = np.abs(ours - ref) / (N.K_NDTR * N.EPS)
    chk.extra["max_ratio"]["ndtr"] = max(chk.extra["max_ratio"].get("ndtr", 0.0), float(np.nanmax(ratio)))
    for i in np.where(np.isnan(ours) | (ratio > 1))[0][:3]:
        V.add("_ndtr", "tolerance", wit(a=a[i], ours=ours[i], scipy=ref[i]),
              "_ndtr(%r) = %r, scipy.special.ndtr = %r" % (fl(a[i]), fl(ours[i]), fl(ref[i])))
    chk.count("kernel:_ndtr", len(a))

    ours = call_vec(V, "_log_ndtr", t._log_ndtr, ["a"], a)
    ref = special.log_ndtr(a)
    unit = N.EPS * (1 + np.abs(np.where(np.isfinite(ref), ref, 0.0)))
    ratio = np.where(ours == ref, 0.0, np.abs(ours - ref) / unit) / N.K_LNDTR
    bad = np.isnan(ours) | (ratio > 1)
    chk.extra["max_ratio"]["log_ndtr"] = max(chk.extra["max_ratio"].get("log_ndtr", 0.0), float(np.nanmax(np.where(np.isnan(ratio), 0, ratio))))
    for i in np.where(bad)[0][:3]:
        truth = N.mp_log_ndtr(float(a[i]))
        if abs(ours[i] - truth) <= N.K_LNDTR * N.EPS * (1 + abs(truth)):
            chk.count("scipy_inaccurate:log_ndtr")
            continue
        V.add("_log_ndtr", "nan" if np.isnan(ours[i]) else "tolerance", wit(a=a[i], ours=ours[i], scipy=ref[i], mpmath=truth),
              "_log_ndtr(%r) = %r, scipy %r, mpmath %r (allowed %.3g)" % (fl(a[i]), fl(ours[i]), fl(ref[i]), truth, N.K_LNDTR * N.EPS * (1 + abs(truth))))
    for i in range(len(a)):
        chk.case({"k": "log_ndtr", "a": rp(a[i])}, nontrivial=bool(np.isfinite(a[i])))
        chk.count("log_ndtr-branch:" + ("tail(a>6)" if a[i] > 6 else "direct" if a[i] > -20 else "series(a<=-20)"))
    chk.count("kernel:_log_ndtr", len(a))


def gen_intervals(r: random.Random, n: int) -> tuple[np.ndarray, np.ndarray, list[str]]:
    iv = [N.gen_interval(r) for _ in range(n)]
    return np.array([i[0] for i in iv]), np.array([i[1] for i in iv]), [i[2] for i in iv]


def mass_case_name(a: float, b: float) -> str:
    return "right" if a > 0 else "left" if b <= 0 else "central"


def stream_mass(chk: core.Check, V: Viol, r: random.Random, n: int) -> None:
    t = T()
    A, B, kinds = gen_intervals(r, n)
    # one 2-D call and one 1-D call
    h = (len(A) // 2 // 5) * 5
    o1 = call_vec(V, "_log_gauss_mass", t._log_gauss_mass, ["a", "b"], A[:h].reshape(-1, 5), B[:h].reshape(-1, 5)).ravel()
    o2 = call_vec(V, "_log_gauss_mass", t._log_gauss_mass, ["a", "b"], A[h:], B[h:])
    ours = np.concatenate([o1, o2])
    ref = N.sp_log_gauss_mass(A, B)
    unit = N.unit_mass(A, B, ref)
    ratio = np.where(ours == ref, 0.0, np.abs(ours - ref) / unit) / N.K_MASS
    bad = np.isnan(ours) | (ours > 0) | ~(ratio <= 1)
    chk.extra["max_ratio"]["log_gauss_mass"] = max(chk.extra["max_ratio"].get("log_gauss_mass", 0.0), float(np.nanmax(np.where(bad, 0, ratio))))
    for i in np.where(bad)[0][:4]:
        truth = N.mp_log_mass(float(A[i]), float(B[i]))
        u = N.EPS * (1 + abs(truth)) + (unit[i] - N.EPS * (1 + abs(ref[i])) if np.isfinite(unit[i]) else 0.0)
        if not np.isnan(ours[i]) and ours[i] <= 0 and abs(ours[i] - truth) <= N.K_MASS * u:
            chk.count("scipy_inaccurate:log_gauss_mass")
            continue
        V.add("_log_gauss_mass", "nan" if np.isnan(ours[i]) else "tolerance", wit(a=A[i], b=B[i], ours=ours[i], scipy=ref[i], mpmath=truth, tol=N.K_MASS * u),
              "_log_gauss_mass(%r, %r) = %r, scipy %r, mpmath %r, allowed %.3g" % (fl(A[i]), fl(B[i]), fl(ours[i]), fl(ref[i]), truth, N.K_MASS * u),
              case=mass_case_name(A[i], B[i]))
    for i in range(len(A)):
        chk.case({"k": "mass", "a": rp(A[i]), "b": rp(B[i])}, nontrivial=True)
        chk.count("mass-case:" + mass_case_name(A[i], B[i]))
        chk.count("interval:" + kinds[i])
    chk.count("kernel:_log_gauss_mass", len(A))


def logpdf_unit(x: np.ndarray, a: np.ndarray, b: np.ndarray, loc: np.ndarray, scale: np.ndarray, ref: np.ndarray) -> np.ndarray:
    z = (x - loc) / scale
    lg = N.sp_log_gauss_mass(a, b)
    # the rounding of x - loc is part of the *input* (both implementations standardise the same way) except for its
    # amplification through z^2/2: |d(z^2/2)| <= z^2 * eps
    return N.EPS * (1 + np.abs(np.where(np.isfinite(ref), ref, 0.0)) + N.kappa(a, b, lg) + z * z + np.abs(np.log(scale)))


def stream_logpdf(chk: core.Check, V: Viol, r: random.Random, n: int) -> None:
    t = T()
    A, B, kinds = gen_intervals(r, n)
    loc = np.array([r.choice([0.0, r.uniform(-10, 10), r.gauss(0, 1e3)]) for _ in range(n)])
    sc = np.array([r.choice([1.0, 10 ** r.uniform(-3, 3)]) for _ in range(n)])
    z = np.empty(n)
    for i in range(n):
        u = r.random()
        if u < 0.08 and math.isfinite(A[i]):
            z[i] = A[i]
        elif u < 0.16 and math.isfinite(B[i]):
            z[i] = B[i]
        elif u < 0.8:
            lo, hi = max(A[i], -100.0), min(B[i], 100.0)
            z[i] = lo + (hi - lo) * r.random()
        else:
            z[i] = N.gen_point(r)
    X = z * sc + loc
    # shapes: 1-D; 2-D; scalar a,b with vector x
    h = (n // 3 // 4) * 4
    nm = ["x", "a", "b", "loc", "scale"]
    o1 = call_vec(V, "logpdf", t.logpdf, nm, X[:h].reshape(-1, 4), A[:h].reshape(-1, 4), B[:h].reshape(-1, 4), loc[:h].reshape(-1, 4), sc[:h].reshape(-1, 4)).ravel()
    o2 = call_vec(V, "logpdf", t.logpdf, nm, X[h:], A[h:], B[h:], loc[h:], sc[h:])
    ours = np.concatenate([o1, o2])
    ref = stats.truncnorm.logpdf(X, A, B, loc, sc)
    unit = logpdf_unit(X, A, B, loc, sc, ref)
    same = (ours == ref)
    ratio = np.where(same, 0.0, np.abs(ours - ref) / unit) / N.K_PDF
    bad = np.isnan(ours) | (ours == math.inf) | ~(ratio <= 1)
    chk.extra["max_ratio"]["logpdf"] = max(chk.extra["max_ratio"].get("logpdf", 0.0), float(np.nanmax(np.where(bad, 0, ratio))))
    for i in np.where(bad)[0][:4]:
        zz = (X[i] - loc[i]) / sc[i]
        if A[i] <= zz <= B[i]:
            truth = float(N.norm_logpdf(np.array(zz))) - N.mp_log_mass(float(A[i]), float(B[i])) - math.log(sc[i])
        else:
            truth = -math.inf
        if not np.isnan(ours[i]) and (ours[i] == truth or abs(ours[i] - truth) <= N.K_PDF * unit[i]):
            chk.count("scipy_inaccurate:logpdf")
            continue
        V.add("logpdf", "nan" if np.isnan(ours[i]) else "tolerance",
              wit(x=X[i], a=A[i], b=B[i], loc=loc[i], scale=sc[i], ours=ours[i], scipy=ref[i], mpmath=truth, tol=N.K_PDF * unit[i]),
              "logpdf(x=%r, a=%r, b=%r, loc=%r, scale=%r) = %r, scipy %r, mpmath %r, allowed %.3g" % (fl(X[i]), fl(A[i]), fl(B[i]), fl(loc[i]), fl(sc[i]), fl(ours[i]), fl(ref[i]), truth, N.K_PDF * unit[i]),
              case=mass_case_name(A[i], B[i]))
    # scalar a, b with a vector x (the shape the tests use)
    for _ in range(max(3, n // 2000)):
        a, b, _k = N.gen_interval(r)
        xs = np.array([N.gen_point(r) for _ in range(16)])
        o = t.logpdf(xs, a, b)
        rf = stats.truncnorm.logpdf(xs, a, b)
        un = logpdf_unit(xs, np.full(16, a), np.full(16, b), np.zeros(16), np.ones(16), rf)
        rt = np.where(o == rf, 0.0, np.abs(o - rf) / un) / N.K_PDF
        for i in np.where(np.isnan(o) | ~(rt <= 1))[0][:1]:
            V.add("logpdf", "tolerance", wit(x=xs[i], a=a, b=b, loc=0.0, scale=1.0, ours=o[i], scipy=rf[i]),
                  "logpdf(x=%r, a=%r, b=%r) = %r, scipy %r (scalar a, b)" % (fl(xs[i]), a, b, fl(o[i]), fl(rf[i])), case=mass_case_name(a, b))
    for i in range(n):
        inside = bool(A[i] <= (X[i] - loc[i]) / sc[i] <= B[i])
        chk.case({"k": "logpdf", "x": rp(X[i]), "a": rp(A[i]), "b": rp(B[i]), "loc": rp(loc[i]), "s": rp(sc[i])}, nontrivial=inside)
        chk.count("logpdf:" + ("in-support" if inside else "outside(-inf)"))
    chk.count("kernel:logpdf", n)


def classify_beyond(q: float, a: float, b: float, ref: float) -> tuple[bool, float]:
    """Is the true quantile outside the bisection bracket (-100, 100)?  Returns (beyond, best reference)."""
    if math.isfinite(ref) and a <= ref <= b:
        return (abs(ref) >= 100.0), ref
    truth = N.mp_ppf(q, a, b)
    return (not math.isfinite(truth)) or abs(truth) >= 100.0, truth


def judge_ppf(V: Viol, chk: core.Check, kernel: str, q: np.ndarray, a: np.ndarray, b: np.ndarray, ours: np.ndarray, ref: np.ndarray,
              scale: np.ndarray | None = None, loc: np.ndarray | None = None, extra_w: Callable[[int], dict[str, Any]] | None = None) -> None:
    """Compare quantiles (optionally after `* scale + loc`) with SciPy's and check that they lie in the interval."""
    n = len(q)
    sc = np.ones(n) if scale is None else scale
    lc = np.zeros(n) if loc is None else loc
    tolx, tolT = N.ppf_terms(q, a, b, ref)
    # the affine map adds its own rounding
    aff = (4 * np.spacing(np.abs(ref * sc + lc)) + 2 * np.spacing(np.abs(lc))) if scale is not None else np.zeros(n)
    o_std = ours if scale is None else (ours - lc) / sc
    d = np.abs(ours - (ref * sc + lc))
    allowed = tolx * sc + aff
    ratio = np.where(ours == ref * sc + lc, 0.0, d / allowed)
    dTobs = np.abs(N.branch_logcdf(a, o_std) - N.branch_logcdf(a, ref))
    ratioT = np.where(np.isfinite(dTobs), dTobs / (tolT + (aff / sc) * 0), np.inf)  # backward (log-cdf) form
    agree = (ratio <= 1) | ((ratioT <= 1) & (scale is None or True))
    # inside [a, b]: a few ulp of the end point (plus the affine rounding when scaled)
    sl_lo = N.K_IN * N.EPS * np.maximum(1, np.abs(a)) + aff / sc
    sl_hi = N.K_IN * N.EPS * np.maximum(1, np.abs(b)) + aff / sc
    out_lo = np.isfinite(a) & (o_std < a - sl_lo)
    out_hi = np.isfinite(b) & (o_std > b + sl_hi)
    strict_out = (np.isfinite(a) & (o_std < a)) | (np.isfinite(b) & (o_std > b))
    chk.count("%s:outside-by-at-most-%g-eps-of-the-end(tolerated)" % (kernel, N.K_IN), int((strict_out & ~out_lo & ~out_hi).sum()))
    bad = np.isnan(ours) | ~agree | out_lo | out_hi
    mx = float(np.nanmax(np.where(bad, 0, np.minimum(ratio, ratioT)))) if n else 0.0
    chk.extra["max_ratio"][kernel] = max(chk.extra["max_ratio"].get(kernel, 0.0), mx)
    for i in np.where(bad)[0][:40]:
        qi, ai, bi = float(q[i]), float(a[i]), float(b[i])
        beyond, best = classify_beyond(qi, ai, bi, float(ref[i]))
        w = wit(q=qi, a=ai, b=bi, ours=float(ours[i]), scipy=float(ref[i]), reference=best)
        if scale is not None:
            w.update(wit(loc=float(lc[i]), scale=float(sc[i])))
        if extra_w:
            w.update(extra_w(int(i)))
        outside = bool(out_lo[i] or out_hi[i])
        if beyond:
            chk.count("%s:true-quantile-beyond-bracket" % kernel)
            ok = math.isfinite(best) and abs(float(o_std[i]) - best) <= 1e-6 and not outside
            if not ok:
                V.add("ppf", "quantile-beyond-bisection-bracket", w,
                      "%s: the true quantile %r of the standard normal truncated to [%r, %r] at q=%r lies outside the bisection bracket "
                      "(-100, 100); the code returns %r (standardised %r), which is not in the interval" % (kernel, best, ai, bi, qi, float(ours[i]), float(o_std[i])))
            continue
        ok_agree = bool(agree[i])
        if not ok_agree or best != float(ref[i]):
            # SciPy's value was unusable or disagreed: judge against 60-digit mpmath
            truth = best if best != float(ref[i]) else N.mp_ppf(qi, ai, bi)
            tx, tT = N.ppf_terms(np.array([qi]), np.array([ai]), np.array([bi]), np.array([truth]))
            dx = abs(float(ours[i]) - (truth * float(sc[i]) + float(lc[i])))
            dTo = abs(float(N.branch_logcdf(np.array([ai]), np.array([float(o_std[i])]))[0]) - N.mp_log_ndtr(truth if ai < 0 else -truth))
            ok_agree = (not np.isnan(ours[i])) and (dx <= float(tx[0]) * float(sc[i]) + float(aff[i]) or dTo <= float(tT[0]))
            w.update(wit(mpmath=truth, tol_x=float(tx[0]), tol_logcdf=float(tT[0])))
            if ok_agree and not outside:
                chk.count("scipy_inaccurate:%s" % kernel)
                continue
        if outside and ok_agree:
            V.add("ppf", "outside-interval", w,
                  "%s(q=%r, a=%r, b=%r) = %r lies outside the interval by %.3g (more than %g eps of the end point); its log-cdf is within rounding of the "
                  "target (reference quantile %r), i.e. the log-cdf target rounded past the end point" % (
                      kernel, qi, ai, bi, float(ours[i]), max(ai - float(o_std[i]), float(o_std[i]) - bi), N.K_IN, best), cause="log-cdf-target-rounding")
            continue
        kind = "nan" if np.isnan(ours[i]) else ("outside-interval" if outside else "tolerance")
        V.add(kernel, kind, w, "%s(q=%r, a=%r, b=%r) = %r; scipy %r; reference %r; allowed |dx| %.3g or |d log-cdf| %.3g" % (
            kernel, qi, ai, bi, float(ours[i]), float(ref[i]), best, float(allowed[i]), float(tolT[i])), branch="left" if ai < 0 else "right")


def stream_ppf(chk: core.Check, V: Viol, r: random.Random, n: int) -> None:
    t = T()
    A, B, kinds = gen_intervals(r, n)
    Q = np.array([N.gen_q(r) for _ in range(n)])
    h = (n // 3 // 4) * 4
    o1 = call_vec(V, "ppf", t.ppf, ["q", "a", "b"], Q[:h].reshape(-1, 4), A[:h].reshape(-1, 4), B[:h].reshape(-1, 4)).ravel()
    o2 = call_vec(V, "ppf", t.ppf, ["q", "a", "b"], Q[h:], A[h:], B[h:])
    ours = np.concatenate([o1, o2])
    ref = stats.truncnorm.ppf(Q, A, B)
    judge_ppf(V, chk, "ppf", Q, A, B, ours, ref)
    # overrides are exact
    for i in range(n):
        if Q[i] == 0 and ours[i] != A[i]:
            V.add("ppf", "override", wit(q=Q[i], a=A[i], b=B[i], ours=ours[i]), "ppf(0, %r, %r) = %r, not a" % (fl(A[i]), fl(B[i]), fl(ours[i])))
        if Q[i] == 1 and ours[i] != B[i]:
            V.add("ppf", "override", wit(q=Q[i], a=A[i], b=B[i], ours=ours[i]), "ppf(1, %r, %r) = %r, not b" % (fl(A[i]), fl(B[i]), fl(ours[i])))
    # broadcast (m,1) x (1,k) with scalar-like interval rows
    for _ in range(max(2, n // 3000)):
        a, b, _k = N.gen_interval(r)
        qs = np.array([N.gen_q(r) for _ in range(6)])
        o = t.ppf(qs, a, b)
        rf = stats.truncnorm.ppf(qs, a, b)
        judge_ppf(V, chk, "ppf", qs, np.full(6, a), np.full(6, b), o, rf)
    for i in range(n):
        chk.case({"k": "ppf", "q": rp(Q[i]), "a": rp(A[i]), "b": rp(B[i])}, nontrivial=bool(0 < Q[i] < 1))
        chk.count("ppf-branch:" + ("q=0" if Q[i] == 0 else "q=1" if Q[i] == 1 else "left(a<0)" if A[i] < 0 else "right"))
    chk.count("kernel:ppf", n)


# deterministic witnesses of the two reported findings: (1) true quantile outside (-100, 100); (2) q within an ulp of 1 with
# a < 0 < 8.3 < b: the log-cdf target rounds to >= log Phi(b) and the result leaves the interval (SciPy does the same)
FIXED_BEYOND = [(0.9, 99.99, math.inf), (0.1, -math.inf, -99.99), (1 - 2.0 ** -53, -0.15676677195506059, 15.949829691174834)]


def stream_beyond(chk: core.Check, V: Viol) -> None:
    """The deterministic witnesses of the reported finding (true quantile outside (-100, 100))."""
    t = T()
    q = np.array([c[0] for c in FIXED_BEYOND])
    a = np.array([c[1] for c in FIXED_BEYOND])
    b = np.array([c[2] for c in FIXED_BEYOND])
    ours = call_vec(V, "ppf", t.ppf, ["q", "a", "b"], q, a, b)
    ref = stats.truncnorm.ppf(q, a, b)
    judge_ppf(V, chk, "ppf", q, a, b, ours, ref)
    chk.count("kernel:ppf", len(q))


def stream_rvs(chk: core.Check, V: Viol, r: random.Random, n_groups: int, per: int) -> None:
    t = T()
    for g in range(n_groups):
        seed = r.getrandbits(31)
        mode = r.choice(["vec", "grid", "scalar"])
        if mode == "vec":
            A, B, _ = gen_intervals(r, per)
            loc = np.array([r.choice([0.0, r.uniform(-10, 10)]) for _ in range(per)])
            sc = np.array([r.choice([1.0, 10 ** r.uniform(-3, 3)]) for _ in range(per)])
        elif mode == "grid":  # (m,1) x (1,k) broadcasting
            m, k = 4, max(1, per // 4)
            lo = np.array([N.gen_point(r) for _ in range(m)]).reshape(m, 1)
            wd = np.array([10 ** r.uniform(-6, 3) for _ in range(k)]).reshape(1, k)
            A = np.clip(lo, -100, 99) + 0 * wd
            B = np.minimum(A + wd, 100.0)
            loc = np.array(r.uniform(-5, 5))
            sc = np.array(10 ** r.uniform(-2, 2))
        else:
            a, b, _k = N.gen_interval(r)
            A, B = np.full(per, a), np.full(per, b)
            loc, sc = np.array(0.0), np.array(1.0)
        if not np.all(A < B):
            continue
        ours = t.rvs(A, B, loc, sc, random_state=np.random.RandomState(seed))
        shape = np.broadcast(A, B, loc, sc).shape
        u = np.random.RandomState(seed).uniform(low=0, high=1, size=shape)
        Ab, Bb, Lb, Sb = (np.broadcast_to(v, shape).ravel().astype(float) for v in (A, B, loc, sc))
        ref = stats.truncnorm.ppf(u.ravel(), Ab, Bb)
        if ours.shape != shape:
            V.add("rvs", "shape", {"shape": list(ours.shape), "expected": list(shape)}, "rvs returned shape %s for broadcast shape %s" % (ours.shape, shape))
            continue
        judge_ppf(V, chk, "rvs", u.ravel(), Ab, Bb, ours.ravel(), ref, scale=Sb, loc=Lb, extra_w=lambda i, seed=seed, mode=mode: {"seed": seed, "mode": mode, "index": i})
        for i in range(min(len(Ab), 64)):
            chk.case({"k": "rvs", "u": rp(u.ravel()[i]), "a": rp(Ab[i]), "b": rp(Bb[i]), "loc": rp(Lb[i]), "s": rp(Sb[i])}, nontrivial=True)
        chk.count("rvs-shape:" + mode)
        chk.count("kernel:rvs", len(Ab))


_GL = np.polynomial.legendre.leggauss(32)


def stream_quadrature(chk: core.Check, V: Viol, r: random.Random, n: int) -> None:
    """Composite Gauss-Legendre of exp(logpdf) over the part of [a, b] that carries all but < 1e-18 of the mass."""
    t = T()
    A, B, kinds = gen_intervals(r, n)
    # mirror-free effective support around the mode m0 = clip(0, a, b): density / density(m0) = exp(-(x^2 - m0^2)/2)
    m0 = np.clip(0.0, A, B)
    reach = np.sqrt(m0 * m0 + 96.0)
    lo = np.maximum(A, np.where(m0 > 0, m0, -reach))
    hi = np.minimum(B, np.where(m0 < 0, m0, reach))
    lo = np.where(m0 > 0, A, lo)
    hi = np.where(m0 < 0, B, hi)
    hi = np.where(m0 > 0, np.minimum(B, reach), hi)
    lo = np.where(m0 < 0, np.maximum(A, -reach), lo)
    P = 48
    xg, wg = _GL
    edges = lo[:, None] + (hi - lo)[:, None] * np.linspace(0, 1, P + 1)[None, :]
    mid = (edges[:, 1:] + edges[:, :-1]) / 2
    half = (edges[:, 1:] - edges[:, :-1]) / 2
    X = (mid[:, :, None] + half[:, :, None] * xg[None, None, :]).reshape(n, -1)
    W = (half[:, :, None] * wg[None, None, :]).reshape(n, -1)
    lp = call_vec(V, "logpdf", t.logpdf, ["x", "a", "b"], X, A[:, None], B[:, None])
    nan_rows = np.isnan(lp).any(axis=1)
    I = (np.exp(lp) * W).sum(axis=1)
    lg = N.sp_log_gauss_mass(A, B)
    tol = 4 * N.K_MASS * N.unit_mass(A, B, lg) + 1e-12
    ratio = np.abs(I - 1) / tol
    chk.extra["max_ratio"]["quadrature"] = max(chk.extra["max_ratio"].get("quadrature", 0.0), float(np.nanmax(np.where(nan_rows, 0, ratio))))
    for i in np.where(nan_rows | ~(ratio <= 1))[0][:3]:
        V.add("logpdf", "nan" if nan_rows[i] else "does-not-integrate-to-one", wit(a=A[i], b=B[i], integral=I[i], tol=tol[i]),
              "integral of exp(logpdf(., a=%r, b=%r)) over the interval = %r (allowed |I-1| %.3g)" % (fl(A[i]), fl(B[i]), fl(I[i]), tol[i]), case=mass_case_name(A[i], B[i]))
    for i in range(n):
        chk.case({"k": "quad", "a": rp(A[i]), "b": rp(B[i])}, nontrivial=True)
    chk.count("kernel:quadrature", n)


# ---- mixture -------------------------------------------------------------------------------------------------

def gen_mixture(r: random.Random) -> tuple[Any, list[dict[str, Any]], np.ndarray]:
    from optuna.samplers._tpe import probability_distributions as PD

    K = r.choice([1, 2, 3, 5, 12])
    D = r.choice([1, 2, 3])
    w = np.array([r.random() + 0.05 for _ in range(K)])
    if K > 1 and r.random() < 0.25:
        w[r.randrange(K)] = 0.0  # a zero-weight component: log(0) = -inf inside the log-sum-exp
    w = w / w.sum()
    dists = []
    spec = []
    for _ in range(D):
        kind = r.choice(["tn", "tn", "disc", "cat"])
        if kind == "cat":
            C = r.choice([2, 3, 6])
            cw = np.array([[r.random() + 0.01 for _ in range(C)] for _ in range(K)])
            if r.random() < 0.3:
                cw[r.randrange(K), r.randrange(C)] = 0.0
            cw = cw / cw.sum(axis=1, keepdims=True)
            dists.append(PD._BatchedCategoricalDistributions(cw))
            spec.append({"kind": "cat", "w": cw})
            continue
        low = r.choice([0.0, -5.0, r.uniform(-100, 100), 1e-3])
        width = 10 ** r.uniform(-3, 3)
        high = low + width
        step = None
        if kind == "disc":
            n_steps = r.choice([1, 2, 7, 40])
            step = width / n_steps
            high = low + n_steps * step
        span = (high - low) + (step or 0.0)
        mu = np.array([r.uniform(low, high) for _ in range(K)])
        if r.random() < 0.3:
            sig = np.array([span * 10 ** r.uniform(-4, 0.3) for _ in range(K)])  # no magic clip: very narrow kernels
        else:
            sig = np.array([span / r.uniform(1, 100) for _ in range(K)])
        if kind == "tn":
            dists.append(PD._BatchedTruncNormDistributions(mu, sig, low, high))
            spec.append({"kind": "tn", "mu": mu, "sigma": sig, "low": low, "high": high})
        else:
            dists.append(PD._BatchedDiscreteTruncNormDistributions(mu, sig, low, high, step))
            spec.append({"kind": "disc", "mu": mu, "sigma": sig, "low": low, "high": high, "step": step})
    return PD._MixtureOfProductDistribution(w, dists), spec, w


def ref_mixture_logpdf(spec: list[dict[str, Any]], w: np.ndarray, x: np.ndarray) -> tuple[np.ndarray, np.ndarray]:
    """SciPy reference and the tolerance unit per batch row."""
    Bn, K = x.shape[0], len(w)
    comp = np.zeros((Bn, K))
    unit = np.zeros((Bn, K))
    for i, s in enumerate(spec):
        xi = x[:, i]
        if s["kind"] == "cat":
            lw = np.log(s["w"][:, xi.astype(int)]).T  # (B, K)
            comp += lw
            unit += N.EPS * (1 + np.abs(np.where(np.isfinite(lw), lw, 0)))
        elif s["kind"] == "tn":
            mu, sg = s["mu"][None, :], s["sigma"][None, :]
            a, b = (s["low"] - mu) / sg, (s["high"] - mu) / sg
            lp = stats.truncnorm.logpdf(xi[:, None], a, b, loc=mu, scale=sg)
            comp += lp
            unit += logpdf_unit(xi[:, None] + 0 * mu, a + 0 * xi[:, None], b + 0 * xi[:, None], mu + 0 * xi[:, None], sg + 0 * xi[:, None], lp)
        else:
            mu, sg = s["mu"][None, :], s["sigma"][None, :]
            st, low, high = s["step"], s["low"], s["high"]
            xl = np.maximum(xi - st / 2, low - st / 2)[:, None]
            xu = np.minimum(xi + st / 2, high + st / 2)[:, None]
            a1, b1 = (xl - mu) / sg, (xu - mu) / sg
            a0, b0 = (low - st / 2 - mu) / sg + 0 * a1, (high + st / 2 - mu) / sg + 0 * a1
            m1, m0 = N.sp_log_gauss_mass(a1, b1), N.sp_log_gauss_mass(a0, b0)
            comp += m1 - m0
            # the standardisation (x -/+ step/2 - mu)/sigma is rounded before the mass is taken: d log mass ~ eps * |z| * |phi(z)/mass|,
            # bounded here by eps * (|a1| + |b1|) * max(|a1|, |b1|, 1) * kappa-like factor
            zmax = np.maximum(np.abs(a1), np.abs(b1))
            unit += N.unit_mass(a1, b1, m1) * (1 + zmax * zmax) + N.unit_mass(a0, b0, m0)
    lw = np.log(w)[None, :]
    tot = comp + lw
    ref = special.logsumexp(tot, axis=1)
    fin = np.isfinite(tot)
    u = np.where(fin, unit, 0).max(axis=1) + N.EPS * (2 + np.abs(np.where(np.isfinite(ref), ref, 0)))
    return ref, u


def stream_mixture(chk: core.Check, V: Viol, r: random.Random, n_mix: int, batch: int) -> None:
    for _ in range(n_mix):
        mix, spec, w = gen_mixture(r)
        D = len(spec)
        x = np.empty((batch, D))
        for i, s in enumerate(spec):
            for j in range(batch):
                if s["kind"] == "cat":
                    x[j, i] = r.randrange(s["w"].shape[1])
                elif s["kind"] == "tn":
                    u = r.random()
                    x[j, i] = s["low"] if u < 0.05 else s["high"] if u < 0.1 else r.uniform(s["low"], s["high"]) if u < 0.9 else \
                        r.choice([s["low"] - 1.0, s["high"] + 1.0, s["low"] - 1e-9 * max(1, abs(s["low"]))])
                else:
                    nst = int(round((s["high"] - s["low"]) / s["step"]))
                    x[j, i] = s["low"] + r.randrange(nst + 1) * s["step"]
        ours = mix.log_pdf(x)
        ref, unit = ref_mixture_logpdf(spec, w, x)
        ratio = np.where(ours == ref, 0.0, np.abs(ours - ref) / unit) / N.K_PDF
        bad = np.isnan(ours) | (ours == math.inf) | ~(ratio <= 1)
        chk.extra["max_ratio"]["mixture.log_pdf"] = max(chk.extra["max_ratio"].get("mixture.log_pdf", 0.0), float(np.nanmax(np.where(bad, 0, ratio))))
        for j in np.where(bad)[0][:2]:
            desc = {"weights": w.tolist(), "dims": [{k: (v.tolist() if isinstance(v, np.ndarray) else v) for k, v in s.items()} for s in spec], "x": x[j].tolist()}
            kind = "nan" if np.isnan(ours[j]) else "tolerance"
            V.add("mixture.log_pdf", kind, dict(desc, ours=repr(float(ours[j])), scipy=repr(float(ref[j])), tol=float(N.K_PDF * unit[j])),
                  "_MixtureOfProductDistribution.log_pdf(x=%s) = %r, reference (scipy truncnorm + logsumexp) %r, allowed %.3g%s" % (
                      x[j].tolist(), float(ours[j]), float(ref[j]), N.K_PDF * unit[j], " [every component is -inf: the -inf guard]" if ref[j] == -math.inf else ""),
                  all_neginf=bool(ref[j] == -math.inf))
        chk.count("mixture.log_pdf:rows-all--inf", int((ref == -math.inf).sum()))
        # discrete dims: the cell masses over the whole grid sum to one (single-component mixtures make it visible)
        for i, s in enumerate(spec):
            if s["kind"] == "disc" and D == 1:
                nst = int(round((s["high"] - s["low"]) / s["step"]))
                if nst <= 60:
                    grid = (s["low"] + np.arange(nst + 1) * s["step"])[:, None]
                    tot = float(np.exp(mix.log_pdf(grid)).sum())
                    _, ug = ref_mixture_logpdf(spec, w, grid)
                    # the grid points low + k*step are rounded, so neighbouring cells [x - step/2, x + step/2] overlap or leave
                    # gaps of a few ulp(|x|); in z units that is ulp/sigma per boundary, times a density <= 0.4 / total mass
                    zlo, zhi = (s["low"] - s["step"] / 2 - s["mu"]) / s["sigma"], (s["high"] + s["step"] / 2 - s["mu"]) / s["sigma"]
                    m_tot = np.exp(N.sp_log_gauss_mass(zlo, zhi))
                    ulp = np.spacing(max(abs(s["low"]), abs(s["high"]), float(np.abs(s["mu"]).max())))
                    gaps = float((w * (8 * (nst + 2) * ulp / s["sigma"] * 0.4 / m_tot)).sum())
                    tol = float(N.K_PDF * ug.max() * 4 + 1e-12) + gaps
                    chk.count("mixture:discrete-grid-sums")
                    if not abs(tot - 1) <= tol:
                        V.add("mixture.log_pdf", "discrete-masses-do-not-sum-to-one", {"dims": [{k: (v.tolist() if isinstance(v, np.ndarray) else v) for k, v in s.items()}], "weights": w.tolist(), "sum": tot, "tol": tol},
                              "discrete truncnorm: sum of exp(log_pdf) over the grid = %r" % tot)
        # sample: same RNG stream, SciPy quantiles
        seed = r.getrandbits(31)
        bs = 32
        smp = mix.sample(np.random.RandomState(seed), bs)
        rs = np.random.RandomState(seed)
        act = rs.choice(len(w), p=w, size=bs)
        for i, s in enumerate(spec):
            col = smp[:, i]
            if s["kind"] == "cat":
                aw = s["w"][act, :]
                rq = rs.rand(bs)
                cp = np.cumsum(aw, axis=-1)
                cp[:, -1] = 1
                exp_ = np.sum(cp < rq[:, None], axis=-1)
                if not np.array_equal(col, exp_):
                    V.add("mixture.sample", "categorical", {"seed": seed, "got": col.tolist(), "expected": exp_.tolist()}, "categorical sample differs from inverse-cdf of the weights")
                continue
            mu, sg = s["mu"][act], s["sigma"][act]
            if s["kind"] == "tn":
                a, b = (s["low"] - mu) / sg, (s["high"] - mu) / sg
            else:
                a, b = (s["low"] - s["step"] / 2 - mu) / sg, (s["high"] + s["step"] / 2 - mu) / sg
            u = rs.uniform(low=0, high=1, size=bs)
            ref = stats.truncnorm.ppf(u, a, b)
            if s["kind"] == "tn":
                judge_ppf(V, chk, "mixture.sample", u, a, b, col, ref, scale=sg, loc=mu, extra_w=lambda k, seed=seed: {"seed": seed, "row": k})
                lo_ok = col >= s["low"] - 16 * N.EPS * max(1.0, abs(s["low"])) - 16 * N.EPS * sg
                hi_ok = col <= s["high"] + 16 * N.EPS * max(1.0, abs(s["high"])) + 16 * N.EPS * sg
                # (the conditioning-aware bound is enforced inside judge_ppf; this one only counts plain excursions)
                chk.count("mixture.sample:outside-[low,high]-by-rounding", int((~lo_ok | ~hi_ok).sum()))
            else:
                cont = ref * sg + mu
                g = np.clip(s["low"] + np.round((cont - s["low"]) / s["step"]) * s["step"], s["low"], s["high"])
                tol = N.ppf_tolerance(u, a, b, ref) * sg + 8 * np.spacing(np.abs(cont))
                frac_ = (cont - s["low"]) / s["step"]
                near_half = np.abs(frac_ - np.floor(frac_) - 0.5) * s["step"] <= tol
                on_grid = np.abs((col - s["low"]) / s["step"] - np.round((col - s["low"]) / s["step"])) <= 1e-9
                inside = (col >= s["low"]) & (col <= s["high"])
                wrong = (np.abs(col - g) > 1e-9 * max(1.0, abs(s["low"]), abs(s["high"]))) & ~near_half
                for k in np.where(wrong | ~on_grid | ~inside | np.isnan(col))[0][:1]:
                    qk, ak, bk = float(u[k]), float(a[k]), float(b[k])
                    beyond, _best = classify_beyond(qk, ak, bk, float(ref[k]))
                    if beyond:
                        chk.count("mixture.sample:true-quantile-beyond-bracket")
                        continue
                    V.add("mixture.sample", "discrete", {"seed": seed, "row": int(k), "got": float(col[k]), "expected": float(g[k]), "low": s["low"], "high": s["high"], "step": s["step"]},
                          "discrete sample %r, expected grid point %r of [%r, %r] step %r" % (float(col[k]), float(g[k]), s["low"], s["high"], s["step"]))
        chk.case({"k": "mixture", "w": [rp(v) for v in w], "kinds": [s["kind"] for s in spec], "x0": [rp(v) for v in x[0]]}, nontrivial=True)
        for s in spec:
            chk.count("mixture-dim:" + s["kind"])
        chk.count("kernel:mixture.log_pdf", batch)
        chk.count("kernel:mixture.sample", bs)


# =============================================================================================================
# control-flow correspondence through the driver
# =============================================================================================================

class Tracer:
    """Record which functions of the kernel files are entered (with their caller) and which lines run."""

    def __init__(self) -> None:
        self.calls: list[tuple[str, str]] = []
        self.lines: set[tuple[str, int]] = set()

    def _glob(self, frame: Any, event: str, arg: Any) -> Any:
        fn = frame.f_code.co_filename
        if fn.endswith("_truncnorm.py") or fn.endswith("_erf.py"):
            self.calls.append((frame.f_code.co_name, frame.f_back.f_code.co_name if frame.f_back else ""))
            return self._loc
        return None

    def _loc(self, frame: Any, event: str, arg: Any) -> Any:
        if event == "line":
            self.lines.add((frame.f_code.co_name, frame.f_lineno))
        return self._loc

    def run(self, f: Callable[[], Any]) -> Any:
        self.calls, self.lines = [], set()
        old = sys.gettrace()
        sys.settrace(self._glob)
        try:
            return f()
        finally:
            sys.settrace(old)


def stream_branches(chk: core.Check, V: Viol, r: random.Random, n: int, lines: dict[str, list[int]]) -> None:
    from optuna.samplers._tpe import _erf

    t = T()
    tr = Tracer()
    reqs: list[dict[str, Any]] = []
    obs: list[dict[str, Any]] = []
    for _ in range(n):
        kind = r.choice(["mass", "ppf", "logndtr", "ndtrsingle", "erf", "erf"])
        if kind == "mass":
            a, b, _k = N.gen_interval(r)
            if r.random() < 0.1:
                a, b = b, a  # invalid order: both masks may hold; the model follows the write order
            tr.run(lambda: t._log_gauss_mass(np.array([a]), np.array([b])))
            top = [c[0] for c in tr.calls if c[1] == "_log_gauss_mass"]
            got = top[-1].replace("mass_case_", "") if top else "none"
            reqs.append({"op": "massCase", "a": N.frac(a), "b": N.frac(b)})
            obs.append({"kind": kind, "args": {"a": a, "b": b}, "got": got})
        elif kind == "ppf":
            a, b, _k = N.gen_interval(r)
            if r.random() < 0.05:
                b = a
            q = N.gen_q(r)
            out = tr.run(lambda: t.ppf(np.array([q]), a, b))[0]
            top = [c[0] for c in tr.calls if c[1] == "ppf"]
            obs.append({"kind": kind, "args": {"q": q, "a": a, "b": b}, "got": (top[-1].replace("ppf_", "") if top else "none"), "out": out})
            reqs.append({"op": "ppfCase", "q": N.frac(q), "a": N.frac(a), "b": N.frac(b)})
        elif kind == "logndtr":
            a = N.near(r, r.choice([6.0, -20.0])) if r.random() < 0.6 else N.gen_point(r)
            t._ndtr_single.cache_clear()
            tr.run(lambda: t._log_ndtr_single.__wrapped__(a))
            ls = [ln for (fn_, ln) in tr.lines if fn_ == "_log_ndtr_single"]
            L = lines["_log_ndtr_single"]
            got = 0 if L[0] in ls else 1 if L[1] in ls else 2 if L[2] in ls else -1
            obs.append({"kind": kind, "args": {"a": a}, "got": got})
            reqs.append({"op": "logNdtrCase", "a": N.frac(a)})
        elif kind == "ndtrsingle":
            a = N.near(r, r.choice([1.0, -1.0])) if r.random() < 0.6 else N.gen_point(r)
            tr.run(lambda: t._ndtr_single.__wrapped__(a))
            ls = [ln for (fn_, ln) in tr.lines if fn_ == "_ndtr_single"]
            L = lines["_ndtr_single"]
            got = [i for i, ln in enumerate(L) if ln in ls]
            obs.append({"kind": kind, "args": {"a": a}, "got": got[0] if len(got) == 1 else -1})
            reqs.append({"op": "ndtrSingleCase", "a": N.frac(a)})
        else:
            x = r.choice([1, -1]) * N.near(r, r.choice([2.0 ** -28, 0.84375, 1.25, 1 / 0.35, 6.0])) if r.random() < 0.5 else N.gen_point(r) / math.sqrt(2)
            if r.random() < 0.03:
                x = r.choice([math.inf, -math.inf, math.nan, 0.0])
            out = tr.run(lambda: _erf.erf(np.array([x])))[0]
            top = [c[0] for c in tr.calls if c[1] == "erf"]
            got = top[-1].replace("calc_case_", "") if top else ("nan" if out != out else "none")
            obs.append({"kind": "erf", "args": {"x": x}, "got": got, "out": out})
            reqs.append({"op": "erfCase", "x": N.frac(x)})
            if math.isfinite(x) and abs(x) < 1.25:
                obs.append({"kind": "erfRat", "args": {"x": x}, "out": out})
                reqs.append({"op": "erfRat", "x": N.frac(x)})
    resp = core.driver_batch("truncnormq", reqs)
    for rq, ob, rs in zip(reqs, obs, resp):
        if "why" in rs:
            raise core.DriverBroken("driver rejected %s: %s" % (rq, rs))
        k = ob["kind"]
        chk.traces_validated += 1
        ok = True
        band = False
        if k in ("mass", "logndtr", "erf"):
            ok = rs["case"] == ob["got"]
        elif k == "ndtrsingle":
            ok = rs["case"] == ob["got"]
            band = abs(abs(ob["args"]["a"]) - 1.0) <= 2.0 ** -50  # float rounding of a / 2**0.5 decides inside the band (stated in the theorem)
        elif k == "ppf":
            m = rs["case"]
            a_, b_, out = ob["args"]["a"], ob["args"]["b"], ob["out"]
            if m == "nan":
                ok = out != out
            elif m == "hi":
                ok = out == b_
            elif m == "lo":
                ok = out == a_
            else:
                ok = ob["got"] == m
        elif k == "erfRat":
            if rs["val"] is None:
                ok = False
            else:
                exact = Fraction(rs["val"])
                out = ob["out"]
                err = abs(Fraction(out) - exact)
                ulp = Fraction(float(np.spacing(abs(float(exact))))) if exact != 0 else Fraction(0)
                ok = err <= 4 * ulp
                chk.extra["max_ratio"]["erf-vs-exact-rational-arm(ulp/4)"] = max(chk.extra["max_ratio"].get("erf-vs-exact-rational-arm(ulp/4)", 0.0), float(err / (4 * ulp)) if ulp else 0.0)
        chk.count("branch:%s:%s" % (k, rs.get("case", "rat")))
        chk.case({"k": "branch-" + k, "args": {kk: rp(v) for kk, v in ob["args"].items()}}, nontrivial=True)
        if not ok and not band:
            chk.broke("correspondence", {"what": "branch taken by the Python differs from the Lean model", "kernel": k,
                                         "args": {kk: repr(v) for kk, v in ob["args"].items()}, "python": repr(ob.get("got", ob.get("out"))), "model": rs})
        if band and not ok:
            chk.count("branch:ndtrsingle:rounding-band")


def py_interp(tbl: list[tuple[Fraction, Fraction]], x: Fraction) -> Fraction:
    if len(tbl) == 1:
        return tbl[0][1] + (x - tbl[0][0])
    for (x0, y0), (x1, y1) in zip(tbl, tbl[1:]):
        if x < x0:
            return y0 + (x - x0)
        if x <= x1:
            return y0 + (x - x0) * (y1 - y0) / (x1 - x0)
    xn, yn = tbl[-1]
    return yn + (x - xn)


def stream_bisect(chk: core.Check, V: Viol, r: random.Random, n: int, n_float: int) -> None:
    t = T()
    reqs, expect = [], []
    for _ in range(n):
        m = r.randint(1, 6)
        xs = sorted({Fraction(r.randint(-400, 400), r.choice([1, 2, 3, 7])) for _ in range(m)})
        ys: list[Fraction] = []
        y = Fraction(r.randint(-50, 50), r.choice([1, 3]))
        for _x in xs:
            y += Fraction(r.randint(1, 40), r.choice([1, 2, 5]))
            ys.append(y)
        tbl = list(zip(xs, ys))
        a = Fraction(r.choice([-100, -100, -7, r.randint(-300, 0)]))
        b = a + Fraction(r.randint(1, 400), r.choice([1, 1, 3]))
        mode = r.random()
        if mode < 0.7:  # root inside
            xstar = a + (b - a) * Fraction(r.randint(0, 1000), 1000)
            c = py_interp(tbl, xstar)
        elif mode < 0.85:  # target below f(a): the wrong-end walk of the finding
            c = py_interp(tbl, a) - Fraction(r.randint(1, 9), 2)
        else:  # target above f(b)
            c = py_interp(tbl, b) + Fraction(r.randint(1, 9), 2)
        mids: list[Fraction] = []

        def f(x: Fraction, tbl: list[tuple[Fraction, Fraction]] = tbl, mids: list[Fraction] = mids) -> Fraction:
            mids.append(x)
            return py_interp(tbl, x)

        res = t._bisect(f, a, b, c)  # the real loop, on exact rationals
        reqs.append({"op": "bisect", "tbl": [["%d/%d" % (p.numerator, p.denominator), "%d/%d" % (q_.numerator, q_.denominator)] for p, q_ in tbl],
                     "a": "%d/%d" % (a.numerator, a.denominator), "b": "%d/%d" % (b.numerator, b.denominator), "c": "%d/%d" % (c.numerator, c.denominator)})
        expect.append({"res": Fraction(res), "mids": mids[1:], "mode": "inside" if mode < 0.7 else "below" if mode < 0.85 else "above", "a": a, "b": b, "c": c})
    resp = core.driver_batch("truncnormq", reqs)
    for rq, ex, rs in zip(reqs, expect, resp):
        if "why" in rs:
            raise core.DriverBroken("driver rejected %s: %s" % (rq, rs))
        chk.traces_validated += 1
        chk.count("bisect-exact:" + ex["mode"])
        chk.case({"k": "bisect", "rq": rq}, nontrivial=True)
        mres = Fraction(rs["res"])
        mm = [Fraction(s) for s in rs["mids"]]
        if mres != ex["res"] or mm != ex["mids"]:
            chk.broke("correspondence", {"what": "_bisect run on Fractions differs from the Lean model", "request": rq, "python_result": str(ex["res"]), "model_result": rs["res"],
                                         "python_evals": len(ex["mids"]), "model_evals": len(mm)})
    # float run of _ndtri_exp_single replayed in the model
    orig = t._log_ndtr_single
    freqs, fobs = [], []
    for _ in range(n_float):
        u = r.random()
        y = -10 ** r.uniform(-12, 3.6) if u < 0.8 else math.log(r.random() + 1e-300)
        rec: list[tuple[float, float]] = []

        def wrapped(x: float, rec: list[tuple[float, float]] = rec) -> float:
            v = orig(x)
            rec.append((x, v))
            return v

        t._log_ndtr_single = wrapped
        try:
            out = t._ndtri_exp_single(y)
        finally:
            t._log_ndtr_single = orig
        first, rest = rec[0], rec[1:]
        n_cmp = min(len(rest), 44)
        freqs.append({"op": "bisectReplay", "aboveA": bool(first[1] > y), "n": n_cmp, "answers": [[N.frac(m), bool(v < y)] for m, v in rest[:n_cmp]]})
        fobs.append((y, out, rest, n_cmp))
    fresp = core.driver_batch("truncnormq", freqs) if freqs else []
    for rq, (y, out, rest, n_cmp), rs in zip(freqs, fobs, fresp):
        if "why" in rs:
            raise core.DriverBroken("driver rejected %s: %s" % (rq, rs))
        chk.traces_validated += 1
        chk.count("bisect-float-replay")
        chk.case({"k": "ndtri_exp", "y": rp(y)}, nontrivial=True)
        mm = [Fraction(s_) for s_ in rs["mids"]]
        pm = [Fraction(m) for m, _ in rest[:n_cmp]]
        lo, hi = sorted([Fraction(rs["lo"]), Fraction(rs["hi"])])
        slack = Fraction(1, 2 ** 40)
        ok = mm == pm and (lo - slack <= Fraction(out) <= hi + slack) and len(rest) >= min(44, rs["iters"])
        if not ok:
            chk.broke("correspondence", {"what": "float run of _ndtri_exp_single does not follow the Lean bisection", "y": repr(y), "python_evals": len(rest),
                                         "python_first_mids": [repr(m) for m, _ in rest[:6]], "model_first_mids": rs["mids"][:6], "result": repr(out), "model_bracket": [rs["lo"], rs["hi"]]})


# =============================================================================================================
# main / search / replay
# =============================================================================================================

def numeric(chk: core.Check, V: Viol, r: random.Random, rounds: int) -> None:
    """All numeric streams, `rounds` times with fresh draws (memory stays bounded)."""

    def guarded(name: str, f: Callable[[], None]) -> None:
        try:
            f()
        except KernelRaised:
            pass  # already reported with the offending argument tuple
        except core.DriverBroken:
            raise
        except Exception as e:  # noqa: BLE001  -- an exception out of the code under test for valid arguments
            import traceback

            tb = traceback.format_exc().splitlines()
            inside = [l.strip() for l in tb if "optuna/samplers/_tpe" in l]
            V.add(name, "exception", {"exception": repr(e)[:300], "where": inside[-3:], "seed": chk.seed, "tier": chk.tier},
                  "stream %s: the code raised %r for valid arguments (%s)" % (name, e, "; ".join(inside[-2:])))

    guarded("ppf", lambda: stream_beyond(chk, V))
    for _ in range(rounds):
        guarded("special", lambda: stream_special(chk, V, r, 40000))
        guarded("_log_gauss_mass", lambda: stream_mass(chk, V, r, 20000))
        guarded("logpdf", lambda: stream_logpdf(chk, V, r, 20000))
        guarded("ppf", lambda: stream_ppf(chk, V, r, 8000))
        guarded("rvs", lambda: stream_rvs(chk, V, r, 40, 96))
        guarded("quadrature", lambda: stream_quadrature(chk, V, r, 1200))
        guarded("mixture", lambda: stream_mixture(chk, V, r, 120, 48))


def _worker(args: tuple[int, int, str]) -> dict[str, Any]:
    """thorough tier: one shard of the numeric streams in its own process."""
    seed, rounds, tier = args
    chk = core.Check("C18", tier, seed)
    chk.extra["max_ratio"] = {}
    V = Viol(chk)
    numeric(chk, V, random.Random(seed * 7919 + 17), rounds)
    import shutil

    shutil.rmtree(chk.tmp, ignore_errors=True)
    return {"violations": chk.violations, "known": {k: {"witness": v["witness"], "message": v["message"], "count": v["count"], "finding": v["finding"]} for k, v in chk.known_hits.items()},
            "hist": chk.hist, "evaluations": chk.evaluations, "distinct": len(chk.distinct), "max_ratio": chk.extra["max_ratio"], "samples": chk.samples[:2]}


def search(chk: core.Check) -> None:
    """Something no longer checks (proof / translation / branch correspondence): hunt for a concrete argument
    tuple on which the *numeric property* fails, with larger streams."""
    V = Viol(chk)
    r = random.Random(chk.seed * 104729 + 5)
    t0 = time.time()
    rounds = 0
    while not chk.violations and time.time() - t0 < (30 if chk.tier == "quick" else 300):
        numeric(chk, V, r, 1)
        rounds += 1
    chk.search_log.append("numeric hunt: %d extra round(s) of all streams, %d violation(s) found" % (rounds, len(chk.violations)))


# Props/C18Inst.lean: the abstract hypotheses of Props/C18.lean discharged at the real thing (bisection at log Phi, ErfLike for the
# standard normal, log-argument positivity quantified over the generated bodies); it imports Props/C18
PROVE_MODULES = ["OptunaVerif.Props.C18", "OptunaVerif.Props.C18Inst"]


def generated_bodies_covered(chk: core.Check) -> None:
    """`C18Inst.no_nan_from_valid_args_generated` quantifies over the table `genFns`; the table must name EVERY formula-valued
    definition (`def x : E`, and every member of a `def x : List E`) of the file the translator has just re-emitted."""
    import os
    import re
    try:
        gen = open(TR.OUT).read()
        inst = open(os.path.join(core.LEAN_DIR, "OptunaVerif", "Props", "C18Inst.lean")).read()
    except OSError as e:
        chk.broke("translation", {"generated_bodies_covered": repr(e)[:300]})
        return
    table = inst[inst.index("def genFns"):inst.index("theorem genFns_covers_arm_lists")]
    singles = re.findall(r"^def (\w+) : E :=", gen, flags=re.M)
    lists = re.findall(r"^def (\w+) : List E :=", gen, flags=re.M)
    missing = [n for n in singles if '⟨"%s", %s,' % (n, n) not in table]
    missing += [n for n in lists if '⟨"%s[0]", %s.getD 0' % (n, n) not in table]
    lens = dict(re.findall(r"theorem genFns_covers_arm_lists : (.*) := by decide", inst) and
                re.findall(r"(\w+)\.length = (\d+)", re.findall(r"theorem genFns_covers_arm_lists : (.*) := by decide", inst)[0]))
    missing += [n for n in lists if n not in lens]
    chk.extra["generated_formula_bodies"] = {"single": singles, "lists": lists}
    chk.count("generated-bodies-covered", len(singles) + len(lists))
    if missing or not singles:
        chk.broke("translation", {"what": "Props/C18Inst.lean::genFns does not list every generated formula body", "missing": missing})


def main(chk: core.Check) -> int:
    chk.rule = RULE
    chk.level = "proof"
    chk.extra["max_ratio"] = {}
    quick = chk.tier == "quick"
    lines = None
    try:
        changed, info = TR.regenerate()
        lines = info["lines"]
        chk.translated = ["optuna/samplers/_tpe/_truncnorm.py", "optuna/samplers/_tpe/_erf.py", "optuna/samplers/_tpe/probability_distributions.py"]
        chk.extra["generated_changed_this_run"] = bool(changed)
    except TR.Untranslatable as e:
        chk.broke("translation", {"translator": "verif/translators/truncnorm.py", "why": str(e)[:500]})
    except (SyntaxError, OSError) as e:
        chk.broke("translation", {"translator": "verif/translators/truncnorm.py", "why": repr(e)[:500]})
    generated_bodies_covered(chk)
    if not getattr(chk, "no_prove", False):
        chk.prove(PROVE_MODULES)
    V = Viol(chk)
    r = chk.rng
    try:
        core.ensure_driver()
        if lines is not None:
            stream_branches(chk, V, r, 2500 if quick else 20000, lines)
        stream_bisect(chk, V, r, 150 if quick else 1500, 60 if quick else 600)
    except core.DriverBroken as e:
        chk.broke("correspondence", {"driver": str(e)[:800]})
    except Exception as e:  # noqa: BLE001  -- the code under test raised while its branches were being observed
        import traceback

        tb = [l.strip() for l in traceback.format_exc().splitlines() if "optuna/samplers/_tpe" in l]
        chk.broke("correspondence", {"what": "the code raised while its control flow was being observed", "exception": repr(e)[:300], "where": tb[-3:]})
    if quick:
        numeric(chk, V, r, 2)
    else:
        import multiprocessing as mp

        jobs = [(chk.seed * 1000 + k, 10, chk.tier) for k in range(12)]
        extra_distinct = 0
        with mp.get_context("spawn").Pool(12) as pool:
            for res in pool.map(_worker, jobs):
                for v in res["violations"]:
                    chk.violation(v["signature"], v["witness"], v["message"])
                for kid, hit in res["known"].items():
                    for _ in range(hit["count"]):
                        chk.violation({**hit["finding"].get("match", {})}, hit["witness"], hit["message"])
                for k, v in res["hist"].items():
                    chk.count(k, v)
                chk.evaluations += res["evaluations"]
                extra_distinct += res["distinct"]
                for k, v in res["max_ratio"].items():
                    chk.extra["max_ratio"][k] = max(chk.extra["max_ratio"].get(k, 0.0), v)
                if len(chk.samples) < 4:
                    chk.samples += res["samples"][:1]
        # shards draw from disjoint seeds: their distinct-case counts (SHA-1 sets kept inside each shard) add up
        chk.distinct = CountedSet(chk.distinct, extra_distinct)
    chk.extra["max_ratio"] = {k: round(v, 4) for k, v in sorted(chk.extra["max_ratio"].items())}
    chk.extra["tolerances"] = {"K_ERF(ulp)": N.K_ERF, "K_NDTR(eps)": N.K_NDTR, "K_LNDTR": N.K_LNDTR, "K_MASS": N.K_MASS, "K_PDF": N.K_PDF, "K_PPF": N.K_PPF,
                               "K_IN": N.K_IN, "definition": "verif/c18_num.py module docstring; max_ratio = largest |difference| / allowed seen this run (must stay <= 1)"}
    chk.extra["explanation"] = ("proof (partial): formulas/branches/bisection/guard proved over R and Q for the formulas re-translated from the source; "
                                "agreement with SciPy in floating point is sampled by the numeric tie, not proved")
    chk.assumptions += [
        "Phi, phi enter the theorems as hypotheses (StdNormalLike); gauss_stdNormalLike shows the standard normal satisfies them",
        "IEEE-754 rounding is not modelled: float agreement with SciPy rests on the sampled numeric tie with the tolerances of verif/c18_num.py",
        "a SciPy value that itself disagrees with 60-digit mpmath is not held against the code (counted as scipy_inaccurate)",
        "numpy RandomState streams are reproduced call by call to compare rvs/sample with SciPy quantiles of the same uniforms",
        "the asymptotic series of _log_ndtr_single (a <= -20), exp/log/erfc of libm and numpy.polynomial are not modelled, only compared",
    ]
    chk.trusted += ["scipy.special (erf, ndtr, log_ndtr, logsumexp), scipy.stats.truncnorm and mpmath (60 digits) as numerical references"]
    return chk.finish(search=search)


def replay(chk: core.Check, path: str) -> int:
    try:
        return _replay(chk, path)
    except Exception as e:  # noqa: BLE001 -- the witness makes the code raise
        print("REPRODUCED: the code raised %r" % (e,))
        return 1


def _replay(chk: core.Check, path: str) -> int:
    doc = json.load(open(path))
    w = doc.get("witness")
    if not w:
        print("replay file has no concrete witness (kind=%s); no_longer_checks: %s" % (doc.get("kind"), json.dumps(doc.get("no_longer_checks"))[:600]))
        return 1
    t = T()
    k = w.get("kernel")
    chk.extra["max_ratio"] = {}
    V = Viol(chk)
    if k in ("ppf",) or (k == "rvs" and "q" in w) or (k == "mixture.sample" and "q" in w):
        q, a, b = unwit(w, "q"), unwit(w, "a"), unwit(w, "b")
        ours = t.ppf(np.array([q]), a, b)
        ref = stats.truncnorm.ppf(np.array([q]), a, b)
        if "scale" in w:
            sc, lc = unwit(w, "scale"), unwit(w, "loc")
            judge_ppf(V, chk, "ppf", np.array([q]), np.array([a]), np.array([b]), ours * sc + lc, ref, scale=np.array([sc]), loc=np.array([lc]))
        else:
            judge_ppf(V, chk, "ppf", np.array([q]), np.array([a]), np.array([b]), ours, ref)
        print("ppf(q=%r, a=%r, b=%r) = %r ; scipy %r" % (q, a, b, float(ours[0]), float(ref[0])))
    elif k == "_log_gauss_mass":
        a, b = unwit(w, "a"), unwit(w, "b")
        o = float(t._log_gauss_mass(np.array([a]), np.array([b]))[0])
        rf = float(N.sp_log_gauss_mass(np.array([a]), np.array([b]))[0])
        u = float(N.unit_mass(np.array([a]), np.array([b]), np.array([rf]))[0])
        print("_log_gauss_mass(%r, %r) = %r ; scipy %r ; mpmath %r ; allowed %.3g" % (a, b, o, rf, N.mp_log_mass(a, b), N.K_MASS * u))
        if o != o or not abs(o - rf) <= N.K_MASS * u:
            chk.violations.append({})
    elif k == "logpdf" and "x" in w:
        x, a, b, lc, sc = (unwit(w, n_) for n_ in ("x", "a", "b", "loc", "scale"))
        o = float(t.logpdf(np.array([x]), a, b, lc, sc)[0])
        rf = float(stats.truncnorm.logpdf(x, a, b, lc, sc))
        u = float(logpdf_unit(np.array([x]), np.array([a]), np.array([b]), np.array([lc]), np.array([sc]), np.array([rf]))[0])
        print("logpdf(x=%r, a=%r, b=%r, loc=%r, scale=%r) = %r ; scipy %r ; allowed %.3g" % (x, a, b, lc, sc, o, rf, N.K_PDF * u))
        if o != o or not (o == rf or abs(o - rf) <= N.K_PDF * u):
            chk.violations.append({})
    elif k == "erf":
        from optuna.samplers._tpe import _erf

        x = unwit(w, "x")
        o, rf = float(_erf.erf(np.array([x]))[0]), float(special.erf(x))
        print("erf(%r) = %r ; scipy %r (%.1f ulp)" % (x, o, rf, abs(o - rf) / np.spacing(abs(rf))))
        if not abs(o - rf) <= N.K_ERF * np.spacing(abs(rf)):
            chk.violations.append({})
    elif k in ("_ndtr", "_log_ndtr"):
        a = unwit(w, "a")
        o = float(getattr(t, k)(np.array([a]))[0])
        rf = float(special.ndtr(a) if k == "_ndtr" else special.log_ndtr(a))
        tol = N.K_NDTR * N.EPS if k == "_ndtr" else N.K_LNDTR * N.EPS * (1 + abs(rf))
        print("%s(%r) = %r ; scipy %r ; allowed %.3g" % (k, a, o, rf, tol))
        if o != o or not abs(o - rf) <= tol:
            chk.violations.append({})
    elif k == "mixture.log_pdf" and "dims" in w and "x" in w:
        from optuna.samplers._tpe import probability_distributions as PD

        dists, spec = [], []
        for d in w["dims"]:
            if d["kind"] == "cat":
                cw = np.array(d["w"])
                dists.append(PD._BatchedCategoricalDistributions(cw))
                spec.append({"kind": "cat", "w": cw})
            elif d["kind"] == "tn":
                dists.append(PD._BatchedTruncNormDistributions(np.array(d["mu"]), np.array(d["sigma"]), d["low"], d["high"]))
                spec.append(dict(d, mu=np.array(d["mu"]), sigma=np.array(d["sigma"])))
            else:
                dists.append(PD._BatchedDiscreteTruncNormDistributions(np.array(d["mu"]), np.array(d["sigma"]), d["low"], d["high"], d["step"]))
                spec.append(dict(d, mu=np.array(d["mu"]), sigma=np.array(d["sigma"])))
        wts = np.array(w["weights"])
        x = np.array([w["x"]])
        o = float(PD._MixtureOfProductDistribution(wts, dists).log_pdf(x)[0])
        rf, u = ref_mixture_logpdf(spec, wts, x)
        print("mixture log_pdf(%s) = %r ; reference %r ; allowed %.3g" % (w["x"], o, float(rf[0]), N.K_PDF * float(u[0])))
        if o != o or not (o == rf[0] or abs(o - rf[0]) <= N.K_PDF * u[0]):
            chk.violations.append({})
    else:
        print("witness of kernel %r: %s" % (k, json.dumps(w)[:800]))
        return 1
    if chk.violations or chk.known_hits:
        print("REPRODUCED: %s" % doc.get("message", "")[:400])
        return 1
    print("not reproduced")
    return 0
