"""C19 — stale-trial recovery fails and retries each dead trial at most once.

prove:      Props/C19.lean on Model/Heartbeat.lean: for ALL schedules of any number of workers' sweep steps,
            worker deaths and other actors' storage calls — a trial is moved to FAIL by at most one sweep step, its
            callback runs at most once (and only at the winner), at most one retry per failure, chains bounded by
            max_retry with a correct retry_history / failed_trial, the retry is the WAITING copy of the failed
            trial, and trials that are not stale at any stale read are never touched by a sweep.
correspond: several real workers (own Study + own RDBStorage / _CachedStorage object on ONE SQLite file, heartbeat
            enabled, RetryFailedTrialCallback) run scripts of fail_stale_trials / Study.ask / record_heartbeat /
            Trial.suggest / set_user_attr / Study.tell / enqueue_trial / optuna.study._optimize._run_trial in their own
            threads; every storage call of a worker is gated, exactly one thread runs at a time, a seeded schedule
            picks who performs its next storage call (strict alternation = the model's atomic steps), a worker may be
            parked for ever after any call (death), time passes by ageing the rows of `trial_heartbeats` through SQL.
            Every call is mirrored as one action of the Lean model (driver `heartbeat`); who won each compare-and-set,
            the ids each stale read returned, each callback, each enqueued retry and the final trial table are compared.
observe:    the property itself on the implementation, independent of the model (see `Oracle`).
"""
from __future__ import annotations

import ast
import datetime
import json
import os
import random
import threading
import traceback
import warnings
from typing import Any

import optuna
import sqlalchemy
from optuna.distributions import distribution_to_json
from optuna.exceptions import UpdateFinishedTrialError
from optuna.storages import RDBStorage, RetryFailedTrialCallback
from optuna.storages import _CachedStorage
from optuna.storages._heartbeat import fail_stale_trials
from optuna.storages._rdb import models
from optuna.storages._rdb.storage import _create_scoped_session
from optuna.trial import TrialState

from verif import core
from verif.props import c19_rdb

optuna.logging.set_verbosity(optuna.logging.ERROR)
warnings.simplefilter("ignore")

RULE = (
    "2-4 workers (RDBStorage or _CachedStorage on one SQLite file, heartbeat on, RetryFailedTrialCallback with "
    "max_retry in {None,0,1,2,3} or no callback) run seeded scripts of sweep/ask/beat (own or any trial)/suggest/attr/tell/enqueue/"
    "_run_trial ops; a seeded scheduler interleaves their storage calls one at a time, ages the heartbeat rows "
    "(ticks of 100-400 s against grace 250 s) and parks workers for ever at random points; a case = (backend, "
    "params, scripts, schedule); non-trivial = at least two workers noticed the same stale trial in overlapping "
    "sweeps, or a worker died inside a sweep, or a retry chain reached depth >= 2; distinct by SHA-1 of the case"
)
GRACE = 250
WAIT = 120.0
SWEEP_CALLS = ("_get_stale_trial_ids", "set_trial_state_values", "get_trial", "create_new_trial")
GATED = ("_get_stale_trial_ids", "set_trial_state_values", "get_trial", "create_new_trial", "get_all_trials",
         "record_heartbeat", "set_trial_param", "set_trial_user_attr", "set_trial_system_attr")


class Killed(BaseException):
    """Raised at a gate to unwind a parked worker thread when the case is over (never caught by optuna)."""


def atok(v: Any) -> str:
    return json.dumps(json.loads(json.dumps(v)), sort_keys=True)


def ptok(dist: Any, internal: float) -> str:
    return json.dumps([repr(float(internal)), json.loads(distribution_to_json(dist))], sort_keys=True)


def split_sys(sa: dict[str, Any]) -> tuple[Any, Any, dict[str, str]]:
    other = {k: atok(v) for k, v in sa.items() if k not in ("failed_trial", "retry_history")}
    return sa.get("failed_trial"), sa.get("retry_history"), other


def canon_frozen(t: Any) -> dict[str, Any]:
    ft, rh, other = split_sys(t.system_attrs)
    return {
        "state": t.state.value,
        "params": {n: ptok(t.distributions[n], t.distributions[n].to_internal_repr(v)) for n, v in t.params.items()},
        "user": {k: atok(v) for k, v in t.user_attrs.items()},
        "failedTrial": ft, "retryHistory": rh, "other": other,
    }


def canon_model_rec(r: dict[str, Any]) -> dict[str, Any]:
    return {"state": r["state"], "params": dict(map(tuple, r["params"])), "user": dict(map(tuple, r["user"])),
            "failedTrial": r["failedTrial"], "retryHistory": r["retryHistory"], "other": dict(map(tuple, r["other"]))}


class CountingCallback:
    """Pass-through wrapper around the real RetryFailedTrialCallback: records every invocation."""

    def __init__(self, inner: Any, log: list[Any], who: int, current: dict[int, Any]) -> None:
        self.inner, self.log, self.who, self.current = inner, log, who, current

    def __call__(self, study: Any, trial: Any) -> None:
        self.log.append({"w": self.who, "number": trial.number, "study": study._study_id})
        self.current[self.who] = trial.number
        try:
            self.inner(study, trial)
        finally:
            self.current[self.who] = None


class Worker:
    def __init__(self, idx: int, storage: Any, study: Any, script: list[Any], seed: int) -> None:
        self.idx, self.storage, self.study, self.script = idx, storage, study, script
        self.go = threading.Semaphore(0)
        self.arrived = threading.Event()
        self.pending: tuple[str, Any] | None = None
        self.done = False
        self.dead = False
        self.killed = False
        self.steplog: list[dict[str, Any]] = []
        self.in_sweep = False
        self.expect_sweep = False
        self.trials: list[Any] = []
        self.oplog: list[dict[str, Any]] = []
        self.rng = random.Random(seed)
        self.hb_seen = threading.Event()
        self.thread = threading.Thread(target=self.main, daemon=True)
        for name in GATED:
            self._wrap(name)

    # ---- gating ---------------------------------------------------------------------------------
    def gate(self, name: str, info: Any) -> None:
        if threading.current_thread() is not self.thread:
            return  # the heartbeat thread of this worker: runs inside the worker's current step
        if self.killed:
            raise Killed()
        self.pending = (name, info)
        self.arrived.set()
        self.go.acquire()
        if self.killed:
            raise Killed()

    def _wrap(self, name: str) -> None:
        orig = getattr(self.storage, name)

        def f(*a: Any, **kw: Any) -> Any:
            info = describe(name, a, kw)
            self.gate(name, info)
            if self.expect_sweep and threading.current_thread() is self.thread:
                self.expect_sweep = False
                if name != "_get_stale_trial_ids":
                    self.steplog.append({"name": "no_sweep_before_ask", "info": name, "sweep": False})
            if name == "_get_stale_trial_ids":
                self.in_sweep = True
            elif name == "get_all_trials" and self.in_sweep:
                self.in_sweep = False
                self.steplog.append({"name": "sweep_end", "info": None, "sweep": False})
            rec: dict[str, Any] = {"name": name, "info": info, "sweep": self.in_sweep and name in SWEEP_CALLS,
                                   "foreign": threading.current_thread() is not self.thread, "cb": CB_CURRENT.get(self.idx)}
            try:
                res = orig(*a, **kw)
            except Exception as e:  # noqa: BLE001
                rec["exc"] = type(e).__name__
                self.steplog.append(rec)
                raise
            rec["res"] = res if name in ("_get_stale_trial_ids", "set_trial_state_values", "create_new_trial") else None
            self.steplog.append(rec)
            if name == "record_heartbeat" and rec["foreign"]:
                self.hb_seen.set()
            return res

        setattr(self.storage, name, f)

    # ---- the script -----------------------------------------------------------------------------
    def main(self) -> None:
        try:
            for op in self.script:
                self.run_op(op)
        except Killed:
            pass
        except BaseException as e:  # noqa: BLE001
            self.oplog.append({"op": "thread", "exc": type(e).__name__, "msg": str(e)[:200], "tb": traceback.format_exc()[-600:]})
        finally:
            self.done = True
            self.pending = None
            self.arrived.set()

    def pick_trial(self, k: int) -> Any | None:
        return self.trials[k % len(self.trials)] if self.trials else None

    def objective(self, raise_: bool):
        def func(trial: Any) -> float:
            if not self.hb_seen.wait(WAIT):
                raise RuntimeError("heartbeat thread did not beat")
            x = trial.suggest_float("x", 0.0, 1.0)
            trial.set_user_attr("by", self.idx)
            if raise_:
                raise ValueError("objective failed")
            return x
        return func

    def run_op(self, op: list[Any]) -> None:
        kind = op[0]
        out: dict[str, Any] = {"op": op}
        try:
            if kind == "sweep":
                fail_stale_trials(self.study)
            elif kind == "ask":
                self.trials.append(self.study.ask())
            elif kind == "beat":
                t = self.pick_trial(op[1])
                if t is not None:
                    self.storage.record_heartbeat(t._trial_id)
            elif kind == "beat_num":
                # a heartbeat for an arbitrary trial of the study (possibly WAITING or finished): the storage allows it
                try:
                    tid = self.storage.get_trial_id_from_study_id_trial_number(self.study._study_id, op[1])
                except KeyError:
                    tid = None
                if tid is not None:
                    self.storage.record_heartbeat(tid)
            elif kind == "suggest":
                t = self.pick_trial(op[1])
                if t is not None:
                    t.suggest_float(op[2], 0.0, 1.0)
            elif kind == "attr":
                t = self.pick_trial(op[1])
                if t is not None:
                    t.set_user_attr(op[2], op[3])
            elif kind == "tell":
                t = self.pick_trial(op[1])
                if t is not None:
                    if op[2] == "complete":
                        self.study.tell(t, 0.5)
                    else:
                        self.study.tell(t, state=TrialState.FAIL if op[2] == "fail" else TrialState.PRUNED)
            elif kind == "enqueue":
                self.study.enqueue_trial(op[1], user_attrs=op[2])
            elif kind == "enqueue_beat":
                # a queued trial that somebody records a heartbeat for while it is still WAITING (the storage allows it)
                self.study.enqueue_trial(op[1], user_attrs=op[2])
                ws = self.storage.get_all_trials(self.study._study_id, deepcopy=False, states=(TrialState.WAITING,))
                if ws:
                    self.storage.record_heartbeat(ws[-1]._trial_id)
            elif kind == "run_trial":
                from optuna.study._optimize import _run_trial
                self.hb_seen.clear()
                self.expect_sweep = True  # heartbeat is enabled: _run_trial must sweep before it asks
                self.study._thread_local.in_optimize_loop = True
                try:
                    _run_trial(self.study, self.objective(op[1]), (ValueError,))
                finally:
                    self.study._thread_local.in_optimize_loop = False
            else:
                raise AssertionError("unknown op %r" % (op,))
        except Exception as e:  # noqa: BLE001
            out["exc"] = type(e).__name__
            out["msg"] = str(e)[:160]
            out["in_sweep"] = self.in_sweep
        finally:
            if self.in_sweep:
                self.in_sweep = False
                self.steplog.append({"name": "sweep_end", "info": None, "sweep": False})
            self.steplog.append({"name": "op_end", "info": out, "sweep": False})
            self.oplog.append(out)


def describe(name: str, a: tuple[Any, ...], kw: dict[str, Any]) -> Any:
    if name == "set_trial_state_values":
        state = kw.get("state", a[1] if len(a) > 1 else None)
        return {"id": a[0], "state": state.value}
    if name in ("get_trial", "record_heartbeat"):
        return {"id": a[0]}
    if name == "create_new_trial":
        tmpl = kw.get("template_trial", a[1] if len(a) > 1 else None)
        return {"tmpl": None if tmpl is None else canon_frozen(tmpl)}
    if name == "set_trial_param":
        return {"id": a[0], "k": a[1], "v": ptok(a[3], a[2])}
    if name in ("set_trial_user_attr", "set_trial_system_attr"):
        key = kw.get("key", a[1] if len(a) > 1 else None)
        value = kw.get("value", a[2] if len(a) > 2 else None)
        return {"id": a[0], "k": key, "v": atok(value)}
    return None


class ModelMismatch(Exception):
    pass


class Violation(Exception):
    def __init__(self, kind: str, why: str) -> None:
        super().__init__(why)
        self.kind = kind


_TEMPLATE: dict[str, str] = {}
CB_CURRENT: dict[int, Any] = {}  # worker index -> number of the trial whose callback that worker is executing right now


def _fast(st: RDBStorage) -> RDBStorage:
    """Harness-side: no fsync on the scratch database (durability is not the subject here)."""

    @sqlalchemy.event.listens_for(st.engine, "connect")
    def _pragmas(dbapi_conn: Any, _rec: Any) -> None:
        c = dbapi_conn.cursor()
        c.execute("PRAGMA synchronous=OFF")
        c.execute("PRAGMA journal_mode=MEMORY")
        c.close()

    st.engine.dispose()
    return st


def open_rdb(url: str, **kw: Any) -> RDBStorage:
    return _fast(RDBStorage(url, engine_kwargs={"connect_args": {"timeout": 30}}, skip_compatibility_check=True,
                            skip_table_creation=True, **kw))


def fresh_db(tmp: str, tag: str) -> str:
    """A new SQLite file with optuna's schema: built once per process by RDBStorage itself, then copied."""
    import shutil

    if tmp not in _TEMPLATE:
        path = os.path.join(tmp, "c19_template_%d.sqlite3" % os.getpid())
        st = RDBStorage("sqlite:///" + path)
        st.remove_session()
        st.engine.dispose()
        _TEMPLATE[tmp] = path
    path = os.path.join(tmp, "c19_%d_%s.sqlite3" % (os.getpid(), tag))
    shutil.copy(_TEMPLATE[tmp], path)
    return path


class Case:
    """One history on one SQLite file."""

    def __init__(self, spec: dict[str, Any], tmp: str, drv: core.Driver | None) -> None:
        self.spec = spec
        self.drv = drv
        self.model_ok = drv is not None
        self.mismatch: str | None = None
        self.violations: list[tuple[str, str]] = []
        self.stats: dict[str, int] = {}
        self.trace: list[Any] = []
        CB_CURRENT.clear()
        self.url = "sqlite:///" + fresh_db(tmp, str(spec["seed"]))
        self.cb_log: list[Any] = []
        self.hb_age: dict[int, int] = {}  # trial id -> seconds (virtual) since its last observed heartbeat
        self.observer = open_rdb(self.url)
        # a decoy study with a stale RUNNING trial: must never be touched by sweeps of the study under test
        self.decoy_id = self.observer.create_new_study([optuna.study.StudyDirection.MINIMIZE], "decoy")
        d1 = self.observer.create_new_trial(self.decoy_id)
        self.observer.create_new_trial(self.decoy_id)
        self.observer.record_heartbeat(d1)
        self.sid = self.observer.create_new_study([optuna.study.StudyDirection.MINIMIZE], "main")
        self.age(100000, model=False)
        self.workers: list[Worker] = []
        for i, script in enumerate(spec["scripts"]):
            st = self.make_storage(i)
            study = optuna.load_study(study_name="main", storage=st, sampler=optuna.samplers.RandomSampler(seed=spec["seed"] + i))
            self.workers.append(Worker(i, study._storage, study, script, spec["seed"] * 31 + i))
        self.id2num: dict[int, int] = {}
        # per-worker bookkeeping for the model-independent oracle
        self.noticed: dict[int, list[int]] = {}      # worker -> ids returned by its current stale read
        self.truth: dict[int, set[int]] = {}         # worker -> ground-truth stale ids at that read
        self.won: dict[int, list[int]] = {}          # trial id -> workers whose CAS returned True inside a sweep
        self.parent_of: dict[int, int] = {}          # number of a retry -> number of the trial it retries (observed)
        self.cur_cb: dict[int, int | None] = {}      # worker -> number whose callback it is inside
        self.overlap = 0
        self.died_in_sweep = 0
        self.phase: dict[int, str] = {}
        if self.drv is not None:
            p = spec["params"]
            self.drv.ask({"cmd": "reset", "grace": GRACE, "hasCb": p["hasCb"], "maxRetry": p["maxRetry"], "workers": len(self.workers)})

    def make_storage(self, who: int) -> Any:
        p = self.spec["params"]
        cb = CountingCallback(RetryFailedTrialCallback(max_retry=p["maxRetry"]), self.cb_log, who, CB_CURRENT) if p["hasCb"] else None
        rdb = open_rdb(self.url, heartbeat_interval=60, grace_period=GRACE, failed_trial_callback=cb)
        return _CachedStorage(rdb) if self.spec["backend"] == "cached" else rdb

    def count(self, k: str, n: int = 1) -> None:
        self.stats[k] = self.stats.get(k, 0) + n

    # ---- observation through an untouched RDBStorage ----------------------------------------------
    def age(self, secs: int, model: bool = True) -> None:
        with _create_scoped_session(self.observer.scoped_session, True) as session:
            for hb in session.query(models.TrialHeartbeatModel).all():
                hb.heartbeat = hb.heartbeat - datetime.timedelta(seconds=secs)
        for tid in self.hb_age:
            self.hb_age[tid] += secs
        if model:
            self.model_env({"op": "tick", "d": secs}, None)

    def table(self) -> dict[int, dict[str, Any]]:
        """number -> canonical record (+ heartbeat row present) of every trial of the study under test
        (plain SQL on the observer's own connection: what is in the database, not what a cache says)."""
        T = sqlalchemy.text
        out: dict[int, dict[str, Any]] = {}
        byid: dict[int, dict[str, Any]] = {}
        with self.observer.engine.connect() as c:
            for tid, number, state in c.execute(T("SELECT trial_id, number, state FROM trials WHERE study_id = :s ORDER BY trial_id"), {"s": self.sid}):
                self.id2num[tid] = number
                byid[tid] = out[number] = {"state": TrialState[state].value, "params": {}, "user": {}, "failedTrial": None,
                                           "retryHistory": None, "other": {}, "hb": False, "id": tid}
            for tid, name, value, dj in c.execute(T("SELECT trial_id, param_name, param_value, distribution_json FROM trial_params")):
                if tid in byid:
                    byid[tid]["params"][name] = json.dumps([repr(float(value)), json.loads(dj)], sort_keys=True)
            for tid, k, vj in c.execute(T("SELECT trial_id, key, value_json FROM trial_user_attributes")):
                if tid in byid:
                    byid[tid]["user"][k] = json.dumps(json.loads(vj), sort_keys=True)
            for tid, k, vj in c.execute(T("SELECT trial_id, key, value_json FROM trial_system_attributes")):
                if tid in byid:
                    if k == "failed_trial":
                        byid[tid]["failedTrial"] = json.loads(vj)
                    elif k == "retry_history":
                        byid[tid]["retryHistory"] = json.loads(vj)
                    else:
                        byid[tid]["other"][k] = json.dumps(json.loads(vj), sort_keys=True)
            for (tid,) in c.execute(T("SELECT trial_id FROM trial_heartbeats")):
                if tid in byid:
                    byid[tid]["hb"] = True
        return out

    def ground_truth_stale(self) -> set[int]:
        """ids of the study's trials that are RUNNING (database) and whose last *observed* record_heartbeat call is
        older than the grace period on the harness's own virtual clock (independent of the trial_heartbeats rows)."""
        with self.observer.engine.connect() as c:
            running = {tid for (tid,) in c.execute(sqlalchemy.text("SELECT trial_id FROM trials WHERE study_id = :s AND state = 'RUNNING'"), {"s": self.sid})}
        return {tid for tid in running if self.hb_age.get(tid, -1) > GRACE}

    def num(self, tid: int) -> int:
        if tid not in self.id2num:
            self.table()
        return self.id2num.get(tid, -1)

    # ---- model side -------------------------------------------------------------------------------
    def fail_model(self, why: str) -> None:
        if self.model_ok:
            self.model_ok = False
            self.mismatch = why

    def model_env(self, op: dict[str, Any], expect: dict[str, Any] | None) -> None:
        if not self.model_ok:
            return
        out = self.drv.ask({"cmd": "env", "op": op})
        if out.get("k") != "env":
            raise core.DriverBroken("driver: %s on %s" % (out, op))
        if expect is not None and out["out"] != expect:
            self.fail_model("call %s: implementation answered %s, model %s" % (json.dumps(op)[:200], expect, out["out"]))

    def model_sweep(self, w: int, ord_: list[int], expect: dict[str, Any], rec_expect: dict[str, Any] | None = None) -> None:
        if not self.model_ok:
            return
        out = self.drv.ask({"cmd": "sweep", "w": w, "ord": ord_})
        if out.get("k") != "sweep":
            raise core.DriverBroken("driver: %s" % out)
        ev = out["event"]
        self.phase[w] = (out["phase"] or {}).get("p", "?")
        got = None if ev is None else {k: v for k, v in ev.items() if k not in ("rec", "retry")}
        if got != expect:
            self.fail_model("worker %d: implementation did %s, the model's next sweep step is %s" % (w, expect, ev))
            return
        if rec_expect is not None and canon_model_rec(ev["rec"]) != rec_expect:
            self.fail_model("worker %d: enqueued retry differs: implementation %s, model %s" % (w, rec_expect, canon_model_rec(ev["rec"])))

    # ---- processing what a worker did in one scheduling step --------------------------------------
    def violation(self, kind: str, why: str) -> None:
        self.violations.append((kind, why))

    def process(self, w: Worker, log: list[dict[str, Any]], before: dict[int, dict[str, Any]] | None) -> None:
        i = w.idx
        for rec in log:
            name, info = rec["name"], rec["info"]
            exc = rec.get("exc")
            self.trace.append([i, name, info if name != "op_end" else info.get("exc"), exc, rec.get("res") if name != "create_new_trial" else None])
            if name == "sweep_end":
                self.sweep_ended(i)
                continue
            if name == "no_sweep_before_ask":
                self.fail_model("_run_trial of worker %d went to %s without a stale-trial sweep" % (i, info))
                stale = self.ground_truth_stale()
                if stale:
                    self.violation("optimize-did-not-sweep", "heartbeat is enabled and trials %s are stale, but _run_trial of worker %d asked for a trial without running the stale-trial sweep, so nobody notices them" % (sorted(self.num(t) for t in stale), i))
                continue
            if name == "op_end":
                op = info["op"]
                if "exc" in info:
                    self.count("op_raised:%s:%s" % (op[0], info["exc"]))
                    if op[0] == "sweep" or info.get("in_sweep"):
                        self.violation("sweep-raised", "fail_stale_trials raised %s(%s) at worker %d" % (info["exc"], info.get("msg"), i))
                continue
            if rec["sweep"]:
                self.process_sweep_call(w, rec)
                continue
            # ---- everybody else's calls -----------------------------------------------------------
            if name in ("get_trial", "get_all_trials"):
                continue
            if name == "_get_stale_trial_ids":
                continue
            if name == "create_new_trial":
                if exc is not None:
                    self.fail_model("create_new_trial raised %s" % exc)
                    continue
                n = self.num(rec["res"])
                if info["tmpl"] is None:
                    self.model_env({"op": "create"}, {"o": "new", "n": n})
                    self.count("env:create")
                else:
                    t = info["tmpl"]
                    if t["state"] != TrialState.WAITING.value or t["params"] or t["retryHistory"] is not None:
                        self.fail_model("unexpected template outside a sweep: %s" % t)
                        continue
                    self.model_env({"op": "enqueue", "user": sorted(map(list, t["user"].items())), "other": sorted(map(list, t["other"].items()))},
                                   {"o": "new", "n": n})
                    self.count("env:enqueue")
            elif name == "set_trial_state_values":
                t = self.num(info["id"])
                if info["state"] == TrialState.RUNNING.value:
                    exp = {"o": "err", "e": "UpdateFinished"} if exc == "UpdateFinishedTrialError" else {"o": "bool", "b": bool(rec.get("res"))} if exc is None else {"o": "raised", "e": exc}
                    self.model_env({"op": "claim", "t": t}, exp)
                    self.count("env:claim:%s" % (exc or rec.get("res")))
                else:
                    exp = {"o": "err", "e": "UpdateFinished"} if exc == "UpdateFinishedTrialError" else {"o": "bool", "b": bool(rec.get("res"))} if exc is None else {"o": "raised", "e": exc}
                    self.model_env({"op": "finish", "t": t, "st": info["state"]}, exp)
                    self.count("env:finish:%s" % (exc or rec.get("res")))
            elif name == "record_heartbeat":
                if exc is None:
                    self.hb_age[info["id"]] = 0
                self.model_env({"op": "beat", "t": self.num(info["id"])}, {"o": "unit"} if exc is None else {"o": "raised", "e": exc})
                self.count("env:beat")
            elif name in ("set_trial_param", "set_trial_user_attr", "set_trial_system_attr"):
                mop = {"set_trial_param": "setParam", "set_trial_user_attr": "setUserAttr", "set_trial_system_attr": "setSysAttr"}[name]
                exp = {"o": "err", "e": "UpdateFinished"} if exc == "UpdateFinishedTrialError" else {"o": "unit"} if exc is None else {"o": "raised", "e": exc}
                self.model_env({"op": mop, "t": self.num(info["id"]), "k": info["k"], "v": info["v"]}, exp)
                self.count("env:%s" % mop)
        if before is not None:
            self.check_footprint(w, log, before)

    def sweep_ended(self, i: int) -> None:
        self.count("sweeps_completed")
        if self.model_ok and self.phase.get(i, "idle") != "idle":
            self.fail_model("worker %d left fail_stale_trials while the model's sweep still has a step (%s)" % (i, self.phase.get(i)))
        # every trial this worker noticed has been dealt with: it must be finished now
        tab = self.table()
        fin = {r["id"] for r in tab.values() if r["state"] in (1, 2, 3)}
        for tid in self.noticed.get(i, []):
            if tid in self.truth.get(i, set()) and tid not in fin:
                self.violation("noticed-not-failed", "worker %d noticed stale trial id %d, finished its sweep, and the trial is still not finished" % (i, tid))
        self.noticed.pop(i, None)
        self.truth.pop(i, None)
        self.cur_cb[i] = None

    def process_sweep_call(self, w: Worker, rec: dict[str, Any]) -> None:
        i, name, info, exc = w.idx, rec["name"], rec["info"], rec.get("exc")
        if name == "_get_stale_trial_ids":
            if exc is not None:
                self.fail_model("_get_stale_trial_ids raised %s" % exc)
                return
            ids = list(rec["res"])
            truth = self.pre_truth
            self.noticed[i] = ids
            self.truth[i] = truth
            for j, other in self.noticed.items():
                if j != i and set(other) & set(ids):
                    self.overlap += 1
            nums = [self.num(t) for t in ids]
            self.count("read:%d" % min(len(ids), 3))
            if set(ids) - truth:
                # not yet a violation: becomes one when such a trial is touched (checked at the CAS)
                self.count("read_reports_non_stale")
            if truth - set(ids):
                # judged by the harness's own heartbeat clock: a RUNNING trial whose last heartbeat is older than
                # the grace period was not reported stale, so this sweep will not fail it
                self.violation("stale-not-noticed", "worker %d's sweep did not notice stale trial id(s) %s (RUNNING, heartbeat older than the grace period by the harness's clock); the stale query returned %s" % (
                    i, sorted(truth - set(ids)), ids))
            self.model_sweep(i, nums, {"e": "read", "w": i, "ids": nums})
        elif name == "set_trial_state_values":
            tid = info["id"]
            t = self.num(tid)
            if info["state"] != TrialState.FAIL.value:
                self.fail_model("sweep set state %s" % info["state"])
                return
            if tid not in self.truth.get(i, set()):
                self.violation("touched-not-stale", "worker %d's sweep tried to fail trial id %d (number %d), which was not stale (RUNNING with a heartbeat row older than the grace period) when the worker read the stale ids" % (i, tid, t))
            if exc is None and rec["res"]:
                self.won.setdefault(tid, []).append(i)
                if len(self.won[tid]) > 1:
                    self.violation("two-winners", "trial id %d (number %d) was moved to FAIL by %d sweep steps (workers %s)" % (tid, t, len(self.won[tid]), self.won[tid]))
                self.count("cas:won")
                self.model_sweep(i, [], {"e": "won", "w": i, "t": t})
            elif exc == "UpdateFinishedTrialError":
                self.count("cas:lost")
                self.model_sweep(i, [], {"e": "lost", "w": i, "t": t})
            else:
                self.count("cas:other")
                self.fail_model("sweep CAS on %d answered %s / %s" % (t, rec.get("res"), exc))
        elif name == "get_trial":
            t = self.num(info["id"])
            self.cur_cb[i] = t
            self.count("callback_reads")
            self.model_sweep(i, [], {"e": "callback", "w": i, "t": t})
        elif name == "create_new_trial":
            if exc is not None or info["tmpl"] is None:
                self.fail_model("sweep create_new_trial: %s %s" % (exc, info))
                return
            n = self.num(rec["res"])
            tm = info["tmpl"]
            parent = rec.get("cb")  # the callback invocation this add_trial happens in (seen by the counting wrapper)
            if parent is not None:
                self.parent_of[n] = parent
            self.count("retry_enqueued")
            self.model_sweep(i, [], {"e": "enqueued", "w": i, "t": parent, "n": n}, tm)

    def check_footprint(self, w: Worker, log: list[dict[str, Any]], before: dict[int, dict[str, Any]]) -> None:
        """A sweep step may change exactly: the state of the trial it won (RUNNING -> FAIL), or add one trial."""
        after = self.table()
        calls = [r for r in log if r.get("sweep")]
        if len(calls) != 1 or any((not r.get("sweep")) and r["name"] in GATED and r["name"] not in ("get_trial", "get_all_trials") for r in log):
            return  # the step also contained other calls of this worker (next op): footprint not attributable
        r = calls[0]
        allowed_changed: set[int] = set()
        allowed_new = 0
        if r["name"] == "set_trial_state_values" and r.get("exc") is None and r.get("res"):
            allowed_changed.add(self.num(r["info"]["id"]))
        if r["name"] == "create_new_trial" and r.get("exc") is None:
            allowed_new = 1
        for n, b in before.items():
            a = after.get(n)
            if a != b and n not in allowed_changed:
                self.violation("sweep-touched-other-trial", "worker %d's sweep call %s changed trial %d: %s -> %s" % (w.idx, r["name"], n, b, a))
            if a != b and n in allowed_changed:
                if not (b["state"] == 0 and a["state"] == 3 and dict(a, state=0) == b):
                    self.violation("sweep-changed-more-than-state", "worker %d's compare-and-set changed trial %d: %s -> %s" % (w.idx, n, b, a))
        if len(after) - len(before) != allowed_new:
            self.violation("sweep-added-trials", "worker %d's sweep call %s added %d trial(s)" % (w.idx, r["name"], len(after) - len(before)))

    # ---- running ----------------------------------------------------------------------------------
    def run(self) -> None:
        sched = random.Random(self.spec["seed"] * 7919 + 13)
        spec = self.spec
        deaths = {d["w"]: d["after"] for d in spec["deaths"]}
        steps_of = {w.idx: 0 for w in self.workers}
        try:
            for w in self.workers:
                w.thread.start()
                if not w.arrived.wait(WAIT):
                    raise core.InfraError("worker thread did not reach its first storage call")
                self.process(w, self.take_log(w), None)
            n_sched = 0
            rr: list[int] = []
            warm = bool(spec.get("pro"))
            while True:
                alive = [w for w in self.workers if not w.done and not w.dead]
                if not alive or n_sched > 4000:
                    break
                n_sched += 1
                if warm:
                    # warm-up: every worker first completes its prologue (trials that can go stale), then time passes
                    alive = [w for w in alive if len(w.oplog) < spec["pro"][w.idx]]
                    if not alive:
                        warm = False
                        d = spec.get("warm_tick", 0)
                        if d:
                            self.age(d)
                            self.trace.append(["tick", d])
                        continue
                elif sched.random() < spec["p_tick"]:
                    # (now and then a worker has been dead for more than a day: the age must be compared as a
                    # whole duration, not by its seconds component)
                    d = sched.choice([100, 200, 300, 400, 100, 200, 300, 400, 86400 + 100])
                    self.age(d)
                    self.trace.append(["tick", d])
                    self.count("ticks")
                    continue
                if spec["policy"] == "rr":
                    if not rr:
                        rr = [w.idx for w in alive]
                        sched.shuffle(rr)
                    k = rr.pop()
                    cand = [w for w in alive if w.idx == k]
                    w = cand[0] if cand else sched.choice(alive)
                elif spec["policy"] == "sticky" and sched.random() < 0.6 and getattr(self, "_last", None) in alive:
                    w = self._last
                else:
                    w = sched.choice(alive)
                self._last = w
                name = w.pending[0] if w.pending else None
                sweep_call = name == "_get_stale_trial_ids" or (w.in_sweep and name in SWEEP_CALLS)
                before = None
                if name == "_get_stale_trial_ids":
                    self.pre_truth = self.ground_truth_stale()
                if sweep_call:
                    before = self.table()
                w.steplog = []
                w.arrived.clear()
                w.go.release()
                if not w.arrived.wait(WAIT):
                    raise core.InfraError("worker %d did not come back from %s" % (w.idx, name))
                self.process(w, self.take_log(w), before)
                steps_of[w.idx] += 1
                if w.idx in deaths and steps_of[w.idx] >= deaths[w.idx] and not w.done:
                    w.dead = True
                    self.trace.append(["die", w.idx])
                    if w.in_sweep:
                        self.died_in_sweep += 1
                    if self.model_ok:
                        self.drv.ask({"cmd": "die", "w": w.idx})
            self.final_checks()
        finally:
            for w in self.workers:
                if not w.done:
                    w.killed = True
                    w.go.release()
            for w in self.workers:
                w.thread.join(timeout=WAIT)
            for w in self.workers:
                self.remove_sessions(w.storage)
            self.remove_sessions(self.observer)

    @staticmethod
    def remove_sessions(st: Any) -> None:
        try:
            rdb = st._backend if isinstance(st, _CachedStorage) else st
            rdb.remove_session()
            rdb.engine.dispose()
        except Exception:  # noqa: BLE001
            pass

    def take_log(self, w: Worker) -> list[dict[str, Any]]:
        log, w.steplog = w.steplog, []
        return log

    # ---- the property, checked directly on the final state of the implementation -------------------
    def final_checks(self) -> None:
        tab = self.table()
        p = self.spec["params"]
        # callback at most once per trial (the real callback object was wrapped by a counter)
        per: dict[int, list[int]] = {}
        for c in self.cb_log:
            per.setdefault(c["number"], []).append(c["w"])
            if c["study"] != self.sid:
                self.violation("callback-wrong-study", "callback invoked with study id %s" % c["study"])
        for n, ws in per.items():
            if len(ws) > 1:
                self.violation("callback-twice", "the failure callback ran %d times for trial %d (workers %s)" % (len(ws), n, ws))
            tid = tab[n]["id"] if n in tab else None
            if tid is not None and not (set(ws) <= set(self.won.get(tid, []))):
                self.violation("callback-by-loser", "the callback for trial %d ran at worker(s) %s, the compare-and-set was won by %s" % (n, ws, self.won.get(tid, [])))
        self.count("callbacks", len(self.cb_log))
        # one retry per failure, chain structure, bounded chains, payload carried
        children: dict[int, list[int]] = {}
        maxdepth = 0
        for n, r in sorted(tab.items()):
            h = r["retryHistory"]
            if h is None and r["failedTrial"] is None:
                if n in self.parent_of:
                    self.violation("retry-without-history", "trial %d was enqueued by the callback of trial %d but carries no retry_history" % (n, self.parent_of[n]))
                continue
            if not h:
                self.violation("bad-retry-history", "trial %d: failed_trial=%s retry_history=%s" % (n, r["failedTrial"], h))
                continue
            par = h[-1]
            children.setdefault(par, []).append(n)
            pr = tab.get(par)
            if pr is None or pr["state"] != 3 or par >= n:
                self.violation("bad-retry-history", "trial %d claims to retry trial %s which is %s" % (n, par, pr and pr["state"]))
                continue
            if h[:-1] != (pr["retryHistory"] or []) or r["failedTrial"] != h[0]:
                self.violation("bad-retry-history", "trial %d: retry_history=%s failed_trial=%s, but the retried trial %d has history %s" % (n, h, r["failedTrial"], par, pr["retryHistory"]))
            if self.parent_of.get(n, par) != par:
                self.violation("bad-retry-history", "trial %d was enqueued by the callback for trial %d but says it retries %d" % (n, self.parent_of[n], par))
            depth = len(h)
            maxdepth = max(maxdepth, depth)
            if p["maxRetry"] is not None and depth > p["maxRetry"]:
                self.violation("chain-too-long", "trial %d is retry number %d of trial %d with max_retry=%d (history %s)" % (n, depth, h[0], p["maxRetry"], h))
            # a WAITING retry nobody has touched yet is exactly the copy; later it may only have gained entries
            for field in ("params", "user", "other"):
                missing = {k: v for k, v in pr[field].items() if r[field].get(k) != v}
                if missing and not (field == "user" and r["state"] != 4 and all(k in r[field] for k in missing)):
                    self.violation("retry-drops-%s" % field, "retry %d of trial %d lacks/changes %s entries %s (has %s)" % (n, par, field, missing, r[field]))
        # chains measured by the observed parent links as well (independent of the attributes)
        for n in self.parent_of:
            d, k = 0, n
            while k in self.parent_of and d < 100:
                k = self.parent_of[k]
                d += 1
            maxdepth = max(maxdepth, d)
            if p["maxRetry"] is not None and d > p["maxRetry"]:
                self.violation("chain-too-long", "trial %d is the %d-th retry in its chain (observed callback links), max_retry=%d" % (n, d, p["maxRetry"]))
        for par, ch in children.items():
            if len(ch) > 1:
                self.violation("two-retries", "trial %d has %d retries: %s" % (par, len(ch), ch))
        byp: dict[int, list[int]] = {}
        for n, par in self.parent_of.items():
            byp.setdefault(par, []).append(n)
        for par, ch in byp.items():
            if len(ch) > 1:
                self.violation("two-retries", "the callbacks for trial %d enqueued %d trials: %s" % (par, len(ch), ch))
        self.count("max_chain_depth_%d" % min(maxdepth, 4))
        self.maxdepth = maxdepth
        # the decoy study is untouched
        dec = self.observer.get_all_trials(self.decoy_id, deepcopy=False)
        if [t.state for t in dec] != [TrialState.RUNNING, TrialState.RUNNING]:
            self.violation("other-study-touched", "trials of another study changed: %s" % [t.state.name for t in dec])
        # model vs implementation: the whole trial table
        if self.model_ok:
            dump = self.drv.ask({"cmd": "dump"})
            mt = {n: dict(canon_model_rec(x), hb=x["hb"] is not None) for n, x in enumerate(dump["trials"])}
            rt = {n: {k: v for k, v in r.items() if k != "id"} for n, r in tab.items()}
            if mt != rt:
                diff = [n for n in sorted(set(mt) | set(rt)) if mt.get(n) != rt.get(n)]
                self.fail_model("final trial tables differ at trial(s) %s: implementation %s, model %s" % (diff, rt.get(diff[0]), mt.get(diff[0])))
            self.n_events = len(dump["events"])


# ---- case generation -------------------------------------------------------------------------------
def gen_script(r: random.Random, long: bool) -> list[Any]:
    ops: list[Any] = []
    n = r.randint(4, 9) if not long else r.randint(8, 16)
    for _ in range(n):
        x = r.random()
        if x < 0.34:
            ops.append(["sweep"])
            if r.random() < 0.45:  # somebody picks the retry up and dies with it
                ops.append(["ask"])
                ops.append(["beat", len([o for o in ops if o[0] == "ask"]) - 1])
        elif x < 0.52:
            ops.append(["ask"])
            if r.random() < 0.8:
                ops.append(["beat", len([o for o in ops if o[0] == "ask"]) - 1])
        elif x < 0.57:
            ops.append(["beat", r.randrange(4)])
        elif x < 0.63:
            ops.append(["beat_num", r.randrange(6)])
        elif x < 0.69:
            ops.append(["suggest", r.randrange(4), r.choice(["x", "y", "z"])])
        elif x < 0.74:
            ops.append(["attr", r.randrange(4), r.choice(["a", "b"]), r.choice([1, "s", [1, 2], {"k": None}])])
        elif x < 0.82:
            ops.append(["tell", r.randrange(4), r.choice(["complete", "complete", "fail", "pruned"])])
        elif x < 0.88:
            ops.append(["enqueue", {"x": r.choice([0.25, 0.5])}, r.choice([None, {"tag": r.randrange(3)}])])
        else:
            ops.append(["run_trial", r.random() < 0.25])
    return ops


def gen_case(seed: int, thorough: bool = False) -> dict[str, Any]:
    r = random.Random(seed)
    nw = r.choice([2, 2, 3, 3, 4])
    has_cb = r.random() < 0.92
    scripts = []
    pros: list[int] = []
    for i in range(nw):
        # prologue: make some trials that can go stale (asked + beaten, with parameters and attributes)
        pro: list[Any] = []
        for k in range(r.randint(0, 2)):
            if r.random() < 0.3:
                pro.append(["enqueue", {"x": 0.75}, {"q": k}])
            pro.append(["ask"])
            if r.random() < 0.85:
                pro.append(["beat", k])
            if r.random() < 0.6:
                pro.append(["suggest", k, r.choice(["x", "y"])])
            if r.random() < 0.5:
                pro.append(["attr", k, "u", [i, k]])
        if r.random() < 0.3:
            pro.append(["enqueue_beat", {"x": 0.125}, {"late": i}])
        pros.append(len(pro))
        scripts.append(pro + [["sweep"]] + gen_script(r, thorough and r.random() < 0.5))
    deaths = []
    if r.random() < 0.45:
        for w in r.sample(range(nw), r.choice([1, 1, 2]) if nw > 2 else 1):
            deaths.append({"w": w, "after": r.randint(3, 40)})
    return {
        "seed": seed, "backend": r.choice(["rdb", "cached"]),
        "params": {"hasCb": has_cb, "maxRetry": r.choice([None, 0, 1, 1, 2, 2, 3])},
        "scripts": scripts, "pro": pros, "warm_tick": r.choice([0, 300, 300, 400]), "deaths": deaths, "p_tick": r.choice([0.05, 0.1, 0.15]), "policy": r.choice(["uniform", "rr", "rr", "sticky"]),
    }


def run_case(spec: dict[str, Any], tmp: str, drv: core.Driver | None) -> dict[str, Any]:
    case = Case(spec, tmp, drv)
    case.run()
    try:
        os.remove(case.url[len("sqlite:///"):])
    except OSError:
        pass
    nontrivial = case.overlap > 0 or case.died_in_sweep > 0 or getattr(case, "maxdepth", 0) >= 2
    if case.overlap:
        case.count("cases_with_overlapping_sweeps")
    if case.died_in_sweep:
        case.count("cases_with_death_inside_sweep")
    return {"spec": spec, "violations": case.violations, "mismatch": case.mismatch, "stats": case.stats,
            "nontrivial": nontrivial, "trace": case.trace}


def _pool_worker(args: tuple[list[int], str, bool, bool]) -> list[dict[str, Any]]:
    seeds, tmp, thorough, with_model = args
    drv = core.Driver("heartbeat") if with_model else None
    out = []
    try:
        for s in seeds:
            spec = gen_case(s, thorough)
            try:
                res = run_case(spec, tmp, drv)
                res["trace"] = res["trace"] if (res["violations"] or res["mismatch"]) else res["trace"][:25]
                out.append(res)
            except core.DriverBroken as e:
                out.append({"spec": spec, "violations": [], "mismatch": "driver: %s" % str(e)[:300], "stats": {}, "nontrivial": False, "trace": []})
                drv = core.Driver("heartbeat") if with_model else None
            except core.InfraError as e:
                out.append({"spec": spec, "infra": str(e)})
            except Exception as e:  # noqa: BLE001
                out.append({"spec": spec, "infra": "harness crashed: %s %s" % (type(e).__name__, traceback.format_exc()[-800:])})
    finally:
        if drv is not None:
            drv.close()
    return out


def explore(chk: core.Check, seeds: list[int], with_model: bool = True) -> None:
    import multiprocessing as mp

    nproc = min(12, max(1, len(seeds) // 6))
    chunks = [seeds[i::nproc] for i in range(nproc)]
    thorough = chk.tier == "thorough"
    with mp.get_context("spawn").Pool(nproc) as pool:
        results = pool.map(_pool_worker, [(c, chk.tmp, thorough, with_model) for c in chunks])
    for res in results:
        for c in res:
            spec = c["spec"]
            if "infra" in c:
                raise core.InfraError(c["infra"])
            short = {"seed": spec["seed"], "backend": spec["backend"], "params": spec["params"], "workers": len(spec["scripts"]),
                     "deaths": spec["deaths"], "policy": spec["policy"], "scripts": spec["scripts"]}
            for k, v in c["stats"].items():
                chk.count(k, v)
            if c["violations"]:
                kind, why = c["violations"][0]
                chk.violation({"kind": kind, "backend": spec["backend"]}, {"spec": spec, "trace": c["trace"][-60:], "all": c["violations"][:6]}, why)
            elif c["mismatch"]:
                chk.broke("correspondence", {"seed": spec["seed"], "backend": spec["backend"], "why": c["mismatch"], "trace": c["trace"][-12:]})
            else:
                chk.case(dict(short, first_steps=c["trace"][:12]), nontrivial=c["nontrivial"])
                chk.traces_validated += 1
                chk.count("cases:" + spec["backend"])


# ---- shape of the anchored code (a small translator: AST -> facts the model assumes) ----------------
def code_shape(chk: core.Check) -> None:
    facts: dict[str, Any] = {}
    try:
        src = open(os.path.join(core.REPO, "optuna/storages/_heartbeat.py")).read()
        fn = next(n for n in ast.walk(ast.parse(src)) if isinstance(n, ast.FunctionDef) and n.name == "fail_stale_trials")
        loops = [n for n in fn.body if isinstance(n, ast.For)]
        tries = [n for n in ast.walk(fn) if isinstance(n, ast.Try)]
        facts["sweep.first_loop_over"] = ast.unparse(loops[0].iter) if loops else None
        facts["sweep.caught"] = sorted(ast.unparse(h.type) if h.type is not None else "BaseException" for t in tries for h in t.handlers)
        facts["sweep.handler_bodies"] = sorted(ast.unparse(ast.Module(h.body, [])) for t in tries for h in t.handlers)
        facts["sweep.try_body"] = [ast.unparse(s) for t in tries for s in t.body]
        cb_loops = [n for n in ast.walk(fn) if isinstance(n, ast.For) and "failed_trial_callback(" in ast.unparse(n)]
        facts["sweep.callback_loop_over"] = [ast.unparse(n.iter) for n in cb_loops]
        src2 = open(os.path.join(core.REPO, "optuna/storages/_callbacks.py")).read()
        call = next(n for n in ast.walk(ast.parse(src2)) if isinstance(n, ast.FunctionDef) and n.name == "__call__")
        ifs = [n for n in ast.walk(call) if isinstance(n, ast.If)]
        facts["callback.tests"] = [ast.unparse(n.test) for n in ifs]
        facts["callback.keys"] = sorted(k.value for n in ast.walk(call) if isinstance(n, ast.Dict) for k in n.keys if isinstance(k, ast.Constant))
        src3 = open(os.path.join(core.REPO, "optuna/study/_optimize.py")).read()
        rt = next(n for n in ast.walk(ast.parse(src3)) if isinstance(n, ast.FunctionDef) and n.name == "_run_trial")
        facts["run_trial.head"] = [ast.unparse(s) for s in rt.body[:2]]
    except Exception as e:  # noqa: BLE001
        chk.broke("translation", {"untranslatable": "%s: %s" % (type(e).__name__, e)})
        return
    expected = {
        "sweep.first_loop_over": "storage._get_stale_trial_ids(study._study_id)",
        "sweep.caught": ["optuna.exceptions.UpdateFinishedTrialError"],
        "sweep.handler_bodies": ["pass"],
        "sweep.try_body": ["if storage.set_trial_state_values(trial_id, state=TrialState.FAIL):\n    failed_trial_ids.append(trial_id)"],
        "sweep.callback_loop_over": ["failed_trial_ids"],
        "callback.tests": ["self._max_retry is not None", "self._max_retry < len(system_attrs['retry_history'])"],
        "callback.keys": ["failed_trial", "retry_history"],
        "run_trial.head": ["if is_heartbeat_enabled(study._storage):\n    optuna.storages.fail_stale_trials(study)", "trial = study.ask()"],
    }
    chk.translated.append("shape of fail_stale_trials / RetryFailedTrialCallback.__call__ / _run_trial head = %s" % json.dumps(facts, sort_keys=True))
    diff = {k: {"code": facts.get(k), "model_assumes": v} for k, v in expected.items() if facts.get(k) != v}
    if diff:
        chk.broke("translation", diff)
    states = {s.name: s.value for s in TrialState}
    if states != {"RUNNING": 0, "COMPLETE": 1, "PRUNED": 2, "FAIL": 3, "WAITING": 4}:
        chk.broke("translation", {"TrialState": states})


# ---- free-running race: real threads / real processes, no gating (only the model-independent oracle) ----------
def _race_db(tmp: str, tag: str, k: int) -> tuple[str, int, list[int]]:
    url = "sqlite:///" + fresh_db(tmp, tag)
    st = open_rdb(url)
    sid = st.create_new_study([optuna.study.StudyDirection.MINIMIZE], "main")
    ids = []
    for j in range(k):
        tid = st.create_new_trial(sid)
        st.set_trial_user_attr(tid, "u", j)
        st.record_heartbeat(tid)
        ids.append(tid)
    with _create_scoped_session(st.scoped_session, True) as session:
        for hb in session.query(models.TrialHeartbeatModel).all():
            hb.heartbeat = hb.heartbeat - datetime.timedelta(seconds=1000)
    Case.remove_sessions(st)
    return url, sid, ids


def _race_sweeper(url: str, who: int, max_retry: int | None, log: list[Any], errors: list[Any], barrier: Any) -> None:
    st = open_rdb(url, heartbeat_interval=60, grace_period=GRACE,
                  failed_trial_callback=CountingCallback(RetryFailedTrialCallback(max_retry=max_retry), log, who, {}))
    study = optuna.load_study(study_name="main", storage=st)
    barrier.wait(timeout=WAIT)
    for _ in range(2):
        try:
            fail_stale_trials(study)
        except sqlalchemy.exc.OperationalError as e:  # SQLite writer contention: not the subject
            errors.append(["busy", str(e)[:80]])
        except Exception as e:  # noqa: BLE001
            errors.append(["raised", "%s: %s" % (type(e).__name__, str(e)[:160])])
    Case.remove_sessions(st)


def _race_proc(args: tuple[list[str], int, int | None, Any, Any]) -> None:
    urls, who, max_retry, barrier, q = args
    for r, url in enumerate(urls):
        log: list[Any] = []
        errors: list[Any] = []
        try:
            _race_sweeper(url, who, max_retry, log, errors, barrier)
        except Exception as e:  # noqa: BLE001
            errors.append(["raised", "%s: %s" % (type(e).__name__, str(e)[:160])])
        q.put((r, who, log, errors))


def _race_verdict(chk: core.Check, mode: str, url: str, sid: int, ids: list[int], log: list[Any], errors: list[Any], max_retry: int | None, nw: int) -> None:
    st = open_rdb(url)
    trials = st.get_all_trials(sid, deepcopy=False)
    Case.remove_sessions(st)
    witness = {"mode": mode, "stale_trials": len(ids), "workers": nw, "max_retry": max_retry, "callbacks": log, "errors": errors}
    sig = {"kind": "free-race", "mode": mode}
    for kind, msg in errors:
        chk.count("race:%s:%s" % (mode, kind))
        if kind == "raised":
            chk.violation(dict(sig, kind="sweep-raised"), witness, "free-running %s race: fail_stale_trials raised %s" % (mode, msg))
    if any(k == "busy" for k, _ in errors):
        return
    per: dict[int, int] = {}
    for c in log:
        per[c["number"]] = per.get(c["number"], 0) + 1
    for t in trials[: len(ids)]:
        if t.state != TrialState.FAIL:
            chk.violation(dict(sig, kind="noticed-not-failed"), witness, "free-running %s race: stale trial %d is %s after every worker swept" % (mode, t.number, t.state.name))
        if per.get(t.number, 0) != 1:
            chk.violation(dict(sig, kind="callback-twice" if per.get(t.number, 0) > 1 else "callback-missing"), witness,
                          "free-running %s race (%d workers): the callback ran %d times for trial %d" % (mode, nw, per.get(t.number, 0), t.number))
    retries = [t for t in trials[len(ids):]]
    expected = len(ids) if (max_retry is None or max_retry >= 1) else 0
    by_parent: dict[int, int] = {}
    for t in retries:
        par = (t.system_attrs.get("retry_history") or [None])[-1]
        by_parent[par] = by_parent.get(par, 0) + 1
        if par is None or par >= len(ids) or t.user_attrs != trials[par].user_attrs or t.state != TrialState.WAITING:
            chk.violation(dict(sig, kind="retry-drops-user"), witness, "free-running %s race: retry %d differs from trial %s" % (mode, t.number, par))
    if any(v > 1 for v in by_parent.values()) or len(retries) > expected:
        chk.violation(dict(sig, kind="two-retries"), witness, "free-running %s race (%d workers, %d stale trials): %d retries enqueued: %s" % (mode, nw, len(ids), len(retries), by_parent))
    chk.count("race:%s:rounds" % mode)
    chk.count("race:%s:callbacks" % mode, len(log))


def free_race(chk: core.Check) -> None:
    """Several workers sweep the same stale trials at the same time with no scheduler in between: threads (both
    tiers) and separate OS processes (thorough).  Only the property is checked; the model is not involved."""
    r = random.Random(chk.seed * 977 + 5)
    rounds = 10 if chk.tier == "quick" else 60
    for i in range(rounds):
        nw, k, mr = r.choice([2, 3, 4]), r.choice([1, 2, 3]), r.choice([None, 0, 1, 2])
        url, sid, ids = _race_db(chk.tmp, "race%d" % i, k)
        log: list[Any] = []
        errors: list[Any] = []
        barrier = threading.Barrier(nw)
        ths = [threading.Thread(target=_race_sweeper, args=(url, w, mr, log, errors, barrier), daemon=True) for w in range(nw)]
        for t in ths:
            t.start()
        for t in ths:
            t.join(WAIT)
        if any(t.is_alive() for t in ths):
            raise core.InfraError("free race: a sweeping thread hangs")
        _race_verdict(chk, "threads", url, sid, ids, log, errors, mr, nw)
    if chk.tier != "thorough":
        return
    import multiprocessing as mp

    ctx = mp.get_context("spawn")
    nw, rounds, mr = 3, 40, 1
    dbs = [_race_db(chk.tmp, "prace%d" % i, r.choice([1, 2, 3])) for i in range(rounds)]
    barrier, q = ctx.Barrier(nw), ctx.Queue()
    procs = [ctx.Process(target=_race_proc, args=(([d[0] for d in dbs], w, mr, barrier, q),), daemon=True) for w in range(nw)]
    for p in procs:
        p.start()
    got: dict[int, list[Any]] = {}
    try:
        for _ in range(nw * rounds):
            rr, who, log, errors = q.get(timeout=600)
            got.setdefault(rr, []).append((log, errors))
    except Exception as e:  # noqa: BLE001
        for p in procs:
            p.kill()
        raise core.InfraError("free race between processes did not finish: %r" % (e,))
    for p in procs:
        p.join(WAIT)
    for rr, (url, sid, ids) in enumerate(dbs):
        log = [c for lg, _ in got[rr] for c in lg]
        errors = [e for _, er in got[rr] for e in er]
        _race_verdict(chk, "processes", url, sid, ids, log, errors, mr, nw)


# ---- wall-clock / time-zone probe ---------------------------------------------------------------------------------------
TZ_CHILD = r"""
import os, sys, time, datetime, json
os.environ["TZ"] = sys.argv[2]
time.tzset()
sys.path.insert(0, %(root)r)
import optuna
from sqlalchemy import text
from optuna.storages import RDBStorage
from optuna.trial import TrialState
optuna.logging.set_verbosity(optuna.logging.ERROR)
url = sys.argv[1]
mk = lambda: RDBStorage(url, heartbeat_interval=60, grace_period=120)
owner, sweeper = mk(), mk()
study = optuna.create_study(storage=owner, study_name="tz")
fresh = study.ask()
owner.record_heartbeat(fresh._trial_id)                      # the FIRST beat of a live trial (an INSERT)
stale = study.ask()
owner.record_heartbeat(stale._trial_id)
owner.record_heartbeat(stale._trial_id)                      # a later beat (an UPDATE)
with owner.engine.begin() as c:                              # ... and the worker dies: the row is an hour old by the DATABASE clock
    c.execute(text("UPDATE trial_heartbeats SET heartbeat = datetime(CURRENT_TIMESTAMP, '-3600 seconds') WHERE trial_id = :t"), {"t": stale._trial_id})
other = optuna.load_study(storage=sweeper, study_name="tz")
optuna.storages.fail_stale_trials(other)
ts = {t._trial_id: t.state.name for t in sweeper.get_all_trials(other._study_id, deepcopy=False)}
print("RESULT " + json.dumps({"fresh": ts[fresh._trial_id], "stale": ts[stale._trial_id]}))
"""


def timezone_probe(chk: core.Check) -> None:
    """Staleness is judged on ONE clock (the database's) whatever the worker's local time zone: a trial whose first
    heartbeat was just recorded is never failed, one whose heartbeat is an hour old always is - for workers west and east
    of UTC alike."""
    import subprocess
    import sys

    script = os.path.join(chk.tmp, "tz_child.py")
    with open(script, "w") as f:
        f.write(TZ_CHILD % {"root": core.REPO})
    for tz in ("PST8", "UTC", "JST-9", "NPT-5:45"):
        url = "sqlite:///" + os.path.join(chk.tmp, "tz_%s_%d.db" % (tz.replace(":", "").replace("-", "m"), os.getpid()))
        p = subprocess.run([sys.executable, script, url, tz], capture_output=True, text=True, timeout=300, env=dict(os.environ))
        line = next((l for l in p.stdout.splitlines() if l.startswith("RESULT ")), None)
        if line is None:
            chk.extra.setdefault("tz_probe_errors", []).append({"tz": tz, "stderr": p.stderr[-300:]})
            chk.count("tz-probe:infra")
            continue
        res = json.loads(line[7:])
        chk.case({"part": "tz-probe", "tz": tz}, nontrivial=tz != "UTC")
        chk.count("tz-probe")
        if res["fresh"] != "RUNNING":
            chk.violation({"kind": "not-stale-noticed", "scenario": "tz-probe"}, {"part": "tz-probe", "tz": tz, "result": res},
                          "worker in time zone %s: a RUNNING trial whose first heartbeat had just been recorded was moved to %s by fail_stale_trials (grace 120 s)" % (tz, res["fresh"]))
            return
        if res["stale"] != "FAIL":
            chk.violation({"kind": "stale-not-noticed", "scenario": "tz-probe"}, {"part": "tz-probe", "tz": tz, "result": res},
                          "worker in time zone %s: a RUNNING trial whose heartbeat is an hour old (database clock) was left %s by fail_stale_trials (grace 120 s)" % (tz, res["stale"]))
            return


def recycled_id_probe(chk: core.Check) -> None:
    """A study that ran with heartbeats is deleted; SQLite hands its (highest) trial ids out again (known finding F12 of C01).
    A trial created afterwards under such an id has NO recorded heartbeat of its own and must never be touched by a sweep -
    so the deleted trials' heartbeat rows must be gone with them."""
    from sqlalchemy import text

    url = "sqlite:///" + os.path.join(chk.tmp, "recycled_%d.db" % os.getpid())
    st = RDBStorage(url, heartbeat_interval=60, grace_period=120)
    keep = optuna.create_study(storage=st, study_name="keep")
    gone = optuna.create_study(storage=st, study_name="gone")
    for _ in range(3):
        t = gone.ask()
        st.record_heartbeat(t._trial_id)
    with st.engine.begin() as c:  # the beats are an hour old by the database clock
        c.execute(text("UPDATE trial_heartbeats SET heartbeat = datetime(CURRENT_TIMESTAMP, '-3600 seconds')"))
    optuna.delete_study(study_name="gone", storage=st)
    fresh = [keep.ask() for _ in range(3)]  # ask/tell trials never record a heartbeat
    sweeper = RDBStorage(url, heartbeat_interval=60, grace_period=120)
    optuna.storages.fail_stale_trials(optuna.load_study(study_name="keep", storage=sweeper))
    states = {t.number: t.state.name for t in keep.get_trials(deepcopy=False)}
    chk.case({"part": "recycled-id-probe"}, nontrivial=True)
    chk.count("recycled-id-probe")
    bad = {n: s_ for n, s_ in states.items() if s_ != "RUNNING"}
    if bad:
        chk.violation({"kind": "not-stale-noticed", "scenario": "recycled-trial-id"}, {"part": "recycled-id-probe", "states": states},
                      "trials %s of study 'keep' never recorded a heartbeat, yet fail_stale_trials moved them to %s: they were created under trial ids of a deleted study whose heartbeat rows survived the deletion" % (
                          sorted(bad), sorted(set(bad.values()))))


def cached_callback_probe(chk: core.Check) -> None:
    """The sweep hands the failure callback the failed trial; RetryFailedTrialCallback extends that trial's retry_history in
    place while it builds the retry.  With a cached storage (every `storage=RDBStorage(...)` study) the failed trial can
    already sit in the process-wide cache when the callback fetches it: a sibling thread's read of the study lands between the
    FAIL write and the callback.  What the sweeping process reports afterwards must still agree with the database: trial 1 is
    the retry of [0], trial 2 of [0, 1] (each dead trial is retried at most once, with the right lineage)."""
    import threading

    from sqlalchemy import text

    from optuna.storages import RetryFailedTrialCallback

    url = "sqlite:///" + os.path.join(chk.tmp, "cachedcb_%d.db" % os.getpid())
    backend = RDBStorage(url, heartbeat_interval=60, grace_period=120, failed_trial_callback=RetryFailedTrialCallback(max_retry=5))
    study = optuna.create_study(storage=backend, study_name="s")

    def die(trial: Any) -> None:
        trial.suggest_float("x", 0.0, 1.0)
        backend.record_heartbeat(trial._trial_id)
        with backend.engine.begin() as c:
            c.execute(text("UPDATE trial_heartbeats SET heartbeat = datetime(CURRENT_TIMESTAMP, '-3600 seconds') WHERE trial_id = :t"), {"t": trial._trial_id})

    die(study.ask())
    optuna.storages.fail_stale_trials(study)
    t1 = study.ask()
    die(t1)
    original = backend.set_trial_state_values

    def hooked(trial_id: int, state: Any, values: Any = None) -> bool:
        done = original(trial_id, state=state, values=values)
        if done and state == optuna.trial.TrialState.FAIL:
            th = threading.Thread(target=lambda: study.get_trials(deepcopy=False))   # the sibling thread's read
            th.start()
            th.join()
        return done

    backend.set_trial_state_values = hooked  # type: ignore[method-assign]
    try:
        optuna.storages.fail_stale_trials(study)
    finally:
        backend.set_trial_state_values = original  # type: ignore[method-assign]
    seen = [[t.state.name, RetryFailedTrialCallback.retry_history(t), t.system_attrs.get("failed_trial")] for t in study.get_trials(deepcopy=False)]
    truth = [[t.state.name, RetryFailedTrialCallback.retry_history(t), t.system_attrs.get("failed_trial")] for t in optuna.load_study(study_name="s", storage=RDBStorage(url)).get_trials(deepcopy=False)]
    chk.case({"part": "cached-callback-probe"}, nontrivial=True)
    chk.count("cached-callback-probe")
    want = [["FAIL", [], None], ["FAIL", [0], 0], ["WAITING", [0, 1], 0]]
    if truth != want:
        chk.violation({"kind": "retry-lineage", "scenario": "cached-callback", "where": "database"}, {"part": "cached-callback-probe", "seen": seen, "truth": truth},
                      "retry chain 0 -> 1 -> 2 swept with a sibling read between the FAIL write and the callback: the database holds %s, expected %s" % (truth, want))
    elif seen != truth:
        chk.violation({"kind": "retry-lineage", "scenario": "cached-callback", "where": "sweeping-process"}, {"part": "cached-callback-probe", "seen": seen, "truth": truth},
                      "retry chain 0 -> 1 -> 2 swept with a sibling read between the FAIL write and the callback: the sweeping process reports %s but the database holds %s "
                      "(the callback was handed the cached trial object and changed it in place)" % (seen, truth))


def search(chk: core.Check) -> None:
    """Failing-input search after a breakage: many more schedules; only the model-independent oracle matters."""
    c19_rdb.search(chk)  # boundary ages / retry arithmetic on the SQL side first (cheap, deterministic)
    if chk.violations:
        return
    base = 5_000_000 + chk.seed * 100_000
    n = 360 if chk.tier == "quick" else 2500
    chk.search_log.append("searching %d more schedules (model-independent oracle only)" % n)
    explore(chk, [base + i for i in range(n)], with_model=False)


def main(chk: core.Check) -> int:
    chk.rule = RULE + " || " + c19_rdb.RULE_RDB
    c19_rdb.translate(chk)  # Generated/StaleGen.lean (+ RdbCodec, Best) from the working tree, before the proofs are checked
    if not getattr(chk, "no_prove", False):
        chk.prove(["OptunaVerif.Props.C19", "OptunaVerif.Props.C19Rdb"])
    code_shape(chk)
    quick = chk.tier == "quick"
    n = 320 if quick else 6000
    base = chk.seed * 1_000_003
    try:
        core.ensure_driver()
        explore(chk, [base + i for i in range(n)])
    except core.DriverBroken as e:
        chk.broke("correspondence", {"driver": str(e)[:800]})
    c19_rdb.correspond(chk, chk.tier)  # the SQL side: relational heartbeat model vs RDBStorage, virtual database clock
    timezone_probe(chk)  # real clocks, workers in other time zones
    recycled_id_probe(chk)  # heartbeat rows of a deleted study vs SQLite's re-issued trial ids
    cached_callback_probe(chk)  # the failure callback must not be handed (and edit) the cached trial object
    free_race(chk)
    chk.assumptions += [
        "one storage call = one atomic step: RDBStorage.set_trial_state_values changes the state with one conditional UPDATE (SQLite/SQLAlchemy statement + transaction semantics are trusted); the gated tie serialises calls, the free-running thread/process races sample the real interleavings without the model",
        "staleness = age of the trial_heartbeats row against the DB clock; in the gated tie ages are produced by rewriting the rows (ticks of 100..400 s, grace 250 s); the boundary (age == grace, +-1 us, +-1 s, > 1 day, negative) is exercised by the c19_rdb tie on a virtual database clock; the heartbeat thread's timing is not exercised",
        "all workers use the same grace period, callback and max_retry; nobody but RetryFailedTrialCallback writes the system attributes failed_trial / retry_history; no study is deleted during a sweep",
        "the stale query's row order is taken from the implementation (the model is proved for every order)",
    ]
    chk.trusted += ["gating harness of verif/props/c19.py (one thread runs at a time; every storage call of a worker is a scheduling point)"]
    return chk.finish(search=search)


def replay(chk: core.Check, path: str) -> int:
    import shutil

    try:
        return _replay(chk, path)
    finally:
        shutil.rmtree(chk.tmp, ignore_errors=True)


def _replay(chk: core.Check, path: str) -> int:
    payload = json.load(open(path))
    w = payload.get("witness") or {}
    if "rdb_case" in w:
        return c19_rdb.replay(chk, w["rdb_case"])
    spec = w.get("spec")
    if spec is None and "mode" in w:
        # a free-running race: not deterministic; run the same rounds again (same seed) and report what fails now
        chk.seed, chk.tier = int(payload.get("seed", 0)), payload.get("tier", "quick")
        free_race(chk)
        for v in chk.violations[:5]:
            print("REPRODUCED (%s): %s" % (v["signature"]["kind"], v["message"]))
        if not chk.violations:
            print("not reproduced in this run (the race is not deterministic)")
        return 1 if chk.violations else 0
    if spec is None:
        print("nothing to replay in %s (kind=%s): %s" % (path, payload.get("kind"), json.dumps(payload.get("no_longer_checks"))[:600]))
        return 1
    core.ensure_driver()
    drv = core.Driver("heartbeat")
    try:
        res = run_case(spec, chk.tmp, drv)
    finally:
        drv.close()
    for kind, why in res["violations"]:
        print("REPRODUCED (%s): %s" % (kind, why))
    if res["mismatch"]:
        print("model/implementation disagreement: %s" % res["mismatch"])
    if res["violations"] or res["mismatch"]:
        for t in res["trace"][-40:]:
            print("   ", json.dumps(t, default=str)[:200])
        return 1
    print("not reproduced")
    return 0
